"""C01 — Query API is total on any source text and cursor position (kernel contracts)."""
from pyvc.api import *

SPEC_FUNCTIONS = ['text_len', 'eff_line', 'pos_in_range', 'eff_column']


def text_len(line):
    """length of a line of the buffer without its line terminator"""
    if line.endswith('\r\n'):
        return len(line) - 2
    if line.endswith('\n'):
        return len(line) - 1
    return len(line)


def eff_line(lines, line):
    """line number a query uses when `line` is omitted: the last line"""
    if line is None:
        return max(len(lines), 1)
    return line


def eff_column(lines, line, column):
    if column is None:
        return text_len(lines[eff_line(lines, line) - 1])
    return column


def pos_in_range(lines, line, column):
    """(line, column) lies inside the text: 1-based line, 0-based column up to
    and including the end of the line's text"""
    ln = eff_line(lines, line)
    if not (1 <= ln <= len(lines)):
        return False
    col = eff_column(lines, line, column)
    return 0 <= col <= text_len(lines[ln - 1])


FAMILIES = [
    Family('Script', attrs={'_code_lines': Seq(STR)},
           note='api.Script; _code_lines = parso.split_lines(code, keepends=True), never empty'),
]

_func = FnSpec('func', params=[('self', Obj('Script')), ('line', INT), ('column', INT),
                               ('args', ANY), ('kwargs', ANY)],
               ret=ANY, pure=True, assumed=False,
               note='the decorated query method; abstract')


def _call_func(V, st, self_val, args, kwargs, node):
    # func(self, line, column, *args, **kwargs): *args/**kwargs are passed through opaquely
    from pyvc.calls import call_spec, StarAny
    if any(isinstance(a, StarAny) for a in args) or '**' in kwargs:
        pos = [a for a in args if not isinstance(a, StarAny)]
        star = [a.v for a in args if isinstance(a, StarAny)]
        args = pos + star + [kwargs['**']]
    return call_spec(V, _func, None, args, {}, st, node)


_func_star = FnSpec('func', impl=_call_func, assumed=False)

def _replay_wrapper(inp):
    from pyvc.replay import run_real
    from jedi.api.helpers import validate_line_column

    class FakeScript:
        pass
    s = FakeScript()
    s._code_lines = list(inp['lines'])

    def func(self, line, column, *args, **kwargs):
        return ('entered', id(self), line, column, args, tuple(sorted(kwargs.items())))
    out = run_real(lambda: validate_line_column(func)(s, inp['line'], inp['column']))
    env = {'self': s, 'line': inp['line'], 'column': inp['column'], 'args': (), 'kwargs': {},
           'func': lambda self, l, c, a, k: func(self, l, c)}
    return env, out


CONTRACTS = [
    Contract(
        id='C01.validate_line_column', prop='C01',
        clause='(a) out-of-range position <=> ValueError and nothing else; in range: wrapped query '
               'entered with exactly that (defaulted) position',
        file='jedi/api/helpers.py', qualname='validate_line_column.wrapper',
        params={'self': Obj('Script'), 'line': Opt(INT), 'column': Opt(INT), 'args': ANY, 'kwargs': ANY},
        free={'func': _func_star},
        families=['Script'],
        requires=['len(self._code_lines) >= 1'],
        ret=ANY,
        ensures=['result == func(self, eff_line(self._code_lines, line), '
                 'eff_column(self._code_lines, line, column), args, kwargs)'],
        raises={'ValueError': 'not pos_in_range(self._code_lines, line, column)'},
        raises_iff=['ValueError'],
        tier='P',
        witness={'lines': 'self._code_lines', 'line': 'line', 'column': 'column'},
        replay=_replay_wrapper,
    ),
]
