"""C01 — Query API is total on any source text and cursor position (kernel contracts)."""
from pyvc.api import *

SPEC_FUNCTIONS = ['text_len', 'eff_line', 'pos_in_range', 'eff_column']
SPEC_IMPORTS = ['contracts.common', 'contracts.c11', 'contracts.c10']


def text_len(line):
    """length of a line of the buffer without its line terminator"""
    if line.endswith('\r\n'):
        return len(line) - 2
    if line.endswith('\n'):
        return len(line) - 1
    return len(line)


def eff_line(lines, line):
    """line number a query uses when `line` is omitted: the last line"""
    if line is None:
        return max(len(lines), 1)
    return line


def eff_column(lines, line, column):
    if column is None:
        return text_len(lines[eff_line(lines, line) - 1])
    return column


def pos_in_range(lines, line, column):
    """(line, column) lies inside the text: 1-based line, 0-based column up to
    and including the end of the line's text"""
    ln = eff_line(lines, line)
    if not (1 <= ln <= len(lines)):
        return False
    col = eff_column(lines, line, column)
    return 0 <= col <= text_len(lines[ln - 1])


FAMILIES = [
    Family('TCtx01', attrs={'tree_node': Obj('PNode')},
           methods={'create_value': FnSpec('TreeContextMixin.create_value', params=[('node', Obj('PNode'))],
                                           ret=Obj('TVal01'), pure=True, assumed=True)}),
    Family('TVal01', methods={'as_context': FnSpec('Value.as_context', ret=Obj('TCtx01'), pure=True)}),
    Family('FuncVal01', attrs={'tree_node': Opt(Obj('PNode'))},
           methods={'as_context': FnSpec('Value.as_context', ret=Obj('Ctx01'), pure=True)}),
    Family('Ctx01', methods={
        'goto': FnSpec('Context.goto', params=[('name_or_str', Obj('PNode')), ('position', POS)],
                       ret=Seq(Obj('NameW')), pure=True, assumed=True),
        'infer_node': FnSpec('Context.infer_node', params=[('node', Obj('PNode'))], ret=ANY, pure=True, assumed=True)}),
    Family('Script', attrs={'_code_lines': Seq(STR)},
           note='api.Script; _code_lines = parso.split_lines(code, keepends=True), never empty'),
]

_func = FnSpec('func', params=[('self', Obj('Script')), ('line', INT), ('column', INT),
                               ('args', ANY), ('kwargs', ANY)],
               ret=ANY, pure=True, assumed=False,
               note='the decorated query method; abstract')


def _call_func(V, st, self_val, args, kwargs, node):
    # func(self, line, column, *args, **kwargs): *args/**kwargs are passed through opaquely
    from pyvc.calls import call_spec, StarAny
    if any(isinstance(a, StarAny) for a in args) or '**' in kwargs:
        pos = [a for a in args if not isinstance(a, StarAny)]
        star = [a.v for a in args if isinstance(a, StarAny)]
        args = pos + star + [kwargs['**']]
    return call_spec(V, _func, None, args, {}, st, node)


_func_star = FnSpec('func', impl=_call_func, assumed=False)

def _replay_wrapper(inp):
    from pyvc.replay import run_real
    from jedi.api.helpers import validate_line_column

    class FakeScript:
        pass
    s = FakeScript()
    s._code_lines = list(inp['lines'])

    def func(self, line, column, *args, **kwargs):
        return ('entered', id(self), line, column, args, tuple(sorted(kwargs.items())))
    out = run_real(lambda: validate_line_column(func)(s, inp['line'], inp['column']))
    env = {'self': s, 'line': inp['line'], 'column': inp['column'], 'args': (), 'kwargs': {},
           'func': lambda self, l, c, a, k: func(self, l, c)}
    return env, out


def _until_contract(fn):
    marg = 'self._module_node' if fn == 'extract_variable' else 'self._get_module_context()'
    return Contract(
        id='C01.Script.%s.until' % fn, prop='C01',
        clause='an until-position outside the text is rejected with ValueError (or the refactoring\'s own '
               'RefactoringError), never with an internal exception such as IndexError',
        file='jedi/api/__init__.py', qualname='Script.' + fn,
        params={'self': Obj('Script'), 'line': INT, 'column': INT, 'new_name': STR,
                'until_line': Opt(INT), 'until_column': Opt(INT)},
        families=['Script'], ret=ANY,
        requires=['len(self._code_lines) >= 1', '1 <= line and line <= len(self._code_lines)'],
        raises={'ValueError': None, 'RefactoringError': None},
        # (C07, error clause) the range check itself rejects only positions that are really outside the text: a
        # ValueError raised before the refactoring proper was entered implies an out-of-range until_line; and the
        # refactoring is entered with exactly the completed until-position
        ensures_exc=[
            'implies(exc_class == "ValueError" and "extract" not in EFFECTS, '
            'until_column is None and not (0 < (line if until_line is None else until_line) '
            'and (line if until_line is None else until_line) <= len(self._code_lines)))'],
        ensures=[
            'implies(until_line is None and until_column is None, '
            'result == %s(self._inference_state, self.path, %s, new_name, (line, column), None))' % (fn, marg),
            'implies(until_column is None and until_line is not None, '
            'result == %s(self._inference_state, self.path, %s, new_name, (line, column), '
            '((until_line if until_line is not None else line), '
            'len(self._code_lines[(until_line if until_line is not None else line) - 1]))))' % (fn, marg),
            'implies(until_column is not None, '
            'result == %s(self._inference_state, self.path, %s, new_name, (line, column), '
            '(line if until_line is None else until_line, (until_column if until_column is not None else 0))))' % (fn, marg),
        ],
        names={fn: FnSpec(fn, params=[('inference_state', ANY), ('path', ANY), ('module', ANY), ('name', STR),
                                      ('pos', POS), ('until_pos', Opt(POS))], ret=ANY, pure=True, effects=['extract'],
                          raises=['RefactoringError', 'ValueError'], assumed=False,
                          note='the refactoring proper: RefactoringError, or parso\'s ValueError for a position '
                               'outside the module')},
        allow_callee_exceptions=False,
        witness={'lines': 'self._code_lines', 'line': 'line', 'column': 'column', 'until_line': 'until_line',
                 'until_column': 'until_column'},
        replay=lambda inp, fn=fn: _replay_until(fn, inp),
        witness_library=[{'lines': ['x = 1 + 2\n', 'y = x\n', 'z = 3\n'], 'line': 1, 'column': 4,
                          'until_line': ul, 'until_column': None} for ul in (9, -5, 0, 4, 3)],
    )


def _replay_until(fn, inp):
    from pyvc.replay import run_real
    import jedi
    code = ''.join(inp['lines'])
    s = jedi.Script(code)
    out = run_real(lambda: getattr(s, fn)(inp['line'], inp['column'], new_name='n',
                                          until_line=inp['until_line'], until_column=inp['until_column']))
    return {'self': s, 'line': inp['line']}, out


_Script_extra_attrs = {'_inference_state': ANY, 'path': ANY, '_module_node': ANY}


def _structural_decorators(repo):
    """(b) every positional query of Script sits behind validate_line_column, or hands its position to one that does"""
    import ast
    import os
    out = []
    try:
        tree = ast.parse(open(os.path.join(repo, 'jedi/api/__init__.py'), encoding='utf-8').read())
    except (OSError, SyntaxError) as e:
        return [{'id': 'decorators', 'kind': 'call-pre', 'ok': None, 'label': 'cannot parse: %s' % e}]
    cls = [n for n in tree.body if isinstance(n, ast.ClassDef) and n.name == 'Script']
    if not cls:
        return [{'id': 'decorators', 'kind': 'call-pre', 'ok': None, 'label': 'class Script not found'}]
    methods = {f.name: f for f in cls[0].body if isinstance(f, ast.FunctionDef)}
    decorated = {n for n, f in methods.items()
                 if any(ast.unparse(d) == 'validate_line_column' for d in f.decorator_list)}
    positional = [n for n, f in methods.items() if not n.startswith('_')
                  and {'line', 'column'} <= {a.arg for a in f.args.args}]
    for n in sorted(positional):
        f = methods[n]
        ok = n in decorated
        if not ok:
            # delegation: the first statement that uses line/column passes them to a decorated method of self
            src = ast.unparse(f)
            ok = any(('self.%s(line, column' % d) in src for d in decorated)
            uses = [x for x in ast.walk(f) if isinstance(x, ast.Name) and x.id in ('line', 'column')
                    and isinstance(x.ctx, ast.Load)]
            # every use of line/column is an argument of such a call
            calls = [c for c in ast.walk(f) if isinstance(c, ast.Call) and isinstance(c.func, ast.Attribute)
                     and isinstance(c.func.value, ast.Name) and c.func.value.id == 'self' and c.func.attr in decorated]
            inside = {id(a) for c in calls for a in c.args if isinstance(a, ast.Name)}
            ok = ok and all(id(u) in inside for u in uses)
        out.append({'id': 'decorated:' + n, 'definite': True, 'kind': 'call-pre', 'ok': ok,
                    'label': '(b) Script.%s validates its position: decorated with validate_line_column or passing '
                             'line/column only to a decorated query' % n})
    expected = {'complete', 'infer', 'goto', 'help', 'get_references', 'get_signatures', 'get_context'}
    out.append({'id': 'positional-queries-present', 'kind': 'inventory', 'ok': None if not expected <= set(positional) else True,
                'label': 'the positional queries named by the property exist', 'detail': repr(sorted(positional))})
    return out


STRUCTURAL = [_structural_decorators]


def _standin(repo, seed, tier):
    from pyvc.standin import run_standin
    r = run_standin('C01', tier, seed, repo)
    for v in r.get('violations', []):
        v['label'] = '%s [%s]' % (v['label'], v.get('signature', ''))
    return r


_standin.tiers = ('quick', 'thorough')
BOUNDED = [_standin]

_errors = [
    Contract(id='C01.SyntaxError.' + n, prop='C01', clause='result attributes of get_syntax_errors complete normally',
             file='jedi/api/errors.py', qualname='SyntaxError.' + n, params={'self': Obj('JErr')},
             families=['JErr', 'PErr'], ret=INT,
             ensures=['result == self._parso_error.%s[%d]' % (a, i)])
    for n, a, i in (('line', 'start_pos', 0), ('column', 'start_pos', 1), ('until_line', 'end_pos', 0),
                    ('until_column', 'end_pos', 1))]

FAMILIES += [Family('JErr', attrs={'_parso_error': Obj('PErr')}),
             Family('PErr', attrs={'start_pos': POS, 'end_pos': POS, 'message': STR})]
_SCRIPT_FAMILY = [f for f in FAMILIES if f.name == 'Script'][0]
_SCRIPT_FAMILY.attrs.update(_Script_extra_attrs)
_SCRIPT_FAMILY.methods['_get_module_context'] = FnSpec('Script._get_module_context', ret=ANY, pure=True, assumed=True)

NOT_DECIDED = ['exceptions raised inside type inference proper (inference/syntax_tree.py, values, gradual)',
               'RecursionError (see C15)', 'API helper exception-escape obligations under the parso model: in progress']
TRUSTED = ['parso.split_lines(keepends=True) never returns an empty list']

CONTRACTS = [
    Contract(
        id='C01.validate_line_column', prop='C01',
        clause='(a) out-of-range position <=> ValueError and nothing else; in range: wrapped query '
               'entered with exactly that (defaulted) position',
        file='jedi/api/helpers.py', qualname='validate_line_column.wrapper',
        params={'self': Obj('Script'), 'line': Opt(INT), 'column': Opt(INT), 'args': ANY, 'kwargs': ANY},
        free={'func': _func_star},
        families=['Script'],
        requires=['len(self._code_lines) >= 1'],
        ret=ANY,
        ensures=['result == func(self, eff_line(self._code_lines, line), '
                 'eff_column(self._code_lines, line, column), args, kwargs)'],
        raises={'ValueError': 'not pos_in_range(self._code_lines, line, column)'},
        raises_iff=['ValueError'],
        tier='P',
        witness={'lines': 'self._code_lines', 'line': 'line', 'column': 'column'},
        replay=_replay_wrapper,
    ),
    _until_contract('extract_variable'), _until_contract('extract_function'),
] + _errors


# ------------------------------------------------------------------ completion heuristics: no internal exception
def _region_getattr_loop(func):
    """_complete_getattr: the body of the loop over the return statements of a user-defined __getattr__"""
    import ast
    for s_ in ast.walk(func):
        if isinstance(s_, ast.For) and 'iter_return_stmts' in ast.unparse(s_.iter):
            return s_.body
    return None


def _replay_getattr(inp):
    """complete()/search after an instance of a proxy class whose __getattr__ returns getattr(obj, <expression>)"""
    from pyvc.replay import run_real
    import jedi
    code = ('class Target:\n    alpha = 1\n    def beta(self):\n        pass\n'
            'class Proxy:\n    def __init__(self, o):\n        self.o = o\n'
            '    def __getattr__(self, name):\n        return getattr(self.o, %s)\n'
            'p = Proxy(Target())\np.' % inp['arg'])
    lines = code.split('\n')

    def run():
        s = jedi.Script(code)
        cs = s.complete(len(lines), len(lines[-1]))
        return [(c.name, c.complete, c.type) for c in cs][:3]
    out = run_real(run)
    return {}, out


_RS = 'return_stmt'
_AE = 'return_stmt.children[1]'
_TR = 'return_stmt.children[1].children[1]'
_AL = 'return_stmt.children[1].children[1].children[1]'
_complete_getattr = Contract(
    id='C01._complete_getattr.loop', prop='C01',
    clause='(c) no internal exception: the __getattr__ heuristic of attribute completion inspects a return statement of '
           'ANY shape (whatever expression is passed to getattr) without an index, attribute or type error - it either '
           'skips the statement or completes on the proxied object',
    file='jedi/api/completion.py', qualname='_complete_getattr', region=_region_getattr_loop,
    params={'user_context': ANY, 'instance': ANY},
    free={'return_stmt': Obj('PNode'), 'tree_node': Obj('PNode'), 'func': Obj('FuncVal01'), 'names': ANY, 'functions': ANY},
    families=['PNode', 'FuncVal01', 'Ctx01', 'NameW'], ret=ANY, raises={},
    requires=[
        # parso grammar shapes (assumed, stated): return_stmt = 'return' expr; atom_expr = atom trailer+; trailer has
        # brackets / a dot and a name; names are leaves; arglist is an inner node
        'implies(%s.type == "return_stmt", not %s.is_leaf and len(%s.children) == 2)' % (_RS, _RS, _RS),
        'implies(%s.type == "return_stmt" and %s.type == "atom_expr", not %s.is_leaf and len(%s.children) >= 2 '
        'and not %s.is_leaf and len(%s.children) >= 2)' % (_RS, _AE, _AE, _AE, _TR, _TR),
        'implies(%s.type == "return_stmt" and %s.type == "atom_expr" and %s.children[0].type == "name", '
        '%s.children[0].is_leaf)' % (_RS, _AE, _AE, _AE),
        'implies(%s.type == "return_stmt" and %s.type == "atom_expr" and %s.type == "arglist", not %s.is_leaf)'
        % (_RS, _AE, _AL, _AL),
    ],
    ensures=['True'],
    witness={}, replay=_replay_getattr, concrete_only=True, concrete_ensures=['True'],
    witness_library=[{'arg': a} for a in ('name', '"do_" + name', 'name.lower()', '*name', 'name=name', 'name, None',
                                          '"x"', '(name)', 'name[0]', 'self.o')],
    notes='safety obligations only (IndexError, AttributeError on a node of the wrong kind, None dereference); goto / '
          'infer_node / complete_trailer are abstract; the replay runs complete() on a proxy class',
)


# ------------------------------------------------------------------ leaf -> context: every scope kind is handled
def _replay_create_context(inp):
    """every positional query on every position of a small module that contains the scope kind under test"""
    from pyvc.replay import run_real
    import jedi
    code = inp['code']
    lines = code.split('\n')

    def run():
        s = jedi.Script(code)
        n = 0
        for ln, text in enumerate(lines, 1):
            for col in range(len(text) + 1):
                s.get_context(ln, col)
                s.goto(ln, col)
                s.infer(ln, col)
                n += 1
        names = s.get_names(all_scopes=True, definitions=True, references=True)
        return n + len(names)
    out = run_real(run)
    return {}, out


_SCOPE_KINDS = '("file_input", "classdef", "funcdef", "lambdef", "comp_for", "sync_comp_for")'
_from_scope_node = Contract(
    id='C01.create_context.from_scope_node', prop='C01',
    clause='(c) no internal exception: every kind of scope node that the enclosing-scope walk can hand over (module, '
           'class, function, lambda, synchronous AND asynchronous comprehension) is turned into a context - the '
           '"scope that was not managed" exception is unreachable',
    file='jedi/inference/context.py', qualname='TreeContextMixin.create_context.from_scope_node',
    params={'scope_node': Obj('PNode'), 'is_nested': BOOL},
    free={'self': Obj('TCtx01'), 'node': Obj('PNode'),
          'parent_scope': FnSpec('parent_scope', params=[('node', Obj('PNode'))], ret=Obj('PNode'), pure=True,
                                 assumed=False, ensures=['result.type in %s' % _SCOPE_KINDS,
                                                         'implies(result.type == "file_input", result == self.tree_node)',
                                                         'implies(result.type in ("comp_for", "sync_comp_for"), '
                                                         'not result.is_leaf and len(result.children) >= 1)'],
                                 note='the nested enclosing-scope walk: returns is_scope nodes and comprehension nodes '
                                      '(comp_for for async comprehensions) inside the tree of this context'),
          'from_scope_node': FnSpec('from_scope_node', params=[('scope_node', Obj('PNode')), ('is_nested', BOOL)],
                                    defaults={'is_nested': True}, ret=Obj('TCtx01'), pure=True, assumed=False,
                                    note='recursive call on the parent scope (same contract, by induction on depth)')},
    families=['PNode', 'TCtx01', 'TVal01'], ret=Obj('TCtx01'), raises={},
    requires=['scope_node.type in %s' % _SCOPE_KINDS,
              'implies(scope_node.type == "file_input", scope_node == self.tree_node)',
              'implies(scope_node.type in ("comp_for", "sync_comp_for"), not scope_node.is_leaf and '
              'len(scope_node.children) >= 1 and scope_node.parent is not None)'],
    ensures=['True'], allow_callee_exceptions=False,
    witness={}, replay=_replay_create_context, concrete_only=True, concrete_ensures=['True'],
    witness_library=[
        {'code': 'async def f(y):\n    a = [x async for x in y]\n    b = {x: 1 async for x in y}\n    return a, b\n'},
        {'code': 'async def g(y):\n    return sum(x async for x in y)\n'},
        {'code': 'def f(y):\n    return [x for x in y if x], {x for x in y}, (lambda z: z)\n'},
        {'code': 'class A:\n    v = [i for i in range(3)]\n    def m(self, p=lambda: 1):\n        return p\n'},
    ],
    notes='nested function of create_context; parent_scope is abstract with the kinds it can return as its contract',
)

_complete_getattr.exception_free = True
_from_scope_node.exception_free = True


def dynamic_contracts(repo):
    """Signature.index is computed lazily when a result of get_signatures() is looked at: the exception-freedom
    (safety) obligations of CallDetails.calculate_index are shared with C11 (bounded shapes: n arguments, m params)"""
    from contracts import c11, c10
    # exception-freedom of the import-path rewriting (IndexError on an empty import path): shared with C10
    return list(c11.CALC) + [c10._importer_init, _complete_getattr, _from_scope_node]


def register(reg):
    reg.names['CompForContext'] = FnSpec('CompForContext', params=[('parent_context', Obj('TCtx01')), ('comp_for', Obj('PNode'))],
                                         ret=Obj('TCtx01'), pure=True, assumed=True)
    reg.names['complete_trailer'] = FnSpec('complete_trailer', params=[('user_context', ANY), ('values', ANY)], ret=ANY,
                                           pure=True, assumed=True, note='attribute completion on the proxied values')
