"""C03 — Name resolution follows Python's scoping rules (per-clause contracts of the LEGB mechanism)."""
import z3
from pyvc.api import *

SPEC_IMPORTS = ['contracts.common']
SPEC_FUNCTIONS = ['is_scope_spec', 'is_param_name', 'in_header', 'stops_at', 'parent_scope_spec',
                  'global_filters_spec', 'resets_position', 'branch_keyword_spec']


def branch_keyword_spec(children, pos):
    """the branch of a flow statement that a position lies in is identified by the keyword LEAF that opens it: the last
    child before the position that starts with if / elif / else / try / except / finally / with / for / while; a position in
    the last clause (nothing of the statement starts after it) has none"""
    keyword = None
    for c in children:
        if pos < c.start_pos:
            return keyword
        if c.get_first_leaf() in ('try', 'except', 'finally', 'else', 'if', 'elif', 'with', 'for', 'while'):
            keyword = c.get_first_leaf()
    return None

_PN = Obj('PNode')


def is_scope_spec(t, second_child_type):
    """node types that open a Python scope: module, class, function, lambda, comprehension"""
    if t == 'comp_for':
        return second_child_type != 'sync_comp_for'
    return t == 'file_input' or t == 'classdef' or t == 'funcdef' or t == 'lambdef' or t == 'sync_comp_for'


def is_param_name(node):
    """node is the name a parameter binds (it belongs to the function's own scope)"""
    p = node.parent
    return p.type == 'param' and p.name == node or p.type == 'tfpdef' and p.children[0] == node


def in_header(s, node):
    """node lies in the header of the def/class/lambda s: not after its colon. Decorators, defaults,
    annotations and base classes are evaluated in the enclosing scope"""
    return s.children[s.children.index(':')].start_pos >= node.start_pos


def stops_at(s, node, include_flows):
    """ancestor s is the scope the node belongs to"""
    sec = s.children[1].type if s.type == 'comp_for' else ''
    if is_scope_spec(s.type, sec):
        if s.type == 'classdef' or s.type == 'funcdef' or s.type == 'lambdef':
            return not in_header(s, node) or is_param_name(node)
        return True
    if include_flows and isinstance(s, Flow):
        return not (s.type == 'if_stmt' and any(n.start_pos <= node.start_pos and node.start_pos < n.end_pos
                                                for n in s.get_test_nodes()))
    return False


def parent_scope_spec(chain, node, include_flows):
    """the nearest ancestor (chain[0] is node.parent, ...) at which the node's scope walk stops; -1 = none"""
    res = -1
    i = 0
    for s in chain:
        if res == -1 and stops_at(s, node, include_flows):
            res = i
        i += 1
    return res


def resets_position(c):
    """bindings of an enclosing function or module are visible regardless of textual position"""
    return isinstance(c, BaseFunctionExecutionContext) or isinstance(c, ModuleContext)


def global_filters_spec(chain, until_position, origin_scope, builtin_filter):
    """LEGB order: filters of the innermost context first, then each enclosing NON-CLASS context, builtins last;
    the position cut applies until (and including) the first function or module context, not beyond"""
    out = []
    until = until_position
    first = True
    for c in chain:
        # class-body rule: the names of a class body are visible in that body only, never in the scopes nested in it
        if first or not (c.is_class() or c.is_instance()):
            out = out + c.get_filters(until, origin_scope)
            if resets_position(c):
                until = None
        first = False
    return out + [builtin_filter]


_is_scope = Contract(
    id='C03.is_scope', prop='C03', clause='which syntax nodes open a scope',
    file='jedi/parser_utils.py', qualname='is_scope', params={'node': _PN}, families=['PNode'], ret=BOOL,
    requires=['implies(node.type == "comp_for", not node.is_leaf and len(node.children) >= 2)'],
    ensures=['result == is_scope_spec(node.type, node.children[1].type if node.type == "comp_for" else "")'],
)

_is_scope_callee = FnSpec('is_scope', params=[('node', _PN)], ret=BOOL, pure=True, assumed=False,
                          requires=['implies(node.type == "comp_for", not node.is_leaf and len(node.children) >= 2)'],
                          ensures=['result == is_scope_spec(node.type, node.children[1].type '
                                   'if node.type == "comp_for" else "")'])


def _parent_scope_contract(depth):
    c = Contract(
        id='C03.get_parent_scope[%d]' % depth, prop='C03',
        clause='a name belongs to the nearest enclosing scope whose body contains it; a name in the header of a '
               'def/class/lambda (decorator, default, annotation, base class) belongs to the next outer scope, '
               'except the parameter name itself (ancestor chains of length %d)' % depth,
        file='jedi/parser_utils.py', qualname='get_parent_scope',
        params={'node': _PN, 'include_flows': BOOL}, ghost={'CH': Seq(_PN)},
        families=['PNode'], ret=Opt(_PN), tier='SB', bounds={'ancestors': depth},
        names={'is_scope': _is_scope_callee},
        requires=(['node.parent is None'] if depth == 0 else [
            'node.parent == CH[0]',
            'all(CH[i].parent == CH[i + 1] for i in range(0, len(CH) - 1))',
            # parso: the root of every tree is the module (file_input); inner nodes have children
            'CH[len(CH) - 1].type == "file_input" and CH[len(CH) - 1].parent is None',
            'all(not c.is_leaf for c in CH)',
            'all(implies(c.type == "comp_for", len(c.children) >= 2) for c in CH)',
            'all(implies(c.type == "classdef" or c.type == "funcdef" or c.type == "lambdef", '
            'any(k == ":" for k in c.children)) for c in CH)',
            'implies(node.parent.type == "tfpdef", len(node.parent.children) >= 1)',
        ]),
        unroll={0: depth + 1},
        ensures=(['result is None'] if depth == 0 else [
            'parent_scope_spec(CH, node, include_flows) != -1',
            'result == CH[parent_scope_spec(CH, node, include_flows)]',
        ]),
    )
    c.shape = {'CH': depth}
    return c


PARENT_SCOPE = [_parent_scope_contract(d) for d in range(0, 4)]

_abs_filter = Contract(
    id='C03.AbstractFilter._filter', prop='C03',
    clause='position cut: exactly the names strictly before the position are visible (all when there is none)',
    file='jedi/inference/filters.py', qualname='AbstractFilter._filter',
    params={'self': Obj('Filter'), 'names': Seq(_PN)}, families=['Filter', 'PNode'], ret=Seq(_PN),
    ensures=['implies(self._until_position is None, result == names)',
             'implies(self._until_position is not None, all(n.start_pos < self._until_position for n in result))',
             'all(n in names for n in result)',
             'implies(self._until_position is not None, '
             'all(implies(n.start_pos < self._until_position, n in result) for n in names))'],
)

_global_filter = Contract(
    id='C03.GlobalNameFilter._filter', prop='C03',
    clause='`global` declarations: exactly the names inside a global statement count for the module scope',
    file='jedi/inference/filters.py', qualname='GlobalNameFilter._filter',
    params={'self': Obj('Filter'), 'names': Seq(_PN)}, families=['Filter', 'PNode'], yields=_PN,
    requires=['all(n.parent is not None for n in names)'],
    yield_each_local=['c.parent.type == "global_stmt"', 'c in names'],
    invariants={0: ['all(implies(n.parent.type == "global_stmt", n in YIELDED) for n in DONE)']},
    ensures=['all(implies(n.parent.type == "global_stmt", n in result) for n in names)'],
)

def _replay_global_values(inp):
    """module attributes that exist only through `global` statements - in top-level functions, in methods and in class
    bodies: completion after `module.` must offer them all"""
    from pyvc.replay import run_real
    import os
    import tempfile
    import shutil
    import jedi
    d = tempfile.mkdtemp(prefix='c03glob_', dir='/var/tmp')
    try:
        with open(os.path.join(d, 'gm.py'), 'w') as f:
            f.write('def configure():\n    global configured_top\n    configured_top = 1\n'
                    'class Registry:\n    def connect(self):\n        global connection_method\n'
                    '        connection_method = 2\n'
                    '    class Inner:\n        def f(self):\n            global deep_nested\n            deep_nested = 3\n')
        code = 'import gm\ngm.'
        out = run_real(lambda: sorted(c.name for c in jedi.Script(code, path=os.path.join(d, 'use.py'),
                                                                  project=jedi.Project(d)).complete(2, 3)
                                      if c.name in ('configured_top', 'connection_method', 'deep_nested')))
        return {}, out
    finally:
        shutil.rmtree(d, ignore_errors=True)


_global_values = Contract(
    id='C03.GlobalNameFilter.values', prop='C03',
    clause='`global` declarations anywhere in a module - in functions, methods, nested classes - make module-level '
           'names: the module\'s global filter lists EVERY name that stands in a global statement of the module',
    file='jedi/inference/filters.py', qualname='GlobalNameFilter.values',
    params={'self': Obj('GFilter')}, families=['GFilter', 'UsedNamesG', 'PNode'], ret=Seq(_PN),
    ensures=['all(all(implies(n.parent is not None and the(n.parent).type == "global_stmt", n in result) for n in nl) '
             'for nl in self._used_names.values())'],
    witness={}, replay=_replay_global_values, concrete_only=True, witness_library=[{}],
    concrete_ensures=['result == ["configured_top", "connection_method", "deep_nested"]'],
    notes='_convert_names (token -> name object, one to one) is modelled as the identity; _filter is under contract above',
)

_reachable = Contract(
    id='C03.ParserTreeFilter._is_name_reachable', prop='C03',
    clause='a name counts for this scope iff its parent scope is this scope (for def/class names: the scope '
           'enclosing the definition); attribute targets (self.x = ...) never count as local names',
    file='jedi/inference/filters.py', qualname='ParserTreeFilter._is_name_reachable',
    params={'self': Obj('Filter'), 'name': _PN}, families=['Filter', 'PNode'], ret=BOOL,
    requires=['name.parent is not None'],
    ensures=['implies(name.parent.type == "trailer", result == False)',
             'implies(name.parent.type == "classdef" or name.parent.type == "funcdef", '
             'result == (get_cached_parent_scope(self._parso_cache_node, name.parent) == self._parser_scope))',
             'implies(not (name.parent.type == "trailer" or name.parent.type == "classdef" '
             'or name.parent.type == "funcdef"), '
             'result == (get_cached_parent_scope(self._parso_cache_node, name) == self._parser_scope))'],
)

_check_flows = Contract(
    id='C03.ParserTreeFilter._check_flows', prop='C03',
    clause='straight-line rule: names are visited latest first, unreachable definitions are dropped and the '
           'search stops at the first definitely reachable one (the last reachable assignment wins)',
    file='jedi/inference/filters.py', qualname='ParserTreeFilter._check_flows',
    params={'self': Obj('Filter'), 'names': Seq(_PN)}, families=['Filter', 'PNode'], yields=_PN,
    yield_each_local=['check != UNREACHABLE', 'c in names'],
    invariants={0: ['all(reach(self._node_context, self._parser_scope, x, self._origin_scope) != REACHABLE '
                    'for x in DONE)']},
    notes='reachability_check is the abstract pure function reach(); Status singletons modelled as 0/1/2',
)

def _replay_ggf(inp):
    """names used directly in a class body / function body / comprehension, with a module-level binding of the same
    name only AFTER the use: which binding does goto consult?"""
    from pyvc.replay import run_real
    import jedi
    code = inp['code']
    line, col = inp['pos']
    out = run_real(lambda: [(n.module_name, n.line) for n in jedi.Script(code).goto(line, col)])
    return {'USE_LINE': line, 'LATER_OK': inp['later_ok']}, out


_GGF_LIB = [
    # class body: executes in place, a later module binding is not visible (Python takes the builtin)
    {'code': 'class Config:\n    kind = type\ntype = Config.kind\n', 'pos': (2, 11), 'later_ok': False},
    {'code': 'class Config:\n    size = len\n\nlen = 3\n', 'pos': (2, 11), 'later_ok': False},
    # function body: runs later, the later module binding IS the one Python consults
    {'code': 'def f():\n    return size\nsize = 3\n', 'pos': (2, 11), 'later_ok': True},
]

_get_global_filters = [
    Contract(
        id='C03.get_global_filters[%d]' % d, prop='C03',
        clause='LEGB order: innermost context first, enclosing class bodies skipped, builtins last; the textual position limits visibility only '
               'up to the first enclosing function or module (context chains of length %d)' % d,
        file='jedi/inference/context.py', qualname='get_global_filters',
        params={'context': Opt(Obj('Ctx')), 'until_position': Opt(POS), 'origin_scope': Opt(_PN)},
        ghost={'CH': Seq(Obj('Ctx'))},
        families=['Ctx', 'InfState03', 'BuiltinsMod', 'PNode'], yields=Obj('FilterObj'), tier='SB',
        bounds={'enclosing contexts': d},
        requires=['context == CH[0]', 'all(CH[i].parent_context == CH[i + 1] for i in range(0, len(CH) - 1))',
                  'CH[len(CH) - 1].parent_context is None',
                  'len(CH[0].inference_state.builtins_module.get_filters()) > 0'],
        unroll={0: d + 1, 1: d + 1},
        ensures=['result == global_filters_spec(CH, until_position, origin_scope, '
                 'CH[0].inference_state.builtins_module.get_filters()[0])'],
        witness={}, replay=_replay_ggf, concrete_only=True, witness_library=_GGF_LIB,
        concrete_ensures=['implies(not LATER_OK, all(not (m == "__main__" and l is not None and l > USE_LINE) for m, l in result))',
                          'implies(LATER_OK, any(m == "__main__" and l is not None and l > USE_LINE for m, l in result))'],
    ) for d in range(1, 4)]
for _c, _d in zip(_get_global_filters, range(1, 4)):
    _c.shape = {'CH': _d}

def _replay_big(inp):
    from pyvc.replay import run_real
    from jedi.inference.helpers import is_big_annoying_library

    class Root:
        string_names = None if inp['names'] is None else tuple(inp['names'])

    class Ctx:
        def get_root_context(self):
            return Root()
    out = run_real(lambda: is_big_annoying_library(Ctx()))
    return {'NAMES': inp['names']}, out


_big_lib = Contract(
    id='C03.is_big_annoying_library', prop='C03',
    clause='flow analysis (last reachable definition wins) is only given up inside the four named third-party '
           'libraries themselves, i.e. for modules whose TOP-LEVEL package is one of them - never for user modules that '
           'merely have such a name somewhere in their dotted path, and never for path-less buffers',
    file='jedi/inference/helpers.py', qualname='is_big_annoying_library',
    params={'context': Obj('CtxBig')}, families=['CtxBig', 'RootBig'], ret=BOOL,
    requires=['context.get_root_context().string_names is None or len(the(context.get_root_context().string_names)) >= 1'],
    ensures=['result == (context.get_root_context().string_names is not None and '
             'the(context.get_root_context().string_names)[0] in ("pandas", "numpy", "tensorflow", "matplotlib"))'],
    witness={'names': 'context.get_root_context().string_names'}, replay=_replay_big,
    concrete_ensures=['result == (NAMES is not None and NAMES[0] in ("pandas", "numpy", "tensorflow", "matplotlib"))'],
    concrete_only=True,
    witness_library=[{'names': None}, {'names': ['numpy']}, {'names': ['numpy', 'core']}, {'names': ['acme', 'numpy']},
                     {'names': ['acme', '_vendor', 'pandas', 'compat']}, {'names': ['mymod']}],
)

def _replay_header(inp):
    """goto on a name used in a header (default of a def / lambda parameter, base class, annotation): the binding
    consulted is the one of the ENCLOSING scope, never the definition's own parameter or name"""
    from pyvc.replay import run_real
    import jedi
    out = run_real(lambda: sorted((n.line, n.column) for n in jedi.Script(inp['code']).goto(*inp['pos'])))
    return {'EXPECTED': [tuple(inp['expected'])]}, out


_HEADER_LIB = [
    {'code': 'def f():\n    scale = 5\n    g = lambda scale=scale: scale\n    return g\n', 'pos': (3, 21), 'expected': (2, 4)},
    {'code': 'first = 1\nh = lambda first=first: first\n', 'pos': (2, 17), 'expected': (1, 0)},
    {'code': 'def outer():\n    for i in range(3):\n        yield lambda i=i: i\n', 'pos': (3, 23), 'expected': (2, 8)},
    {'code': 'size = 3\ndef f(size=size):\n    return size\n', 'pos': (2, 11), 'expected': (1, 0)},
    {'code': 'a = 1\ndef f(a, b=a):\n    return b\n', 'pos': (2, 11), 'expected': (1, 0)},
    {'code': 'class Base: pass\nclass Base(Base):\n    pass\n', 'pos': (2, 11), 'expected': (1, 6)},
]

# ------------------------------------------------------------------ which branch of a flow a node sits in
def _replay_branch_kw(inp):
    """the real get_flow_branch_keyword on an if/elif/elif/else (or try/except/except) statement: nodes of DIFFERENT
    branches must get different answers, nodes of the same branch the same one"""
    from pyvc.replay import run_real
    import parso
    from jedi.parser_utils import get_flow_branch_keyword
    module = parso.parse(inp['code'])
    flow = module.children[0]
    names = {}
    leaf = module.get_first_leaf()
    while leaf is not None:
        if leaf.type == 'name' and leaf.value.startswith('n'):
            names[leaf.value] = leaf
        leaf = leaf.get_next_leaf()

    def run():
        res = {k: get_flow_branch_keyword(flow, v) for k, v in names.items()}
        same = lambda a, b: (res[a] is res[b]) if not isinstance(res[a], str) else (res[a] == res[b])
        return {'pairs': {('%s,%s' % (a, b)): (res[a] is not None and res[b] is not None and (res[a] is res[b] or res[a] == res[b]))
                          for a in sorted(names) for b in sorted(names) if a < b}}
    out = run_real(run)
    return {'SAME': inp['same']}, out


_branch_kw = [Contract(
    id='C03.get_flow_branch_keyword[%d]' % n, prop='C03',
    clause='last reachable definition wins / branches are told apart: the branch a node sits in is identified by the '
           'keyword LEAF that opens it (an object of the tree), so that two branches opened by the same keyword text '
           '(elif ... elif, except ... except) are different branches (%d children)' % n,
    file='jedi/parser_utils.py', qualname='get_flow_branch_keyword',
    params={'flow_node': _PN, 'node': _PN}, ghost={'CH': Seq(_PN)}, families=['PNode'], ret=Opt(_PN), tier='SB',
    bounds={'children of the flow statement': n}, unroll={0: n},
    requires=['not flow_node.is_leaf', 'flow_node.children == CH'],
    raises={'ValueError': 'not (flow_node.start_pos < node.start_pos and node.start_pos <= flow_node.end_pos)'},
    raises_iff=['ValueError'],
    ensures=['implies(result is not None, any(the(result) is c.get_first_leaf() for c in CH))',
             'result == branch_keyword_spec(CH, node.start_pos)'],
    witness={}, replay=_replay_branch_kw, concrete_only=True,
    witness_library=[
        {'code': 'if a:\n    n1\n    n2\nelif b:\n    n3\nelif c:\n    n4\nelse:\n    n5\n',
         'same': ['n1,n2']},
        {'code': 'try:\n    n1\nexcept A:\n    n2\nexcept B:\n    n3\n    n4\nfinally:\n    n5\n', 'same': ['n3,n4']},
    ],
    concrete_ensures=['all(v == (k in SAME) for k, v in result["pairs"].items() if "n5" not in k)'],
) for n in (2, 4, 6)]
for _c, _n in zip(_branch_kw, (2, 4, 6)):
    _c.shape = {'CH': _n}

# ------------------------------------------------------------------ private (name-mangled) class attributes
def _chain(k):
    e = 'self._origin_scope'
    for _ in range(k):
        e = 'get_cached_parent_scope(self._parso_cache_node, the(%s))' % e
    return e


def _replay_private(inp):
    """a private attribute `self.__token` of a class in one module and an un-mangled `obj.__token` outside any class in
    ANOTHER module, on a line that lies inside the class\'s line range in its own file"""
    from pyvc.replay import run_real
    import os
    import tempfile
    import shutil
    import jedi
    d = tempfile.mkdtemp(prefix='c03priv_', dir='/var/tmp')
    try:
        with open(os.path.join(d, 'vault.py'), 'w') as f:
            f.write('class Box:\n    def __init__(self):\n        self.__token = 1\n\n    def get(self):\n'
                    '        return self.__token\n\n\n')
        main = 'from vault import Box\nb = Box()\n%sb.__token\n' % ('\n' * inp['pad'])
        line = 3 + inp['pad']
        proj = jedi.Project(d)

        def run():
            outside = jedi.Script(main, path=os.path.join(d, 'main.py'), project=proj).goto(line, 4)
            inside = jedi.Script(path=os.path.join(d, 'vault.py'), project=proj).goto(6, 22)
            return {'outside': [(n.module_name, n.line) for n in outside], 'inside': [(n.module_name, n.line) for n in inside]}
        out = run_real(run)
        return {}, out
    finally:
        shutil.rmtree(d, ignore_errors=True)


_PRIVATE = [Contract(
    id='C03.ClassFilter._equals_origin_scope[%d]' % d, prop='C03',
    clause='a name-mangled private attribute (__x) of a class is only visible to code that sits lexically INSIDE that '
           'class: the enclosing scopes of the accessing name, walked outward in ITS tree, contain the class node '
           '(%d enclosing scopes)' % d,
    file='jedi/inference/value/klass.py', qualname='ClassFilter._equals_origin_scope',
    params={'self': Obj('CFilter')}, families=['CFilter', 'PNode'], ret=BOOL, tier='SB',
    bounds={'enclosing scopes of the accessing name': d}, unroll={0: d + 1},
    requires=(['self._origin_scope is None'] if d == 0 else
              ['%s is not None' % _chain(k) for k in range(d)] + ['%s is None' % _chain(d)]),
    ensures=['result == (%s)' % (' or '.join('(the(%s) == self._parser_scope or the(%s) == self.parent_context)'
                                              % (_chain(k), _chain(k)) for k in range(d)) or 'False')],
    witness={}, replay=_replay_private, concrete_only=True, witness_library=[{'pad': 0}, {'pad': 1}, {'pad': 6}],
    concrete_ensures=['result["outside"] == []', 'result["inside"] == [("vault", 3)]'],
) for d in range(0, 4)]

_ANC = 'name_or_none.search_ancestor("funcdef", "classdef", "lambdef")'
_header_rule = Contract(
    id='C03._get_global_filters_for_name', prop='C03',
    clause='header rule: a name in the header of a def / class / lambda (before its colon: decorators are outside, '
           'defaults, annotations and base classes inside) is looked up as if it stood at the START of that definition - '
           'Python evaluates them in the enclosing scope before the name is bound; every other name keeps its position',
    file='jedi/inference/context.py', qualname='_get_global_filters_for_name',
    params={'context': Opt(Obj('Ctx')), 'name_or_none': Opt(_PN), 'position': Opt(POS)},
    families=['Ctx', 'PNode', 'FilterObj'], ret=Seq(Obj('FilterObj')),
    ensures=[
        'implies(name_or_none is None, result == get_global_filters(context, position, None))',
        'implies(name_or_none is not None and %s is None, result == get_global_filters(context, position, name_or_none))' % _ANC,
        'implies(name_or_none is not None and %s is not None and position is not None and '
        'the(position) < the(%s).children[-2].start_pos, '
        'result == get_global_filters(context, the(%s).start_pos, name_or_none))' % (_ANC, _ANC, _ANC),
        'implies(name_or_none is not None and %s is not None and (position is None or '
        'not (the(position) < the(%s).children[-2].start_pos)), '
        'result == get_global_filters(context, position, name_or_none))' % (_ANC, _ANC),
    ],
    notes='get_global_filters (under contract above) is an abstract pure callee here; a definition node has at least '
          'two children, the last but one being its colon (parso shape, stated on search_ancestor)',
    witness={}, replay=_replay_header, concrete_only=True, witness_library=_HEADER_LIB,
    concrete_ensures=['result == EXPECTED'],
)

FAMILIES = [
    Family('GFilter', attrs={'_used_names': Obj('UsedNamesG')}, methods={
        '_filter': FnSpec('GlobalNameFilter._filter', params=[('names', Seq(_PN))], ret=Seq(_PN), pure=True, assumed=False,
                          ensures=['all(implies(n.parent is not None and the(n.parent).type == "global_stmt", n in result) '
                                   'for n in names)'], note='C03.GlobalNameFilter._filter'),
        '_convert_names': FnSpec('_convert_names', params=[('names', Seq(_PN))], ret=Seq(_PN), pure=True, assumed=True,
                                 ensures=['result == names'], note='one name object per token (identity in the model)')}),
    Family('UsedNamesG', methods={'values': FnSpec('UsedNames.values', ret=Seq(Seq(_PN)), pure=True)}),
    Family('CFilter', attrs={'_origin_scope': Opt(_PN), '_parser_scope': _PN, 'parent_context': _PN,
                             '_parso_cache_node': ANY}),
    Family('CtxBig', methods={'get_root_context': FnSpec('Context.get_root_context', ret=Obj('RootBig'), pure=True)}),
    Family('RootBig', attrs={'string_names': Opt(Seq(STR))}),
    Family('Filter', attrs={'_until_position': Opt(POS), '_parso_cache_node': ANY, '_parser_scope': _PN,
                            '_node_context': ANY, '_origin_scope': Opt(_PN)}),
    Family('Ctx', attrs={'parent_context': Opt(Obj('Ctx')), 'inference_state': Obj('InfState03'), 'tree_node': _PN},
           axioms=[
               # which contexts are function executions / modules, in terms of the syntax node they stand for
               # (jedi: FunctionExecutionContext and AnonymousFunctionExecution wrap funcdef AND lambdef nodes)
               'isinstance(o, BaseFunctionExecutionContext) == (o.tree_node.type == "funcdef" or o.tree_node.type == "lambdef")',
               'isinstance(o, ModuleContext) == (o.tree_node.type == "file_input")'],
           methods={'get_filters': FnSpec('Context.get_filters', params=[('until_position', Opt(POS)),
                                                                         ('origin_scope', Opt(_PN))],
                                          defaults={'until_position': None, 'origin_scope': None},
                                          ret=Seq(Obj('FilterObj')), pure=True, assumed=True),
                    'is_class': FnSpec('Context.is_class', ret=BOOL, pure=True, assumed=True),
                    'is_instance': FnSpec('Context.is_instance', ret=BOOL, pure=True, assumed=True)}),
    Family('InfState03', attrs={'builtins_module': Obj('BuiltinsMod')}),
    Family('BuiltinsMod', methods={'get_filters': FnSpec('BuiltinsModule.get_filters', ret=Seq(Obj('FilterObj')),
                                                         pure=True, assumed=True)}),
    Family('FilterObj'),
]

CONTRACTS = [_is_scope] + PARENT_SCOPE + [_abs_filter, _global_filter, _global_values, _reachable, _check_flows] + _get_global_filters + [_big_lib, _header_rule] + _branch_kw + _PRIVATE


def register(reg):
    from pyvc.values import MNS, MCls, SV, MFn
    pn = reg.families['PNode']
    pn.methods['get_test_nodes'] = FnSpec('PNode.get_test_nodes', ret=Seq(_PN), pure=True, assumed=True)
    pn.methods['search_ancestor'] = FnSpec(
        'PNode.search_ancestor', params=[('a', STR), ('b', STR), ('c', STR)], ret=Opt(_PN), pure=True, assumed=True,
        ensures=['result is None or (not the(result).is_leaf and len(the(result).children) >= 2 and '
                 'the(result).type in (a, b, c))'],
        note='nearest ancestor of one of the given types, None at the root; definition nodes end with colon + body')
    reg.names['get_global_filters'] = FnSpec(
        'get_global_filters', params=[('context', Opt(Obj('Ctx'))), ('until_position', Opt(POS)), ('origin_scope', Opt(_PN))],
        ret=Seq(Obj('FilterObj')), pure=True, assumed=False, note='C03.get_global_filters')
    reg.names['tree'] = MNS('tree', {'Flow': MCls('Flow')})
    reg.names['Flow'] = MCls('Flow')
    reg.names['BaseFunctionExecutionContext'] = MCls('BaseFunctionExecutionContext')
    reg.names['ModuleContext'] = MCls('ModuleContext')
    reg.names['get_cached_parent_scope'] = FnSpec(
        'get_cached_parent_scope', params=[('cache_node', ANY), ('node', _PN)], ret=Opt(_PN), pure=True,
        assumed=False, note='cached get_parent_scope(node, include_flows=False); wrapper contract under C08')
    st = MNS('flow_analysis', {
        'REACHABLE': SV(INT, z3.IntVal(0)), 'UNREACHABLE': SV(INT, z3.IntVal(1)), 'UNSURE': SV(INT, z3.IntVal(2)),
        'reachability_check': MFn('spec', 'reach', spec=FnSpec(
            'reach', params=[('context', ANY), ('value_scope', _PN), ('node', _PN), ('origin_scope', Opt(_PN))],
            ret=INT, pure=True, assumed=True, ensures=['0 <= result and result <= 2'])),
    })
    reg.names['flow_analysis'] = st
    reg.names['REACHABLE'] = st.members['REACHABLE']
    reg.names['UNREACHABLE'] = st.members['UNREACHABLE']
    reg.names['UNSURE'] = st.members['UNSURE']
    reg.names['reach'] = st.members['reachability_check'].spec


def lemma_status(reg):
    """Status algebra on {REACHABLE=True, UNREACHABLE=False, UNSURE=None} as implemented by __and__/invert:
    proved for the three-valued table extracted from the source (see structural check below)"""
    T, F, U = 0, 1, 2
    x, y, w = z3.Ints('sx sy sw')
    dom = [z3.And(x >= 0, x <= 2), z3.And(y >= 0, y <= 2), z3.And(w >= 0, w <= 2)]

    def AND(a, b):
        return z3.If(z3.Or(a == U, b == U), U, z3.If(z3.And(a == T, b == T), T, F))

    def INV(a):
        return z3.If(a == T, F, z3.If(a == F, T, U))
    return [
        ('status-involution', 'invert(invert(s)) == s', [], dom, INV(INV(x)) == x),
        ('status-commutative', 's & t == t & s', [], dom, AND(x, y) == AND(y, x)),
        ('status-associative', '(s & t) & u == s & (t & u)', [], dom, AND(AND(x, y), w) == AND(x, AND(y, w))),
        ('status-unsure-absorbs', 'UNSURE & s == UNSURE', [], dom, AND(z3.IntVal(U), x) == U),
        ('status-reachable-neutral', 'REACHABLE & s == s', [], dom, AND(z3.IntVal(T), x) == x),
    ]


LEMMAS = [lemma_status]


def structural_status(repo):
    """the three-valued table used by the lemma is the one in the source"""
    import ast
    import os
    rel = 'jedi/inference/flow_analysis.py'
    try:
        tree = ast.parse(open(os.path.join(repo, rel), encoding='utf-8').read())
    except (OSError, SyntaxError) as e:
        return [{'id': 'status-table', 'kind': 'post', 'ok': None, 'label': 'cannot parse: %s' % e}]
    from pyvc.verify import find_function
    inv = find_function(tree, 'Status.invert')
    an = find_function(tree, 'Status.__and__')
    want_inv = ("if self is REACHABLE:\n    return UNREACHABLE\nelif self is UNREACHABLE:\n    return REACHABLE\n"
                "else:\n    return UNSURE")
    want_and = ("if UNSURE in (self, other):\n    return UNSURE\nelse:\n    return REACHABLE if self._value and "
                "other._value else UNREACHABLE")
    ok = inv is not None and an is not None and ast.unparse(ast.Module(body=inv.body, type_ignores=[])) == want_inv \
        and ast.unparse(ast.Module(body=an.body, type_ignores=[])) == want_and
    consts = {}
    for s in tree.body:
        if isinstance(s, ast.Assign) and isinstance(s.value, ast.Call) and getattr(s.value.func, 'id', '') == 'Status':
            consts[s.targets[0].id] = ast.literal_eval(s.value.args[0])
    ok2 = consts == {'REACHABLE': True, 'UNREACHABLE': False, 'UNSURE': None}
    return [{'id': 'status-table', 'kind': 'post', 'ok': ok and ok2,
             'label': 'Status.invert / __and__ implement the three-valued table the algebra lemma is proved for',
             'detail': repr(consts)}]


STRUCTURAL = [structural_status]
def _standin(repo, seed, tier):
    from pyvc.standin import run_standin
    return run_standin('C03', tier, seed, repo)


_standin.tiers = ('quick', 'thorough')
BOUNDED = [_standin]

NOT_DECIDED = ['that the composition of these clauses equals the interpreter\'s choice for every program '
               '(e.g. jedi\'s textual "defined before the use" cut inside loops)',
               'reachability_check itself (calls inference)', 'filter_name / create_context / goto dispatch: pending']
TRUSTED = ['parso tree shapes used as preconditions (root is file_input, def-like nodes contain a ":" child)',
           'sorted() model', 'filter comprehension model (membership characterisation)']
