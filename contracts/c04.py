"""C04 — Completions extend what is typed, are ordered, unique and complete."""
from pyvc.api import *
from pyvc.spec import callee_of

SPEC_IMPORTS = ['contracts.common', 'contracts.c15', 'contracts.c03']
SPEC_FUNCTIONS = ['doc_sort_key', 'name_with_symbols_spec', 'match_spec', 'sorted_spec']
REC_FUNCTIONS = {'gsub': ([('l', STR), ('s', STR)], BOOL)}


def gsub(l, s):
    """greedy left-most embedding of l into s: l is a subsequence of s
    (equivalence with the textbook definition: lemma `gsub_is_subsequence`)"""
    if len(l) == 0:
        return True
    pos = s.find(l[0])
    if pos < 0:
        return False
    return gsub(l[1:], s[pos + 1:])


def match_spec(string, like, fuzzy):
    """the property's relation between a name and the typed fragment"""
    if fuzzy:
        return gsub(like, string)
    return is_prefix(like, string)


def name_with_symbols_spec(public_name, bracket):
    return public_name + ('(' if bracket else '')


def sorted_spec(completions, fragment):
    """the name completions in the documented order (stable)"""
    return sorted(completions, key=lambda c: doc_sort_key(c.name, fragment))


def doc_sort_key(name, fragment):
    """documented order: matching case first, then public, _private, __dunder__, alphabetical"""
    return (not is_prefix(fragment, name), is_prefix('__', name), is_prefix('_', name), name.lower())


FAMILIES = [
    Family('Completion', attrs={'_like_name_length': INT, '_name': Obj('NameW'), '_is_fuzzy': BOOL,
                                'type': STR, 'name': STR, 'complete': Opt(STR), '_stack': ANY,
                                '_cached_name': ANY},
           methods={
               '_complete': FnSpec('Completion._complete', params=[('like_name', BOOL)], ret=STR, pure=True,
                                   assumed=False),
           }),
    Family('CompletionAPI', attrs={'_like_name': STR}),
]

_start_match = Contract(
    id='C04._start_match', prop='C04', clause='(a) non-fuzzy: the name starts with the fragment',
    file='jedi/api/helpers.py', qualname='_start_match',
    params={'string': STR, 'like_name': STR}, ret=BOOL,
    ensures=['result == is_prefix(like_name, string)'],
    witness={'string': 'string', 'like_name': 'like_name'},
    replay=lambda i: _replay_fn('_start_match', i, ['string', 'like_name']),
)

_fuzzy_match = Contract(
    id='C04._fuzzy_match', prop='C04', clause='(a) fuzzy: the fragment is a subsequence of the name',
    file='jedi/api/helpers.py', qualname='_fuzzy_match',
    params={'string': STR, 'like_name': STR}, ret=BOOL,
    ensures=['result == gsub(like_name, string)'],
    decreases='len(like_name)',
    witness={'string': 'string', 'like_name': 'like_name'},
    replay=lambda i: _replay_fn('_fuzzy_match', i, ['string', 'like_name']),
)
_fuzzy_match.names['_fuzzy_match'] = callee_of(_fuzzy_match)

_match = Contract(
    id='C04.match', prop='C04', clause='(a) match = prefix test, or subsequence test when fuzzy',
    file='jedi/api/helpers.py', qualname='match',
    params={'string': STR, 'like_name': STR, 'fuzzy': BOOL}, ret=BOOL,
    names={'_fuzzy_match': callee_of(_fuzzy_match), '_start_match': callee_of(_start_match)},
    ensures=['result == match_spec(string, like_name, fuzzy)'],
    witness={'string': 'string', 'like_name': 'like_name', 'fuzzy': 'fuzzy'},
    replay=lambda i: _replay_fn('match', i, ['string', 'like_name', 'fuzzy']),
)


def _replay_fn(name, inp, order):
    from pyvc.replay import run_real
    import jedi.api.helpers as h
    f = getattr(h, name)
    out = run_real(lambda: f(*[inp[k] for k in order]))
    return dict(inp), out


def _replay_complete(inp):
    from pyvc.replay import run_real
    from jedi.api import classes
    from jedi import settings

    class FakeName:
        def get_public_name(self):
            return inp['public']
    c = classes.Completion.__new__(classes.Completion)
    c._name = FakeName()
    c._like_name_length = inp['k']
    c._is_fuzzy = False
    c._cached_name = None
    old = settings.add_bracket_after_function
    settings.add_bracket_after_function = inp['bracket']
    type(c).type = property(lambda self: inp['type'])
    try:
        out = run_real(lambda: classes.Completion._complete(c, inp['like_name']))
    finally:
        settings.add_bracket_after_function = old

    class S:
        add_bracket_after_function = inp['bracket']
    env = {'self': c, 'like_name': inp['like_name'], 'settings': S}
    return env, out


_complete = Contract(
    id='C04.Completion._complete', prop='C04',
    clause='(b) complete is exactly the missing suffix of name_with_symbols; name_with_symbols = public name '
           '+ "(" for functions when the bracket setting is on',
    file='jedi/api/classes.py', qualname='Completion._complete',
    params={'self': Obj('Completion'), 'like_name': BOOL}, ret=STR,
    families=['Completion', 'NameW'],
    requires=['self._like_name_length >= 0'],
    ensures=[
        # name_with_symbols
        'implies(not like_name, result == name_with_symbols_spec(self._name.get_public_name(), '
        'settings.add_bracket_after_function and self.type == "function"))',
        # complete: prefix of length k of the public name followed by `complete` is name_with_symbols
        'implies(like_name, self._name.get_public_name()[:self._like_name_length] + result == '
        'name_with_symbols_spec(self._name.get_public_name(), '
        'settings.add_bracket_after_function and self.type == "function"))',
    ],
    witness={'public': 'self._name.get_public_name()', 'k': 'self._like_name_length', 'like_name': 'like_name',
             'bracket': 'settings.add_bracket_after_function', 'type': 'self.type'},
    replay=_replay_complete,
)

_complete_prop = Contract(
    id='C04.Completion.complete', prop='C04', clause='(b) fuzzy => complete is None; else the missing suffix',
    file='jedi/api/classes.py', qualname='Completion.complete',
    params={'self': Obj('Completion')}, ret=Opt(STR),
    families=['Completion', 'NameW'],
    ensures=['implies(self._is_fuzzy, result is None)',
             'implies(not self._is_fuzzy, result == self._complete(True))'],
)

_nws = Contract(
    id='C04.Completion.name_with_symbols', prop='C04', clause='(b) name_with_symbols',
    file='jedi/api/classes.py', qualname='Completion.name_with_symbols',
    params={'self': Obj('Completion')}, ret=STR,
    families=['Completion', 'NameW'],
    ensures=['result == self._complete(False)'],
)

_prefix_len = Contract(
    id='C04.Completion.get_completion_prefix_length', prop='C04',
    clause='(c) reported prefix length is the stored fragment length',
    file='jedi/api/classes.py', qualname='Completion.get_completion_prefix_length',
    params={'self': Obj('Completion')}, ret=INT,
    families=['Completion'],
    ensures=['result == self._like_name_length'],
)

_param_eq = Contract(
    id='C04.ParamNameWithEquals.get_public_name', prop='C04', clause='(b) keyword completions end in "="',
    file='jedi/api/completion.py', qualname='ParamNameWithEquals.get_public_name',
    params={'self': Obj('NameW')}, ret=STR, families=['NameW'],
    ensures=['result == self.string_name + "="'],
)

# ---- filter_names -------------------------------------------------------------------------
_Completion_ctor = FnSpec(
    'classes.Completion', params=[('inference_state', ANY), ('name', Obj('NameW')), ('stack', ANY),
                                  ('like_name_length', INT), ('is_fuzzy', BOOL), ('cached_name', ANY)],
    ret=Obj('Completion'), pure=False, assumed=False,
    ensures=['result._like_name_length == like_name_length', 'result._name == name',
             'result._is_fuzzy == is_fuzzy'],
    note='Completion.__init__ stores its arguments (fields read back by the contracts above)')


def _replay_filter_names(inp):
    from pyvc.replay import run_real
    from jedi.api import completion
    from jedi import settings

    class FakeName:
        tree_name = None
        api_type = 'statement'
        parent_context = None

        def __init__(self, s):
            self.string_name = s

        def get_public_name(self):
            return self.string_name
    names = [FakeName(s) for s in inp['names']]
    old = settings.case_insensitive_completion
    settings.case_insensitive_completion = inp['ci']
    try:
        out = run_real(lambda: list(completion.filter_names(
            None, names, None, inp['like_name'], inp['fuzzy'], list(inp['imported']), None)))
    finally:
        settings.case_insensitive_completion = old

    class S:
        case_insensitive_completion = inp['ci']
    env = {'like_name': inp['like_name'], 'fuzzy': inp['fuzzy'], 'settings': S,
           'completion_names': names, 'imported_names': list(inp['imported'])}
    return env, out


_filter_names = Contract(
    id='C04.filter_names', prop='C04',
    clause='(a) every yielded completion matches the fragment (case-folded when the setting is on); '
           '(c) its prefix length is the length of the fragment as typed; (d) no (name, complete) pair twice',
    file='jedi/api/completion.py', qualname='filter_names',
    params={'inference_state': ANY, 'completion_names': Seq(Obj('NameW')), 'stack': ANY, 'like_name': STR,
            'fuzzy': BOOL, 'imported_names': Seq(STR), 'cached_name': ANY},
    families=['Completion', 'NameW', 'PNode'],
    yields=Obj('Completion'), merge=False,
    locals={'comp_dct': SetT(Tup(STR, Opt(STR)))},
    # generator proof rule (DESIGN 2.5): per-element facts are proved at the yield statement
    yield_each=[
        'c._like_name_length == len(like_name)',
        'match_spec(fold_case(c._name.string_name, settings.case_insensitive_completion), '
        'fold_case(like_name, settings.case_insensitive_completion), fuzzy)',
    ],
    yield_key='(c.name, c.complete)',
    invariants={0: [
        'subset(YKEYS, comp_dct)',
        'like_name == fold_case(old(like_name), settings.case_insensitive_completion)',
    ]},
    concrete_ensures=[
        'all(c._like_name_length == len(like_name) for c in result)',
        'len({(c.name, c.complete) for c in result}) == len(result)',
    ],
    witness={'names': '[n.string_name for n in completion_names]', 'like_name': 'like_name', 'fuzzy': 'fuzzy',
             'imported': 'imported_names', 'ci': 'settings.case_insensitive_completion'},
    replay=_replay_filter_names,
    witness_library=[
        {'names': ['\u0130xyz', 'abc'], 'like_name': '\u0130', 'fuzzy': False, 'imported': [], 'ci': True},
        {'names': ['Abc', 'abd', 'abc', 'abc'], 'like_name': 'aB', 'fuzzy': False, 'imported': [], 'ci': True},
        {'names': ['Abc', 'abd', 'xaxbx'], 'like_name': 'ab', 'fuzzy': True, 'imported': [], 'ci': False},
        {'names': ['Abc', 'abd', 'abd'], 'like_name': 'ab', 'fuzzy': False, 'imported': ['abd'], 'ci': False},
    ],
)

def _region_final(func):
    """the statements after the completion names have been filtered: the ordering of the result"""
    import ast
    idx = None
    for i, st in enumerate(func.body):
        if isinstance(st, ast.Assign) and len(st.targets) == 1 and isinstance(st.targets[0], ast.Name) \
                and st.targets[0].id == 'completions':
            idx = i
    if idx is None:
        return None
    return func.body[idx + 1:]


def _replay_order(inp):
    from pyvc.replay import run_real
    import jedi
    from jedi import settings
    old = settings.case_insensitive_completion
    settings.case_insensitive_completion = inp.get('ci', True)
    try:
        code = ''.join('%s = 1\n' % n for n in inp['names']) + inp['fragment']
        s = jedi.Script(code)
        out = run_real(lambda: [c.name for c in s.complete()])
    finally:
        settings.case_insensitive_completion = old
    return {'FRAGMENT': inp['fragment']}, out


def _order_contract(n):
    c = Contract(
        id='C04.Completion.complete.order[%d]' % n, prop='C04',
        clause='(e) the list is ordered as documented: names starting with the fragment as typed (matching case) '
               'first, then public, _private, __dunder__, then alphabetical (case-insensitive); prefixed completions '
               'first, minus those also offered as names (%d name completions)' % n,
        file='jedi/api/completion.py', qualname='Completion.complete', region=_region_final,
        params={'self': Obj('CompletionAPI')},
        free={'prefixed_completions': Seq(Obj('Completion')), 'completions': Seq(Obj('Completion'))},
        families=['CompletionAPI', 'Completion'], ret=Seq(Obj('Completion')), tier='SB',
        bounds={'name completions': n},
        ensures=['result == _remove_duplicates(prefixed_completions, completions) + '
                 'sorted_spec(completions, self._like_name)'],
        concrete_ensures=[
            'result == sorted(result, key=lambda n: (not n.startswith(FRAGMENT), n.startswith("__"), '
            'n.startswith("_"), n.lower()))'],
        witness={}, replay=_replay_order,
        witness_library=[{'names': ['Path', 'path', 'pathlib_x', '_path', '__path__'], 'fragment': 'Pa', 'ci': True},
                         {'names': ['value', 'Value', 'VALVE', 'valid'], 'fragment': 'Va', 'ci': True},
                         {'names': ['abc', 'Abd', '_abe', 'ab'], 'fragment': 'ab', 'ci': True},
                         {'names': ['abc', 'Abd', 'ab'], 'fragment': 'ab', 'ci': False}],
        notes='block contract on the statements after `completions = list(filter_names(...))`; sorted() modelled '
              'exactly (stable compare-exchange network) for the bounded length',
    )
    c.shape = {'completions': n}
    return c


ORDER = [_order_contract(n) for n in range(0, 4)]

def _replay_on_name(inp):
    """the fragment jedi sees in front of the cursor vs the identifier characters that are really there"""
    from pyvc.replay import run_real
    import re
    import parso
    from jedi.api.helpers import get_on_completion_name
    code = inp['code']
    lines = parso.split_lines(code, keepends=True)
    pos = (len(lines), len(lines[-1]))
    module = parso.parse(code)
    out = run_real(lambda: get_on_completion_name(module, lines, pos))
    typed = re.search(r'(?!\d)\w+$|$', lines[-1]).group(0)
    return {'TYPED': typed}, out


_on_name = Contract(
    id='C04.get_on_completion_name', prop='C04',
    clause='the fragment that completions must extend is exactly what is typed in front of the cursor: the part of '
           'the name OR keyword leaf under the cursor up to the cursor column (a complete keyword such as `not` or '
           '`for` is a fragment like any other); empty on operators, numbers, whitespace',
    file='jedi/api/helpers.py', qualname='get_on_completion_name',
    params={'module_node': Obj('PNode'), 'lines': Seq(STR), 'position': POS}, families=['PNode', 'Match04'], ret=STR,
    requires=['position[0] >= 1 and position[0] <= len(lines)'],
    ensures=[
        'implies(module_node.get_leaf_for_position(position) is not None and '
        '(module_node.get_leaf_for_position(position).type == "name" or '
        'module_node.get_leaf_for_position(position).type == "keyword"), '
        'result == module_node.get_leaf_for_position(position).value[:position[1] - '
        'module_node.get_leaf_for_position(position).start_pos[1]])',
        'implies(module_node.get_leaf_for_position(position) is not None and '
        'module_node.get_leaf_for_position(position).type not in ("name", "keyword", "string", "error_leaf"), '
        'result == "")',
    ],
    witness={}, replay=_replay_on_name, concrete_only=True,
    witness_library=[{'code': 'x = not'}, {'code': 'y = 1 if 2 else'}, {'code': 'for'}, {'code': 'abc.de'},
                     {'code': 'x = 1 +'}],
    concrete_ensures=['result == TYPED'],
)

# ------------------------------------------------------------------ attribute sources of an instance
_CV = 'self.get_annotated_class_object()'
_SAF = 'SelfAttributeFilter(self, %s, c.as_context(), origin_scope)' % _CV
_WRAP = ('((isinstance(f, ClassFilter) and InstanceClassFilter(self, f) in %(Y)s) or '
         '(not isinstance(f, ClassFilter) and isinstance(f, CompiledValueFilter) and CompiledInstanceClassFilter(self, f) in %(Y)s) or '
         '(not isinstance(f, ClassFilter) and not isinstance(f, CompiledValueFilter) and f in %(Y)s))')


def _replay_instance_filters(inp):
    """completion after an instance whose class (or a base) is not a plain class value: a dataclass, a class with a
    subscripted generic base - attributes assigned through self in methods must still be offered"""
    from pyvc.replay import run_real
    import jedi
    code = inp['code']
    lines = code.split('\n')
    out = run_real(lambda: sorted(c.name for c in jedi.Script(code).complete(len(lines), len(lines[-1]))
                                  if c.name in inp['expect']))
    return {'EXPECT': sorted(inp['expect'])}, out


_instance_filters = Contract(
    id='C04._BaseTreeInstance.get_filters', prop='C04',
    clause='(f) attribute sources of an instance: for EVERY class of the MRO that is not a compiled object there is a '
           'filter for the attributes assigned through self, and every filter of the class (body, bases, metaclass) is '
           'passed on - none is dropped, whatever kind of class value the MRO entry is',
    file='jedi/inference/value/instance.py', qualname='_BaseTreeInstance.get_filters',
    params={'self': Obj('TInst'), 'origin_scope': ANY, 'include_self_names': BOOL},
    families=['TInst', 'ClsV', 'FltX', 'CtxX'], yields=Obj('FltX'),
    invariants={
        0: ['all(implies(not c.is_compiled(), %s in YIELDED) for c in DONE)' % _SAF],
        1: ['all(%s for f in DONE)' % (_WRAP % {'Y': 'YIELDED'}),
            'implies(include_self_names, all(implies(not c.is_compiled(), %s in YIELDED) for c in %s.py__mro__()))' % (_SAF, _CV)],
    },
    ensures=['implies(include_self_names, all(implies(not c.is_compiled(), %s in result) for c in %s.py__mro__()))' % (_SAF, _CV),
             'all(%s for f in %s.get_filters(origin_scope, True))' % (_WRAP % {'Y': 'result'}, _CV)],
    witness={}, replay=_replay_instance_filters, concrete_only=True,
    witness_library=[
        {'code': 'class P:\n    def set(self):\n        self.norm = 1\np = P()\np.no', 'expect': ['norm']},
        {'code': 'def deco(c):\n    return c\n@deco\nclass P:\n    def set(self):\n        self.norm = 1\np = P()\np.no',
         'expect': ['norm']},
        {'code': 'class B:\n    def s(self):\n        self.item = 1\nclass C(B):\n    def t(self):\n        self.sealed = 2\n'
                 'c = C()\nc.', 'expect': ['item', 'sealed']},
    ],
    concrete_ensures=['result == EXPECT'],
)

CONTRACTS = [_instance_filters, _start_match, _fuzzy_match, _match, _complete, _complete_prop, _nws, _prefix_len, _param_eq,
             _filter_names, _on_name] + ORDER

def _standin(repo, seed, tier):
    from pyvc.standin import run_standin
    return run_standin('C04', tier, seed, repo)


_standin.tiers = ('quick', 'thorough')
BOUNDED = [_standin]

NOT_DECIDED = [
    '(f) attribute completeness after `expr.` against the run-time object (needs the inference engine)',
    'determinism of the input order of completion names (see C16)',
    'gsub == textbook subsequence relation is proved only up to the bound stated in the lemma',
]
TRUSTED = ['str.lower() modelled as an uninterpreted idempotent function (not length preserving)']


def register(reg):
    from pyvc.values import MNS, MFn
    from pyvc.values import MCls as _MC
    _F = Obj('FltX')
    reg.add_family(Family('TInst', methods={'get_annotated_class_object': FnSpec(
        'TreeInstance.get_annotated_class_object', ret=Obj('ClsV'), pure=True, assumed=True)}))
    reg.add_family(Family('CtxX'))
    reg.add_family(Family('FltX'))
    reg.add_family(Family('ClsV', methods={
        'py__mro__': FnSpec('ClassValue.py__mro__', ret=Seq(Obj('ClsV')), pure=True, assumed=True),
        'is_compiled': FnSpec('Value.is_compiled', ret=BOOL, pure=True),
        'as_context': FnSpec('Value.as_context', ret=Obj('CtxX'), pure=True),
        'get_filters': FnSpec('ClassValue.get_filters', params=[('origin_scope', ANY), ('is_instance', BOOL)],
                              defaults={'origin_scope': None, 'is_instance': False}, ret=Seq(_F), pure=True, assumed=True)}))
    reg.names['SelfAttributeFilter'] = FnSpec('SelfAttributeFilter', params=[('instance', Obj('TInst')), ('instance_class', Obj('ClsV')),
                                                                            ('node_context', Obj('CtxX')), ('origin_scope', ANY)],
                                              ret=_F, pure=True, assumed=True)
    reg.names['InstanceClassFilter'] = FnSpec('InstanceClassFilter', params=[('instance', Obj('TInst')), ('class_filter', _F)],
                                              ret=_F, pure=True, assumed=True)
    reg.names['CompiledInstanceClassFilter'] = FnSpec('CompiledInstanceClassFilter', params=[('instance', Obj('TInst')), ('f', _F)],
                                                      ret=_F, pure=True, assumed=True)
    reg.names['ClassFilter'] = _MC('ClassFilter')
    reg.names['CompiledValueFilter'] = _MC('CompiledValueFilter')
    reg.add_family(Family('Match04', methods={'group': FnSpec('Match.group', params=[('n', INT)], ret=STR, pure=True,
                                                              assumed=True)}))
    reg.names['re'] = MNS('re', {'search': MFn('spec', 're.search', spec=FnSpec(
        're.search', params=[('pattern', STR), ('s', STR)], ret=Obj('Match04'), pure=True, assumed=True,
        note='the pattern used here always matches (alternative `$`)'))})
    reg.names['classes'] = MNS('classes', {'Completion': MFn('spec', 'classes.Completion', spec=_Completion_ctor)})
    reg.names['helpers'] = MNS('helpers', {'match': MFn('spec', 'match', spec=callee_of(_match))})
    reg.names['_remove_duplicates'] = FnSpec(
        '_remove_duplicates', params=[('completions', Seq(Obj('Completion'))), ('other', Seq(Obj('Completion')))],
        ret=Seq(Obj('Completion')), pure=True, assumed=False,
        note='prefixed completions whose name is not also offered as a name completion')


def dynamic_contracts(repo):
    """(f) attribute completeness after `expr.`: the class hierarchy (MRO) of every value is produced by a memoised
    generator; every consumer must see ALL its elements (contract shared with C15)"""
    from contracts import c15, c03
    # ... and the module's global filter (names declared `global` anywhere in the module) is complete (shared with C03)
    return [c15._gen_cache, c03._global_values]
