"""C05 — Rename rewrites exactly the references and preserves behaviour (function-level clauses)."""
import ast
import os
from pyvc.api import *
from contracts import c07 as _c07
from contracts import c16 as _c16
from contracts import c19 as _c19

SPEC_IMPORTS = ['contracts.common', 'contracts.c07', 'contracts.c16', 'contracts.c19', 'contracts.c10', 'contracts.c03']
SPEC_FUNCTIONS = ['goes_to_map', 'is_file_rename']

_PN = Obj('PNode')
_MAP = DictT(Opt(PATH), DictT(_PN, STR))


def is_file_rename(d):
    """a reference that stands for a whole module file (no token to rewrite): the file is renamed"""
    return d.type == 'module' and d._name.tree_name is None and d.module_path is not None


def goes_to_map(d):
    """a reported reference that is an identifier token in some file: its token is rewritten"""
    return not is_file_rename(d) and not isinstance(d._name, ImplicitNSName) and d._name.tree_name is not None


_rename = Contract(
    id='C05.rename', prop='C05',
    clause='(a) rename rewrites exactly the reported references: the node->text map of each file has exactly the '
           'tree names of the reported references of that file as keys, each mapped to its own prefix (whitespace / '
           'comments before the token, byte for byte) followed by the new name; an empty reference list is refused '
           'with RefactoringError and nothing else escapes',
    file='jedi/api/refactoring/__init__.py', qualname='rename',
    params={'inference_state': ANY, 'definitions': Seq(Obj('Def05')), 'new_name': STR},
    ghost={'gp': Opt(PATH), 'gt': _PN},
    families=['Def05', 'NameD05', 'Val05', 'PNode', 'Refactoring05'], ret=Obj('Refactoring05'),
    locals={'file_renames': SetT(Tup(PATH, PATH)), 'file_tree_name_map': _MAP},
    requires=['all(implies(d._name.tree_name is not None, d._name.tree_name.is_leaf) for d in definitions)'],
    invariants={
        0: [
            # every reference seen so far that is a token has been entered with prefix + new_name
            'all(implies(goes_to_map(d), d.module_path in file_tree_name_map '
            'and d._name.tree_name in file_tree_name_map[d.module_path] '
            'and file_tree_name_map[d.module_path][d._name.tree_name] == d._name.tree_name.prefix + new_name) '
            'for d in DONE)',
            # nothing else is in the map (gp, gt universally quantified)
            'implies(gp in file_tree_name_map and gt in file_tree_name_map[gp], '
            'any(goes_to_map(d) and d.module_path == gp and d._name.tree_name == gt for d in DONE))',
            # module-file references become file renames
            'all(implies(is_file_rename(d), _calculate_rename(Path(d.module_path), new_name) in file_renames) '
            'for d in DONE)',
        ],
        1: ['subset(PRE_file_renames, file_renames)'],
    },
    loop_modifies={0: [], 1: []}, merge=False,
    loop_each={0: ['implies(ITEM._name.tree_name is not None, ITEM._name.tree_name.is_leaf)']},
    raises={'RefactoringError': 'len(definitions) == 0'}, raises_iff=['RefactoringError'],
    ensures=[
        'all(implies(goes_to_map(d), d.module_path in result._file_to_node_changes '
        'and d._name.tree_name in result._file_to_node_changes[d.module_path] '
        'and result._file_to_node_changes[d.module_path][d._name.tree_name] == d._name.tree_name.prefix + new_name) '
        'for d in definitions)',
        'implies(gp in result._file_to_node_changes and gt in result._file_to_node_changes[gp], '
        'any(goes_to_map(d) and d.module_path == gp and d._name.tree_name == gt for d in definitions))',
        'all(implies(is_file_rename(d), _calculate_rename(Path(d.module_path), new_name) in result._renames) '
        'for d in definitions)',
    ],
)

FAMILIES = [
    Family('Def05', attrs={'_name': Obj('NameD05'), 'type': STR, 'module_path': Opt(PATH)}),
    Family('NameD05', attrs={'tree_name': Opt(_PN), '_value': Obj('Val05')}),
    Family('Val05', methods={'py__path__': FnSpec('NamespaceValue.py__path__', ret=Seq(STR), pure=True)}),
    Family('Refactoring05', attrs={'_file_to_node_changes': _MAP, '_renames': SetT(Tup(PATH, PATH))}),
]

import copy as _copy
_rename_files = _copy.copy(_rename)
_rename_files.id = 'C05.rename.files'
_rename_files.clause = ('(a) references that stand for a whole module file become file renames '
                        '(_calculate_rename of that path); tokens are handled by C05.rename')
_rename_files.invariants = {0: [_rename.invariants[0][2]], 1: _rename.invariants[1]}
_rename_files.ensures = [_rename.ensures[2]]
_rename_files.ghost = {}
_rename.invariants = {0: _rename.invariants[0][:2], 1: ['True']}
_rename.ensures = _rename.ensures[:2]

# the project-wide candidate scan behind get_references walks the project with FolderIO.walk (shared with C19)
CONTRACTS = [_rename, _rename_files, _c07._calc_rename, _c16._flag, _c19._scan] + _c19.WALK


def register(reg):
    from pyvc.values import MCls
    from pyvc.spec import callee_of
    reg.names['ImplicitNSName'] = MCls('ImplicitNSName')
    reg.names['_calculate_rename'] = callee_of(_c07._calc_rename, name='_calculate_rename')
    reg.names['Refactoring'] = FnSpec(
        'Refactoring', params=[('inference_state', ANY), ('file_to_node_changes', _MAP),
                               ('renames', SetT(Tup(PATH, PATH)))],
        ret=Obj('Refactoring05'), pure=False, assumed=False,
        ensures=['result._file_to_node_changes == file_to_node_changes', 'result._renames == renames'],
        note='Refactoring.__init__ stores its arguments')


def structural_rename_uses_references(repo):
    rel = 'jedi/api/__init__.py'
    try:
        tree = ast.parse(open(os.path.join(repo, rel), encoding='utf-8').read())
    except (OSError, SyntaxError) as e:
        return [{'id': 'rename-call', 'kind': 'call-pre', 'ok': None, 'label': 'cannot parse: %s' % e}]
    from pyvc.verify import find_function
    fn = find_function(tree, 'Script.rename')
    src = ast.unparse(fn) if fn else ''
    ok = fn is not None and 'definitions = self.get_references(line, column, include_builtins=False)' in src \
        and 'return refactoring.rename(self._inference_state, definitions, new_name)' in src
    return [{'id': 'rename-call', 'kind': 'call-pre', 'ok': ok,
             'label': '(a) Script.rename hands exactly get_references(line, column, include_builtins=False) to rename()'}]


STRUCTURAL = [structural_rename_uses_references]
def _standin(repo, seed, tier):
    from pyvc.standin import run_standin
    return run_standin('C05', tier, seed, repo)


_standin.tiers = ('quick', 'thorough')
BOUNDED = [_standin]

NOT_DECIDED = ['(b) closure/partition of get_references over an arbitrary _find_names (F7, open)',
               '(c) rename-back identity and (d) behaviour preservation (quantify over the inference engine on another program)',
               'whether _find_names itself is right']
TRUSTED = ['Refactoring.__init__ stores its arguments', 'pathlib model', 'dict-of-dict aliasing modelled by write-back '
           '(x = outer.setdefault(k, {}))']


def dynamic_contracts(repo):
    """a use reaches its definition through every chain of star imports (goto is how the reference search connects
    occurrences): the star-import closure contracts are shared with C10"""
    from contracts import c10, c03
    # ... and a private (name-mangled) attribute is only connected to accesses inside its class (shared with C03)
    return [c10._star, c10._star2] + list(c03._PRIVATE)
