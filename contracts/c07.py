"""C07 — Refactoring results are self-consistent and touch nothing until applied."""
import ast
import os
from pyvc.api import *
from pyvc.spec import callee_of

SPEC_IMPORTS = ['contracts.common', 'contracts.c01', 'contracts.load', 'contracts.c17']
SPEC_FUNCTIONS = ['moves_with', 'rebase', 'to_path_spec1', 'to_path_spec2', 'with_final_newline', 'valid_renames',
                  'norm_lines', 'diff_header']


def valid_renames(renames):
    return all(valid_path(r[0]) and valid_path(r[1]) for r in renames)


def moves_with(p, from_):
    """file p moves when directory/file `from_` is renamed: p is from_ or lies below it
    (path components, not string prefix: /a/foo_utils.py does not move with /a/foo)"""
    return p == from_ or from_ in p.parents


def rebase(p, from_, to):
    return to.joinpath(p.relative_to(from_))


def to_path_spec1(p, r0):
    if moves_with(p, r0[0]):
        return rebase(p, r0[0], r0[1])
    return p


def to_path_spec2(p, r0, r1):
    return to_path_spec1(to_path_spec1(p, r0), r1)


def with_final_newline(line):
    return line if line == '' else line + '\n'


def norm_lines(lines):
    """the lines handed to difflib: a missing final newline is added (upstream's documented choice, so that
    no '\\ No newline at end of file' marker is needed) - to the text's OWN last line only"""
    if lines[-1] != '':
        return lines[:-1] + [lines[-1] + '\n']
    return lines


def diff_header(p, project_path):
    """file name in the diff header: relative to the project when inside it, '' for a path-less buffer"""
    if p is None:
        return ''
    if moves_with(p, project_path):
        return str(p.relative_to(project_path))
    return str(p)


_REN = Seq(Tup(PATH, PATH))


def _replay_to_path(inp):
    from pyvc.replay import run_real
    from pathlib import Path
    from jedi.api.refactoring import Refactoring
    renames = [(Path(a), Path(b)) for a, b in inp['renames']]
    p = None if inp['p'] is None else Path(inp['p'])

    class FakeNode:
        def get_root_node(self):
            return self
    r = Refactoring(None, {p: {FakeNode(): ''}}, renames)
    r.get_renames = lambda: renames       # keep the model's order (sorted() is specified separately)
    out = run_real(lambda: list(r.get_changed_files().values())[0]._to_path)
    env = {'p': p, 'renames': renames}
    return env, out


_to_path = Contract(
    id='C07.calculate_to_path', prop='C07',
    clause='(b) the announced target of a changed file: moved iff it is the renamed path or lies below it',
    file='jedi/api/refactoring/__init__.py', qualname='Refactoring.get_changed_files.calculate_to_path',
    params={'p': Opt(PATH)}, free={'renames': _REN}, ret=Opt(PATH),
    requires=['len(renames) <= 2', 'implies(p is not None, valid_path(p))', 'valid_renames(renames)'],
    unroll={0: 2}, tier='SB', bounds={'renames': 2},
    ensures=[
        'implies(p is None, result is None)',
        'implies(p is not None and len(renames) == 0, result == p)',
        'implies(p is not None and len(renames) == 1, result == to_path_spec1(p, renames[0]))',
        'implies(p is not None and len(renames) == 2, result == to_path_spec2(p, renames[0], renames[1]))',
    ],
    witness={'p': 'p', 'renames': 'renames'},
    replay=_replay_to_path,
    witness_library=[
        {'p': '/A/foo_utils.py', 'renames': [('/A/foo', '/A/qux')]},
        {'p': '/A/foo/x.py', 'renames': [('/A/foo', '/A/qux')]},
        {'p': '/A/foo', 'renames': [('/A/foo', '/A/qux')]},
        {'p': None, 'renames': [('/A/foo', '/A/qux')]},
    ],
    notes='the loop is unrolled to <= 2 renames (one refactoring renames at most a module and its package dir); '
          'pathlib.Path modelled as normalised POSIX strings',
)

_get_renames = Contract(
    id='C07.get_renames', prop='C07', clause='(b) get_renames() = the renames of the refactoring, sorted',
    file='jedi/api/refactoring/__init__.py', qualname='Refactoring.get_renames',
    params={'self': Obj('Refactoring')}, families=['Refactoring'], ret=_REN,
    ensures=['len(result) == len(self._renames)',
             'all(r in self._renames for r in result)', 'all(r in result for r in self._renames)'],
)

_get_diff = Contract(
    id='C07.ChangedFile.get_diff', prop='C07',
    clause='(a) get_diff() is difflib\'s unified diff from the lines of the original text to the lines of '
           'get_new_code() (each with its own missing final newline added), with project-relative headers',
    file='jedi/api/refactoring/__init__.py', qualname='ChangedFile.get_diff',
    params={'self': Obj('ChangedFile')}, families=['ChangedFile', 'InfState', 'Project', 'PNode'], ret=STR,
    ensures=['result == "".join(difflib.unified_diff('
             'norm_lines(split_lines(self._module_node.get_code(), True)), '
             'norm_lines(split_lines(self.get_new_code(), True)), '
             'diff_header(self._from_path, self._inference_state.project.path), '
             'diff_header(self._to_path, self._inference_state.project.path))).rstrip(" ")'],
    notes='difflib.unified_diff(a, b) is a unified diff turning "".join(a) into "".join(b): assumed',
)

_changed_apply = Contract(
    id='C07.ChangedFile.apply', prop='C07',
    clause='(d) apply() writes exactly get_new_code() to the original path, without newline translation; '
           'a path-less buffer is refused with RefactoringError',
    file='jedi/api/refactoring/__init__.py', qualname='ChangedFile.apply',
    params={'self': Obj('ChangedFile')}, families=['ChangedFile'],
    raises={'RefactoringError': 'self._from_path is None'}, raises_iff=['RefactoringError'],
    ensures=['fs_written(self._from_path) == self.get_new_code()'],
    effects_allowed=['fs.write'],
    notes='open(path, "w", newline="") + write(s) is an assumed contract: FS[path] := s',
)

_new_code = Contract(
    id='C07.ChangedFile.get_new_code', prop='C07',
    clause='(e) new code = parso refactor of exactly the mapped nodes (everything else byte-identical: assumed '
           'parso contract)',
    file='jedi/api/refactoring/__init__.py', qualname='ChangedFile.get_new_code',
    params={'self': Obj('ChangedFile')}, families=['ChangedFile', 'InfState', 'Grammar'], ret=STR,
    ensures=['result == self._inference_state.grammar.refactor(self._module_node, self._node_to_str_map)'],
)

_calc_rename = Contract(
    id='C07._calculate_rename', prop='C07',
    clause='(b) file rename target: a package (__init__.py[i]) renames its directory, a module keeps its suffix',
    file='jedi/api/refactoring/__init__.py', qualname='_calculate_rename',
    params={'path': PATH, 'new_name': STR}, ret=Tup(PATH, PATH),
    ensures=[
        'implies(path.name == "__init__.py" or path.name == "__init__.pyi", '
        'result == (path.parent, path.parent.parent.joinpath(new_name)))',
        'implies(not (path.name == "__init__.py" or path.name == "__init__.pyi"), '
        'result == (path, path.parent.joinpath(new_name + path.suffix)))',
    ],
)

_try_rel = Contract(
    id='C07._try_relative_to', prop='C07', clause='(a) diff header paths are project-relative when inside the project',
    file='jedi/api/refactoring/__init__.py', qualname='_try_relative_to',
    params={'path': PATH, 'base': PATH}, ret=PATH,
    ensures=['implies(moves_with(path, base), result == path.relative_to(base))',
             'implies(not moves_with(path, base), result == path)'],
)

# ---- Refactoring.apply: contents first, then renames ------------------------------------------
_ref_apply = Contract(
    id='C07.Refactoring.apply', prop='C07',
    clause='(d) apply(): every changed file is written (ChangedFile.apply), then every rename is performed, in '
           'that order; nothing else touches the file system',
    file='jedi/api/refactoring/__init__.py', qualname='Refactoring.apply',
    params={'self': Obj('Refactoring')}, families=['Refactoring', 'ChangedFile'],
    unroll={0: 2, 1: 2}, tier='SB', bounds={'changed files': 2, 'renames': 2},
    ensures=['effects_order_ok(EFFECTS)'],
    notes='effect trace: "apply" labels must all precede "rename" labels',
)

FAMILIES = [
    Family('Refactoring', attrs={'_renames': _REN, '_inference_state': Obj('InfState'),
                                 '_file_to_node_changes': ANY},
           methods={
               'get_renames': FnSpec('Refactoring.get_renames', ret=_REN, pure=True, assumed=False),
               'get_changed_files': FnSpec('Refactoring.get_changed_files', ret=Obj('CFDict'), pure=True,
                                           assumed=False),
           }),
    Family('CFDict', methods={
        'values': FnSpec('dict.values', ret=Seq(Obj('ChangedFile')), pure=True, assumed=True)}),
    Family('ChangedFile', attrs={'_from_path': Opt(PATH), '_to_path': Opt(PATH), '_module_node': Obj('PNode'),
                                 '_node_to_str_map': ANY, '_inference_state': Obj('InfState')},
           methods={
               'get_new_code': FnSpec('ChangedFile.get_new_code', ret=STR, pure=True, assumed=False),
               'apply': FnSpec('ChangedFile.apply', effects=['apply'], raises=['RefactoringError'], assumed=False),
           }),
    Family('InfState', attrs={'grammar': Obj('Grammar'), 'project': Obj('Project')}),
    Family('Project', attrs={'path': PATH, '_path': PATH}),
    Family('Grammar', methods={
        'refactor': FnSpec('Grammar.refactor', params=[('node', Obj('PNode')), ('map', ANY)], ret=STR, pure=True,
                           assumed=True, note='parso: replaces the code of exactly the mapped nodes')}),
]

CONTRACTS = [_to_path, _get_renames, _new_code, _calc_rename, _try_rel, _get_diff]


def register(reg):
    from pyvc.values import MNS, MFn
    reg.names['split_lines'] = FnSpec(
        'split_lines', params=[('string', STR), ('keepends', BOOL)], defaults={'keepends': False}, ret=Seq(STR),
        pure=True, assumed=True, ensures=['len(result) >= 1'],
        note='parso.split_lines(keepends=True): the lines join back to the input; never empty')
    reg.names['difflib'] = MNS('difflib', {'unified_diff': MFn('spec', 'difflib.unified_diff', spec=FnSpec(
        'difflib.unified_diff', params=[('a', Seq(STR)), ('b', Seq(STR)), ('fromfile', STR), ('tofile', STR)],
        ret=Seq(STR), pure=True, assumed=True))})


# ---- structural obligations: no file-system mutation outside apply() ---------------------------
# methods that only exist on path/file objects or os/shutil (list.remove, str.replace, dict.copy are not
# file-system effects, so those names count only with an os/shutil receiver)
FS_MUTATORS = {'rename', 'unlink', 'mkdir', 'rmdir', 'write_text', 'write_bytes', 'touch',
               'rmtree', 'copyfile', 'makedirs', 'removedirs', 'symlink_to', 'chmod', 'truncate', 'writelines'}
FS_MUTATORS_OS_ONLY = {'remove', 'replace', 'move', 'copy', 'copy2', 'copytree'}
ALLOWED_WRITERS = {('jedi/api/refactoring/__init__.py', 'ChangedFile.apply'),
                   ('jedi/api/refactoring/__init__.py', 'Refactoring.apply')}


def _qual(stack):
    return '.'.join(stack)


def fs_effect_sites(repo, relfile):
    """(qualname, lineno, what) of every syntactic file-system mutation in the file"""
    src = open(os.path.join(repo, relfile), encoding='utf-8').read()
    tree = ast.parse(src)
    sites = []

    def visit(node, stack):
        for ch in ast.iter_child_nodes(node):
            if isinstance(ch, (ast.FunctionDef, ast.AsyncFunctionDef, ast.ClassDef)):
                visit(ch, stack + [ch.name])
                continue
            if isinstance(ch, ast.Call):
                f = ch.func
                if isinstance(f, ast.Name) and f.id == 'open':
                    mode = None
                    if len(ch.args) > 1 and isinstance(ch.args[1], ast.Constant):
                        mode = ch.args[1].value
                    for k in ch.keywords:
                        if k.arg == 'mode' and isinstance(k.value, ast.Constant):
                            mode = k.value.value
                    if mode is None and len(ch.args) > 1:
                        mode = '?'
                    if mode is not None and any(c in str(mode) for c in 'wax+?'):
                        sites.append((_qual(stack), ch.lineno, 'open(mode=%r)' % mode))
                elif isinstance(f, ast.Attribute) and f.attr in FS_MUTATORS:
                    sites.append((_qual(stack), ch.lineno, '.%s()' % f.attr))
                elif isinstance(f, ast.Attribute) and f.attr in FS_MUTATORS_OS_ONLY \
                        and isinstance(f.value, ast.Name) and f.value.id in ('os', 'shutil'):
                    sites.append((_qual(stack), ch.lineno, '%s.%s()' % (f.value.id, f.attr)))
                elif isinstance(f, ast.Attribute) and f.attr in ('system', 'popen', 'Popen', 'run', 'call',
                                                                 'check_call', 'check_output') \
                        and isinstance(f.value, ast.Name) and f.value.id in ('os', 'subprocess'):
                    sites.append((_qual(stack), ch.lineno, '%s.%s()' % (f.value.id, f.attr)))
            visit(ch, stack)
    visit(tree, [])
    return sites


def structural_no_write_before_apply(repo):
    out = []
    files = ['jedi/api/refactoring/__init__.py', 'jedi/api/refactoring/extract.py']
    for rel in files:
        try:
            sites = fs_effect_sites(repo, rel)
        except (OSError, SyntaxError) as e:
            out.append({'id': 'fs-effects:' + rel, 'definite': True, 'kind': 'effect', 'ok': None, 'label': 'cannot parse %s: %s' % (rel, e)})
            continue
        bad = [s for s in sites if (rel, s[0]) not in ALLOWED_WRITERS]
        out.append({'id': 'fs-effects:' + rel, 'definite': True, 'kind': 'effect', 'ok': not bad,
                    'label': '(c) no file-system mutation reachable in %s outside ChangedFile.apply/Refactoring.apply'
                             % rel,
                    'detail': 'sites: %r; offending: %r' % (sites, bad)})
    # apply order: in Refactoring.apply the loop calling f.apply() precedes the loop calling .rename()
    rel = 'jedi/api/refactoring/__init__.py'
    try:
        tree = ast.parse(open(os.path.join(repo, rel), encoding='utf-8').read())
        fn = None
        for cls in tree.body:
            if isinstance(cls, ast.ClassDef) and cls.name == 'Refactoring':
                for f in cls.body:
                    if isinstance(f, ast.FunctionDef) and f.name == 'apply':
                        fn = f
        order = []
        if fn is not None:
            for n in ast.walk(fn):
                if isinstance(n, ast.Call) and isinstance(n.func, ast.Attribute) and n.func.attr in ('apply', 'rename'):
                    order.append((n.lineno, n.func.attr))
        order.sort()
        kinds = [k for _, k in order]
        ok = fn is not None and kinds == ['apply', 'rename']
        out.append({'id': 'apply-order', 'definite': True, 'kind': 'effect', 'ok': ok,
                    'label': '(d) Refactoring.apply writes contents first and renames second',
                    'detail': repr(order)})
        # newline='' on the write
        ok2 = None
        for cls in tree.body:
            if isinstance(cls, ast.ClassDef) and cls.name == 'ChangedFile':
                for f in cls.body:
                    if isinstance(f, ast.FunctionDef) and f.name == 'apply':
                        ok2 = False
                        for n in ast.walk(f):
                            if isinstance(n, ast.Call) and isinstance(n.func, ast.Name) and n.func.id == 'open':
                                kw = {k.arg: k.value for k in n.keywords}
                                if 'newline' in kw and isinstance(kw['newline'], ast.Constant) \
                                        and kw['newline'].value == '':
                                    ok2 = True
        out.append({'id': 'apply-newline', 'definite': True, 'kind': 'effect', 'ok': ok2,
                    'label': '(d)/(e) ChangedFile.apply opens the file with newline="" (no newline translation)',
                    'detail': ''})
    except (OSError, SyntaxError) as e:
        out.append({'id': 'apply-order', 'definite': True, 'kind': 'effect', 'ok': None, 'label': 'cannot parse: %s' % e})
    return out


def structural_source_read_as_bytes(repo):
    """(e) bytes outside the rewritten nodes - line endings included - are preserved: a Script that reads its source
    from disk reads the BYTES of the file (decoding is left to parso, which keeps \\r\\n and \\r as they are); text
    mode would translate every line ending before the refactoring ever sees it"""
    rel = 'jedi/api/__init__.py'
    try:
        tree = ast.parse(open(os.path.join(repo, rel), encoding='utf-8').read())
    except (OSError, SyntaxError) as e:
        return [{'id': 'source-read-as-bytes', 'kind': 'post', 'ok': None, 'label': 'cannot parse %s: %s' % (rel, e)}]
    from pyvc.verify import find_function
    fn = find_function(tree, 'Script.__init__')
    opens = []
    for n in ast.walk(fn) if fn is not None else []:
        if isinstance(n, ast.Call) and isinstance(n.func, ast.Name) and n.func.id == 'open':
            mode = None
            if len(n.args) >= 2 and isinstance(n.args[1], ast.Constant):
                mode = n.args[1].value
            for k in n.keywords:
                if k.arg == 'mode' and isinstance(k.value, ast.Constant):
                    mode = k.value.value
            keeps_newlines = any(k.arg == 'newline' and isinstance(k.value, ast.Constant) and k.value.value == ''
                                 for k in n.keywords)
            opens.append((n.lineno, mode, ast.unparse(n), keeps_newlines))
    # text mode WITHOUT newline='' translates line endings: the recognised violation; text mode with newline='' keeps
    # them (decoding is then the question: undecided, not an alarm)
    text_mode = [o for o in opens if (o[1] is None or 'b' not in str(o[1])) and not o[3]]
    odd = [o for o in opens if (o[1] is None or 'b' not in str(o[1])) and o[3]]
    return [{'id': 'source-read-as-bytes', 'kind': 'post', 'definite': bool(text_mode),
             'ok': False if text_mode else (None if (odd or not opens) else True),
             'label': 'Script.__init__ reads the file behind `path` in binary mode (no newline translation, no lossy '
                      'decoding before parso): every open() in it has a mode containing "b"',
             'detail': repr(opens)}]


STRUCTURAL = [structural_no_write_before_apply, structural_source_read_as_bytes]


def _standin(repo, seed, tier):
    from pyvc.standin import run_standin
    return run_standin('C07', tier, seed, repo)


_standin.tiers = ('quick', 'thorough')
BOUNDED = [_standin]

NOT_DECIDED = [
    'that the new code means the same (C05/C06)', 'difflib and parso correctness (assumed contracts)',
    '(a) get_diff header/body composition and (f) exception-escape obligations of extract.py: contracts pending',
]
TRUSTED = ['pathlib.Path modelled as normalised POSIX strings (joinpath, relative_to, parents, name, parent)',
           'parso Grammar.refactor replaces exactly the mapped nodes (assumed)',
           'builtin sorted returns a permutation ordered by key (assumed)']


def dynamic_contracts(repo):
    """error clause of C07: the until-range check of extract_variable / extract_function rejects only positions that
    are really outside the text and hands the completed until-position to the refactoring (contracts shared with C01)"""
    from contracts import c01, load
    # ... and the text a refactoring rewrites is the text given or the file as it is now (contracts/load.py)
    # ... including the other files of a project-wide rename, which are found by the text search and parsed from the
    # bytes of the file decoded per PEP 263 - not from a normalised or otherwise rewritten text (shared with C17)
    from contracts import c17
    return [c for c in c01.CONTRACTS if c.id.endswith('.until')] + [load.parse_and_get_code, c17._check_fs]
