"""C08 — Answers do not depend on the editing history of a buffer (coherence of every cross-Script cache)."""
import ast
import os
from pyvc.api import *
from pyvc import inventory as inv

SPEC_IMPORTS = ['contracts.common', 'contracts.load']
SPEC_FUNCTIONS = []

_PN = Obj('PNode')
_SCOPE_CACHE = DictT(ANY, DictT(_PN, Opt(_PN)))
_DEF_CACHE = DictT(ANY, DictT(STR, Seq(_PN)))

_func = FnSpec('func', params=[('node', _PN), ('include_flows', BOOL)], ret=Opt(_PN), pure=True, assumed=False,
               note='get_parent_scope (C03): a pure function of the tree')

_scope_cache = Contract(
    id='C08._get_parent_scope_cache.wrapper', prop='C08',
    clause='the parent-scope memo is coherent: under the invariant "every entry equals the fresh computation" the '
           'result equals the fresh computation and the invariant is preserved; path-less buffers bypass the cache',
    file='jedi/parser_utils.py', qualname='_get_parent_scope_cache.wrapper',
    params={'parso_cache_node': Opt(ANY), 'node': _PN, 'include_flows': BOOL},
    free={'cache': _SCOPE_CACHE, 'func': _func}, families=['PNode'], ret=Opt(_PN),
    requires=[
        'forall(lambda c=T_ANY, n=T_OBJ("PNode"): implies(c in cache and n in cache[c], cache[c][n] == func(n, False)))',
        # the memo key ignores include_flows: both call sites use the default (checked structurally below)
        'parso_cache_node is None or not include_flows',
    ],
    ensures=[
        'result == func(node, include_flows)',
        'forall(lambda c=T_ANY, n=T_OBJ("PNode"): implies(c in NEW_cache and n in NEW_cache[c], '
        'NEW_cache[c][n] == func(n, False)))',
        'implies(parso_cache_node is None, NEW_cache == cache)',
    ],
)

_def_cache = Contract(
    id='C08._get_definition_names', prop='C08',
    clause='the definition-name memo is coherent: an entry has exactly the members of the fresh computation '
           '(the definitions among the used names of that spelling); path-less buffers bypass the cache',
    file='jedi/inference/filters.py', qualname='_get_definition_names',
    params={'parso_cache_node': Opt(ANY), 'used_names': Obj('UsedNames'), 'name_key': STR},
    free={'_definition_name_cache': _DEF_CACHE}, families=['PNode', 'UsedNames'], ret=Seq(_PN),
    requires=[
        # parso: a cache node belongs to one tree version, whose used-names mapping is used_names_of(node)
        'implies(parso_cache_node is not None, used_names == used_names_of(parso_cache_node))',
        'forall(lambda c=T_ANY, k=T_STR, n=T_OBJ("PNode"): implies(c in _definition_name_cache and '
        'k in _definition_name_cache[c], (n in _definition_name_cache[c][k]) == '
        '(n in used_names_of(c).get(k, ()) and n.is_definition(True))))',
    ],
    ensures=[
        'forall(lambda n=T_OBJ("PNode"): (n in result) == (n in used_names.get(name_key, ()) and n.is_definition(True)))',
        'forall(lambda c=T_ANY, k=T_STR, n=T_OBJ("PNode"): implies(c in NEW__definition_name_cache and '
        'k in NEW__definition_name_cache[c], (n in NEW__definition_name_cache[c][k]) == '
        '(n in used_names_of(c).get(k, ()) and n.is_definition(True))))',
        'implies(parso_cache_node is None, NEW__definition_name_cache == _definition_name_cache)',
    ],
)

FAMILIES = [
    Family('UsedNames', methods={'get': FnSpec('UsedNamesMapping.get', params=[('key', STR), ('default', None)],
                                               ret=Seq(_PN), pure=False, impl=None, assumed=True)}),
]


def _used_get(V, st, self_val, args, kwargs, node):
    import z3
    from pyvc.values import SV
    from pyvc.types import sort_of, Ref
    f = V.uf('UsedNames.get', [Ref, z3.StringSort()], sort_of(Seq(_PN)))
    return SV(Seq(_PN), f(self_val.z, args[0].z))


FAMILIES += [
    Family('Grammar8', attrs={'_hashed': ANY}),
    Family('CacheItem', attrs={'node': _PN}),
    Family('UNFilter', fields={'_node_context': Obj('Ctx8'), '_parser_scope': _PN, '_parso_cache_node': Opt(Obj('CacheItem')),
                               '_used_names': Obj('UsedNames'), 'parent_context': Obj('Ctx8')}),
    Family('Ctx8', attrs={'tree_node': _PN},
           methods={'get_root_context': FnSpec('Context.get_root_context', ret=Obj('ModCtx8'), pure=True, assumed=True)}),
    Family('ModCtx8', attrs={'tree_node': _PN, 'inference_state': Obj('IS8')},
           methods={'py__file__': FnSpec('ModuleContext.py__file__', ret=Opt(PATH), pure=True, assumed=True),
                    'is_stub': FnSpec('ModuleContext.is_stub', ret=BOOL, pure=True, assumed=True)}),
    Family('IS8', attrs={'grammar': Obj('Grammar8'), 'latest_grammar': Obj('Grammar8')}),
]

FAMILIES[0].methods['get'] = FnSpec('UsedNamesMapping.get', impl=_used_get, assumed=True,
                                    note='mapping spelling -> name leaves (the default () is the empty sequence)')

_PARSER_CACHE = DictT(ANY, DictT(ANY, Obj('CacheItem')))


def _replay_cache_node(inp):
    from pyvc.replay import run_real
    import types
    from parso.cache import parser_cache
    from jedi.parser_utils import get_parso_cache_node
    g = types.SimpleNamespace(_hashed='pyvc-replay-grammar-%s' % inp.get('present'))
    item = object()
    parser_cache.pop(g._hashed, None)
    if inp.get('present') == 'both':
        parser_cache[g._hashed] = {'/p/a.py': item}
    elif inp.get('present') == 'grammar-only':
        parser_cache[g._hashed] = {}
    try:
        out = run_real(lambda: get_parso_cache_node(g, '/p/a.py'))
        present = g._hashed in parser_cache and '/p/a.py' in parser_cache[g._hashed]
        env = {'grammar': g, 'path': '/p/a.py', 'parser_cache': dict(parser_cache)}
        return env, out
    finally:
        parser_cache.pop(g._hashed, None)


_cache_node = Contract(
    id='C08.get_parso_cache_node', prop='C08',
    clause='the memo key of a module is exactly parso\'s cache entry for (grammar, path): KeyError iff there is none '
           '(never None, never another entry)',
    file='jedi/parser_utils.py', qualname='get_parso_cache_node',
    params={'grammar': Obj('Grammar8'), 'path': ANY}, free={'parser_cache': _PARSER_CACHE},
    families=['Grammar8', 'CacheItem'], ret=Obj('CacheItem'),
    raises={'KeyError': 'not (grammar._hashed in parser_cache and path in parser_cache[grammar._hashed])'},
    raises_iff=['KeyError'],
    ensures=['implies(grammar._hashed in parser_cache and path in parser_cache[grammar._hashed], '
             'result == parser_cache[grammar._hashed][path])'],
    witness={}, replay=_replay_cache_node,
    witness_library=[{'present': 'none'}, {'present': 'grammar-only'}, {'present': 'both'}],
)

def _replay_filter_init(inp):
    """real Scripts on one path; the second one is parsed without parso's cache (settings.fast_parser = False)"""
    from pyvc.replay import run_real
    import tempfile
    import shutil
    import jedi
    from jedi.inference.filters import ParserTreeFilter
    d = tempfile.mkdtemp(prefix='c08_', dir='/var/tmp')
    old = jedi.settings.fast_parser
    try:
        path = os.path.join(d, 'buf.py')
        if inp['first_cached']:
            jedi.settings.fast_parser = True
            jedi.Script('def foo(): pass\nfoo\n', path=path).goto(2, 1)
        jedi.settings.fast_parser = False
        s = jedi.Script('x = 1\ndef foo(a): pass\nfoo\n', path=path)
        ctx = s._get_module_context()
        made = []
        out = run_real(lambda: made.append(ParserTreeFilter(ctx)))
        f = made[0] if made else None
        env = {'coherent': f is None or f._parso_cache_node is None or f._parso_cache_node.node is ctx.tree_node}
        return env, out
    finally:
        jedi.settings.fast_parser = old
        shutil.rmtree(d, ignore_errors=True)


_filter_init = Contract(
    id='C08._AbstractUsedNamesFilter.__init__', prop='C08',
    clause='a filter uses a parser-cache entry as memo key only if that entry holds the very tree the filter works '
           'on (identity); buffers without path, trees parsed without parso\'s cache (settings.fast_parser = False) '
           'and stale entries of another version bypass the memos - this establishes the precondition of '
           '_get_definition_names / get_cached_parent_scope with used_names_of(c) := c.node.get_used_names()',
    file='jedi/inference/filters.py', qualname='_AbstractUsedNamesFilter.__init__',
    params={'self': Obj('UNFilter'), 'parent_context': Obj('Ctx8'), 'node_context': Opt(Obj('Ctx8'))},
    families=['UNFilter', 'Ctx8', 'ModCtx8', 'IS8', 'Grammar8', 'CacheItem', 'PNode', 'UsedNames'],
    ensures=[
        'implies(self._parso_cache_node is not None, '
        'self._parso_cache_node.node is self._node_context.get_root_context().tree_node)',
        'self._used_names == self._node_context.get_root_context().tree_node.get_used_names()',
        'implies(self._node_context.get_root_context().py__file__() is None, self._parso_cache_node is None)',
        'self._node_context == (parent_context if node_context is None else node_context)',
        'self.parent_context == parent_context',
    ],
    witness={}, replay=_replay_filter_init, witness_library=[{'first_cached': True}, {'first_cached': False}],
    concrete_only=True, concrete_ensures=['coherent'],
    allow_callee_exceptions=False,     # in particular the KeyError of get_parso_cache_node must not escape
)

def _region_key(func):
    """cache_signatures without its last statement (the `yield infer(...)` of the value to be cached)"""
    body = [s_ for s_ in func.body if not (isinstance(s_, ast.Expr) and isinstance(s_.value, ast.Constant))]
    last = body[-1]
    if isinstance(last, ast.Expr) and isinstance(last.value, ast.Yield) and 'infer(' in ast.unparse(last):
        return body[:-1]
    return None


_KEY = Tup(ANY, Obj('MatchSig'), POS)
_sig_key = Contract(
    id='C08.cache_signatures.key', prop='C08',
    clause='the key of the time-limited signature cache is None (= do not cache) for buffers without path and when '
           'the text before the cursor does not contain the bracket; otherwise it is (path, the re.Match object of '
           'this very call, bracket position) - a Match compares by identity, so the key of one call never equals the '
           'key of another call and a result computed for an earlier version of the buffer is never served',
    file='jedi/api/helpers.py', qualname='cache_signatures', region=_region_key,
    params={'inference_state': ANY, 'context': Obj('CtxSig'), 'bracket_leaf': _PN, 'code_lines': Seq(STR),
            'user_pos': POS},
    families=['CtxSig', 'RootSig', 'PNode', 'MatchSig'], yields=Opt(_KEY),
    requires=['user_pos[0] >= 1 and user_pos[0] <= len(code_lines)', 'bracket_leaf.is_leaf',
              'bracket_leaf.start_pos[0] >= 1'],
    ensures=[
        'len(result) == 1',
        'implies(context.get_root_context().py__file__() is None, result[0] is None)',
        'implies(result[0] is not None, result[0][2] == bracket_leaf.start_pos '
        'and result[0][0] == context.get_root_context().py__file__())',
    ],
    notes='re.Match has no __eq__: Match objects of different calls are never equal (CPython); a key whose second '
          'component could be None is a type error of this contract (Optional where a Match is required)',
)

# ------------------------------------------------------------------ time-limited signature cache (jedi/cache.py)
def _region_after_generator(func):
    """signature_time_cache...wrapper after `generator = key_func(*args, **kwargs)`"""
    for k, s_ in enumerate(func.body):
        if isinstance(s_, ast.Assign) and ast.unparse(s_.targets[0]) == 'generator':
            return func.body[k + 1:]
    return None


def _next_of_keygen(V, st, self_val, args, kwargs, node):
    """the key function is a generator: its first element is the KEY of this call, its second the freshly computed
    VALUE (computing it is the effect `compute`)"""
    from pyvc.calls import add_effect
    n = st.ghost.get('keygen_calls', 0)
    st.ghost['keygen_calls'] = n + 1
    if n == 0:
        return V.entry.env['KEY']
    if n == 1:
        add_effect(V, st, 'compute', node)
        return V.entry.env['VALUE']
    from pyvc.values import Unsupported
    raise Unsupported('third next() on the key generator')


def _clock(V, st, self_val, args, kwargs, node):
    """time.time(): NOW1 when the entry is checked (before the value is computed), NOW2 when it is stored (after)"""
    computed = any(lbl == 'compute' for lbl, _ln in st.ghost.get('effect_log', ()))
    return V.entry.env['NOW2' if computed else 'NOW1']


def _replay_time_cache(inp):
    """the real decorator with a controllable clock: hit only for an equal key that has not expired, None never stored"""
    from pyvc.replay import run_real
    import jedi.cache as jc
    from jedi import settings
    now = [1000.0]

    class _T:
        @staticmethod
        def time():
            return now[0]
    real_time, jc.time = jc.time, _T
    old = settings.call_signatures_validity
    settings.call_signatures_validity = 3.0
    computed = []
    try:
        @jc.signature_time_cache('call_signatures_validity')
        def f(key, value):
            yield key
            computed.append(value)
            yield value

        def run():
            log = []
            for key, value, dt in inp['calls']:
                now[0] += dt
                log.append(f(key, value))
            return log
        out = run_real(run)
    finally:
        jc.time = real_time
        settings.call_signatures_validity = old
        jc._time_caches.pop('call_signatures_validity', None)
    # oracle: straightforward model of the documented behaviour
    store, t, exp = {}, 1000.0, []
    for key, value, dt in inp['calls']:
        t += dt
        if key in store and store[key][0] > t:
            exp.append(store[key][1])
        else:
            exp.append(value)
            if key is not None:
                store[key] = (t + 3.0, value)
    return {'EXPECTED': exp}, out


from pyvc.values import MNS as _MNS, MFn as _MFn
MNS_TIME = _MNS('time', {'time': _MFn('spec', 'time.time', spec=FnSpec('time.time', impl=_clock, assumed=True,
                                                                         note='abstract clock: NOW1 / NOW2'))})

_time_cache = Contract(
    id='C08.signature_time_cache.wrapper', prop='C08',
    clause='the time-limited signature cache returns a stored result only for an EQUAL key whose entry has not expired; '
           'otherwise the result is the one computed for this very call; a key of None is never stored (path-less '
           'buffers are never cached)',
    file='jedi/cache.py', qualname='signature_time_cache._temp.wrapper', region=_region_after_generator,
    params={'args': ANY, 'kwargs': ANY},
    free={'generator': ANY, 'dct': DictT(Opt(ANY), Tup(INT, ANY)), 'time_add_setting': STR, 'key_func': ANY,
          'KEY': Opt(ANY), 'VALUE': ANY, 'NOW1': INT, 'NOW2': INT, 'VALIDITY': INT},
    names={'next': FnSpec('next', impl=_next_of_keygen, assumed=False), 'time': MNS_TIME,
           'getattr': FnSpec('getattr(settings, name)', impl=lambda V, st, sv, a, k, n: V.entry.env['VALIDITY'],
                             assumed=True, note='the validity setting: some number')}, ret=ANY,
    ensures=[
        'implies(KEY in dct and "compute" not in EFFECTS, result == dct[KEY][1])',
        'implies(KEY not in dct, "compute" in EFFECTS and result == VALUE)',
        'implies("compute" in EFFECTS, result == VALUE)',
        'implies(KEY is None, NEW_dct == dct)',
        'implies(KEY is not None and "compute" in EFFECTS, KEY in NEW_dct and NEW_dct[KEY][1] == VALUE)',
        'implies("compute" not in EFFECTS, NEW_dct == dct)',
        # a stored entry is served exactly while it has not expired, and a new entry expires `validity` after it was made
        'implies(KEY in dct, ("compute" not in EFFECTS) == (dct[KEY][0] > NOW1))',
        'implies(KEY is not None and "compute" in EFFECTS, NEW_dct[KEY][0] == NOW2 + VALIDITY)',
    ],
    witness={}, replay=_replay_time_cache, concrete_only=True, concrete_ensures=['result == EXPECTED'],
    witness_library=[
        {'calls': [['k', 'v1', 0], ['k', 'v2', 1], ['k', 'v3', 5], ['k2', 'w', 0], ['k', 'v4', 1]]},
        {'calls': [[None, 'a', 0], [None, 'b', 0]]},
        {'calls': [['k', 'v1', 0], ['k', 'v2', 3], ['k', 'v3', 2.5], ['k', 'v4', 0.6]]},
    ],
    notes='time.time() is an abstract clock (a fresh number per call); the key function is a two-element generator',
)

# ------------------------------------------------------------------ which modules use the never-invalidated completion cache
def _replay_cached_name(inp):
    """the real Completion._complete_trailer around one module value with the given dotted name and number of names"""
    from pyvc.replay import run_real, raw_function
    from jedi.api import completion as comp

    class V:
        string_names = tuple(inp['names'])

        def is_module(self):
            return True

    class MC:
        def create_context(self, leaf):
            return None

    class Self:
        _module_context = MC()

        def _complete_trailer_for_values(self, values):
            return ['n%d' % k for k in range(inp['count'])]
    fn = raw_function(comp, 'Completion._complete_trailer', {'infer_call_of_leaf': lambda ctx, leaf: [V()]})
    out = run_real(lambda: fn(Self(), None)[0])
    return {'EXPECTED': inp['names'][0] if inp['names'] in (['numpy'], ['pandas'], ['tensorflow'], ['matplotlib']) else None}, out


_cached_name = Contract(
    id='C08.Completion._complete_trailer', prop='C08',
    clause='the process-wide completion cache (keyed by module NAME, never invalidated - known finding F9 for the packages '
           'it was made for) is switched on only for the four named third-party packages: for no other module, and in '
           'particular for no module of the project or buffer being edited, may an answer come from it',
    file='jedi/api/completion.py', qualname='Completion._complete_trailer',
    params={'self': Obj('Compl8'), 'previous_leaf': Obj('PNode')},
    families=['Compl8', 'ModCtxC8', 'ValC8', 'PNode'], ret=Tup(Opt(STR), Seq(ANY)),
    ensures=['implies(result[0] is not None, the(result[0]) in ("numpy", "tensorflow", "matplotlib", "pandas"))',
             'result[1] == self._complete_trailer_for_values(infer_call_of_leaf('
             'self._module_context.create_context(previous_leaf), previous_leaf))'],
    witness={}, replay=_replay_cached_name, concrete_only=True, concrete_ensures=['result == EXPECTED'],
    witness_library=[{'names': ['registry'], 'count': 5}, {'names': ['registry'], 'count': 1000}, {'names': ['numpy'], 'count': 5},
                     {'names': ['acme', 'numpy'], 'count': 5}, {'names': ['pandas', 'core'], 'count': 1000}],
)

CONTRACTS = [_cached_name, _scope_cache, _def_cache, _cache_node, _filter_init, _sig_key, _time_cache]


def register(reg):
    from pyvc.values import MNS, MFn, SV
    import z3 as _z3
    reg.add_family(Family('Compl8', attrs={'_module_context': Obj('ModCtxC8')}, methods={
        '_complete_trailer_for_values': FnSpec('Completion._complete_trailer_for_values', params=[('values', Seq(Obj('ValC8')))],
                                               ret=Seq(ANY), pure=True, assumed=True)}))
    reg.add_family(Family('ModCtxC8', methods={'create_context': FnSpec('ModuleContext.create_context', params=[('node', Obj('PNode'))],
                                                                       ret=ANY, pure=True, assumed=True)}))
    reg.add_family(Family('ValC8', attrs={'string_names': Seq(STR)}, note='module values completed after a dot have a dotted name (assumed; the module of a path-less buffer is not reachable as the value before a dot)', methods={
        'is_module': FnSpec('Value.is_module', ret=BOOL, pure=True)}))
    reg.names['infer_call_of_leaf'] = FnSpec('infer_call_of_leaf', params=[('context', ANY), ('leaf', Obj('PNode'))],
                                             ret=Seq(Obj('ValC8')), pure=True, assumed=True)
    reg.names['time'] = MNS('time', {'time': MFn('spec', 'time.time', spec=FnSpec(
        'time.time', params=[], ret=INT, pure=False, assumed=True, note='the clock: some number, a new one per call'))})
    reg.names['getattr'] = FnSpec('getattr(settings, name)', params=[('obj', ANY), ('name', STR)], ret=INT, pure=True,
                                  assumed=True, note='the validity setting, a number')
    reg.add_family(Family('CtxSig', methods={'get_root_context': FnSpec('Context.get_root_context', ret=Obj('RootSig'),
                                                                        pure=True, assumed=True)}))
    reg.add_family(Family('RootSig', methods={'py__file__': FnSpec('ModuleContext.py__file__', ret=Opt(ANY), pure=True,
                                                                   assumed=True)}))
    reg.add_family(Family('MatchSig', methods={'group': FnSpec('Match.group', params=[('n', INT)], defaults={'n': 0},
                                                               ret=STR, pure=True, assumed=True)}))
    reg.names['re'] = MNS('re', {
        'match': MFn('spec', 're.match', spec=FnSpec('re.match', params=[('pattern', STR), ('s', STR), ('flags', ANY)],
                                                     defaults={'flags': None}, ret=Opt(Obj('MatchSig')), pure=False,
                                                     assumed=True, note='a NEW Match object per call, or None')),
        'DOTALL': SV(ANY, _z3.Const('re.DOTALL', __import__('pyvc.types', fromlist=['AnySort']).AnySort))})
    reg.names['get_parso_cache_node'] = FnSpec(
        'get_parso_cache_node', params=[('grammar', Obj('Grammar8')), ('path', ANY)], ret=Obj('CacheItem'), pure=True,
        raises=['KeyError'], assumed=False, note='C08.get_parso_cache_node')
    reg.names['used_names_of'] = FnSpec('used_names_of', params=[('cache_node', ANY)], ret=Obj('UsedNames'), pure=True,
                                        assumed=True, note='parso: the used-names mapping of the tree a cache node holds')


# ---------------------------------------------------------------- inventory of process-global mutable state
REGISTERED_GLOBAL_STATE = {
    ('jedi/cache.py', '<module>', '_time_caches'): 'time caches: expired entries dropped at every Script construction',
    ('jedi/cache.py', '_temp', 'dct'): 'signature time cache (key contains a re.Match: never equal across calls)',
    ('jedi/cache.py', 'decorator', 'cache'): 'time_cache: environment lookup memo (10 min), not buffer state',
    ('jedi/cache.py', '<global stmt>', '_time_caches'): 'same object as above',
    ('jedi/debug.py', '<global stmt>', '_start_time'): 'debug output only',
    ('jedi/debug.py', '<global stmt>', '_debug_indent'): 'debug output only',
    ('jedi/debug.py', '<global stmt>', '_inited'): 'debug output only',
    ('jedi/parser_utils.py', '_get_parent_scope_cache', 'cache'): 'C08._get_parent_scope_cache.wrapper',
    ('jedi/api/completion_cache.py', '<module>', '_cache'): 'KNOWN FINDING F9: never invalidated',
    ('jedi/inference/docstrings.py', '<global stmt>', '_numpy_doc_string_cache'): 'class object of numpydoc, not buffer state',
    ('jedi/inference/filters.py', '<module>', '_definition_name_cache'): 'C08._get_definition_names',
    ('jedi/inference/flow_analysis.py', 'Status', 'lookup_table'): 'three constants registered at import',
    ('jedi/inference/compiled/access.py', '<module>', '_OPERATORS'): 'constant table completed at import',
    ('jedi/inference/gradual/typeshed.py', '<module>', '_version_cache'): 'bundled typeshed directory listing, not project state',
}


def structural_state(repo):
    out = []
    found = inv.global_mutable_state(repo)
    out += inv.compare(found, set(REGISTERED_GLOBAL_STATE), lambda s: (s[0], s[1], s[2]), 'frame', 'global-state',
                       'the only process-global mutable state that survives a Script is the registered set, each entry '
                       'under a coherence contract or not derived from buffers (a new module/class/closure-level '
                       'container would carry editing history from one Script to the next)',
                       'registered global state still exists')
    from pyvc.verify import find_function

    def tree(rel):
        try:
            return ast.parse(open(os.path.join(repo, rel), encoding='utf-8').read())
        except (OSError, SyntaxError):
            return None
    t = tree('jedi/api/__init__.py')
    init = find_function(t, 'Script.__init__') if t else None
    src = ast.unparse(init) if init else ''
    ok = init is not None and 'self._inference_state = InferenceState(' in src and 'cache.clear_time_caches()' in src
    # the Script's own buffer is never taken from (or written to) parso's cache by path alone
    pcalls = [n for n in ast.walk(init) if isinstance(n, ast.Call) and ast.unparse(n.func).endswith('parse_and_get_code')] \
        if init else []
    okp0, defp0, detp0 = None, False, ''
    if len(pcalls) == 1:
        kw = {k.arg: ' '.join(ast.unparse(k.value).split()) for k in pcalls[0].keywords}
        detp0 = repr(kw)
        okp0 = kw.get('cache') == 'False' and kw.get('diff_cache') == 'settings.fast_parser' and kw.get('code') == 'code'
        defp0 = kw.get('cache') is not None and kw.get('cache') != 'False'
    out.append({'id': 'script-parse-no-path-cache', 'kind': 'call-pre', 'ok': okp0, 'definite': defp0, 'detail': detp0,
                'label': 'Script parses its buffer with cache=False: the tree of a buffer is never a tree that parso '
                         'remembered for that path (only the diff parser, which compares the text, may reuse parts)'})
    out.append({'id': 'script-init', 'kind': 'frame', 'ok': ok if init else None,
                'label': 'every Script constructs a fresh InferenceState (all inference memoisation hangs off it) and '
                         'drops expired time-cache entries'})
    t2 = tree('jedi/inference/__init__.py')
    isinit = find_function(t2, 'InferenceState.__init__') if t2 else None
    s2 = ast.unparse(isinit) if isinit else ''
    need = ['self.memoize_cache = {}', 'self.module_cache = imports.ModuleCache()', 'self.stub_module_cache = {}',
            'self.compiled_cache = {}', 'self.mixed_cache = {}', 'self.access_cache = {}']
    miss = [n for n in need if n not in s2]
    out.append({'id': 'state-owned-caches', 'kind': 'frame', 'ok': (not miss) if isinit else None,
                'label': 'the inference memo tables are created per InferenceState (not shared between Scripts)',
                'detail': 'missing: %r' % miss})
    # signature cache key: None for path-less buffers, otherwise contains the re.Match object itself
    from contracts.common import structural_signature_key
    out += structural_signature_key(repo)
    # both users of the cached parent scope call it with the default include_flows
    users = []
    for rel, path in inv.py_files(repo):
        try:
            tt = inv.parse(path)
        except SyntaxError:
            continue
        for n in ast.walk(tt):
            if isinstance(n, ast.Call) and isinstance(n.func, ast.Name) and n.func.id == 'get_cached_parent_scope':
                users.append((rel, n.lineno, len(n.args), [k.arg for k in n.keywords]))
    okc = all(u[2] == 2 and not u[3] for u in users) and len(users) >= 1
    out.append({'id': 'scope-cache-callers', 'definite': True, 'kind': 'call-pre', 'ok': okc,
                'label': 'every caller of get_cached_parent_scope passes (cache node, node) only: include_flows is False '
                         'whenever the memo is consulted', 'detail': repr(users)})
    # completion cache: keyed by module NAME, never invalidated
    t4 = tree('jedi/api/completion_cache.py')
    s4 = ast.unparse(t4) if t4 else ''
    invalidates = any(w in s4 for w in ('.clear()', 'del _cache', 'mtime', 'getmtime', 'pop('))
    out.append({'id': 'completion-cache-coherent', 'definite': True, 'kind': 'frame', 'ok': bool(invalidates) if t4 else None,
                'contract': 'C08.completion_cache',
                'label': 'the completion cache for modules named numpy/tensorflow/matplotlib/pandas is invalidated when '
                         'the module text changes',
                'detail': 'process-global dict keyed by (module name, name); no invalidation found'})
    # Script's own parse: the caller's cache options reach parso unchanged
    pg = find_function(t2, 'InferenceState.parse_and_get_code') if t2 else None
    okp = None
    detail = ''
    if pg is not None:
        rets = [n for n in ast.walk(pg) if isinstance(n, ast.Return)]
        calls = [n.value.elts[0] for n in rets if isinstance(n.value, ast.Tuple) and n.value.elts
                 and isinstance(n.value.elts[0], ast.Call)]
        kw_writes = [n for n in ast.walk(pg) if (isinstance(n, ast.Subscript) and isinstance(n.ctx, (ast.Store, ast.Del))
                                                 and isinstance(n.value, ast.Name) and n.value.id == 'kwargs')
                     or (isinstance(n, ast.Name) and n.id == 'kwargs' and isinstance(n.ctx, ast.Store))
                     or (isinstance(n, ast.Call) and isinstance(n.func, ast.Attribute) and isinstance(n.func.value, ast.Name)
                         and n.func.value.id == 'kwargs' and n.func.attr in inv.MUTATING_METHODS)]
        okp = len(rets) == 1 and len(calls) == 1 and not kw_writes \
            and {k.arg: ast.unparse(k.value) for k in calls[0].keywords} == \
            {'code': 'code', 'path': 'path', 'file_io': 'file_io', None: 'kwargs'}
        detail = 'kwargs writes at lines %r' % [getattr(n, 'lineno', 0) for n in kw_writes]
    out.append({'id': 'parse-options-pass-through', 'definite': True, 'kind': 'call-pre', 'ok': okp,
                'label': 'parse_and_get_code hands the caller\'s parser-cache options (cache, diff_cache, cache_path) '
                         'to parso unchanged: whether a tree is entered into parso\'s cache is decided by the caller '
                         'alone (Script: diff_cache=settings.fast_parser)', 'detail': detail})
    # process-global settings are only switched temporarily
    sw = inv.temporary_global_switches(repo)
    bad = [x for x in sw if not x[4]]
    out.append({'id': 'settings-switches-restored', 'definite': True, 'kind': 'frame', 'ok': not bad,
                'label': 'every function that switches a jedi.settings attribute restores the saved value before every '
                         'exit it writes down (a leaked switch changes the answers of all later Scripts of the process)',
                'detail': 'sites: %r' % (sw,)})
    return out


def _standin(repo, seed, tier):
    from pyvc.standin import run_standin
    return run_standin('C08', tier, seed, repo)


_standin.tiers = ('quick', 'thorough')
BOUNDED = [_standin]
STRUCTURAL = [structural_state]
NOT_DECIDED = ['parso\'s in-place tree mutation vs. Names still held by an older Script (documented unsupported upstream)',
               'diff-parser correctness (excluded by the property)', 'signature_time_cache / memoize_method wrappers: contracts pending']
TRUSTED = ['parso replaces the cache node of a path on every re-parse and a cache node is tied to one tree version',
           'get_parent_scope and is_definition are pure functions of the tree']


def dynamic_contracts(repo):
    """the text that is parsed is the text given or the file as it is now (contract shared: contracts/load.py)"""
    from contracts import load
    return [load.parse_and_get_code]
