"""C09 — Changes to project files on disk are always seen (jedi's own obligations; the deciding mtime
logic lives in parso / importlib and is assumed)."""
import ast
import os
from pyvc.api import *
from pyvc import inventory as inv
from contracts import c08 as _c08
from contracts import c12 as _c12
from contracts import load as _loading

SPEC_IMPORTS = ['contracts.common', 'contracts.c20', 'contracts.c12', 'contracts.c08', 'contracts.load']
SPEC_FUNCTIONS = []

_NAMES = Seq(STR)

_mc_add = Contract(
    id='C09.ModuleCache.add', prop='C09',
    clause='import results are memoised only in a map owned by the per-Script inference state',
    file='jedi/inference/imports.py', qualname='ModuleCache.add',
    params={'self': Obj('ModuleCache'), 'string_names': Opt(_NAMES), 'value_set': ANY},
    families=['ModuleCache'],
    ensures=['implies(string_names is None, self._name_cache == old(self._name_cache))',
             'implies(string_names is not None, string_names in self._name_cache '
             'and self._name_cache[string_names] == value_set)'],
)
_mc_get = Contract(
    id='C09.ModuleCache.get', prop='C09', clause='lookup returns the stored result of this state only, else None',
    file='jedi/inference/imports.py', qualname='ModuleCache.get',
    params={'self': Obj('ModuleCache'), 'string_names': _NAMES}, families=['ModuleCache'], ret=Opt(ANY),
    ensures=['implies(string_names not in self._name_cache, result is None)',
             'implies(string_names in self._name_cache, result == self._name_cache[string_names])'],
)

FAMILIES = [
    Family('ModuleCache', fields={'_name_cache': DictT(_NAMES, ANY)}),
    Family('FileIO9', attrs={'path': ANY, '_zip_path': ANY}),
]


def register(reg):
    from pyvc.values import MNS, MFn
    osn = reg.names['os']
    osn.members['path'].members['getmtime'] = MFn('spec', 'os.path.getmtime', spec=FnSpec(
        'os.path.getmtime', params=[('p', ANY)], ret=ANY, pure=True, assumed=True,
        raises=[('FileNotFoundError', 'not file_exists(p)')], ensures=['file_exists(p)']))
    reg.names['mtime_of'] = FnSpec('os.path.getmtime', params=[('p', ANY)], ret=ANY, pure=True, assumed=True)
    reg.names['file_exists'] = FnSpec('file_exists', params=[('p', ANY)], ret=BOOL, pure=True, assumed=True,
                                      note='ghost: the path exists at the time of the call')

CONTRACTS = [_mc_add, _mc_get, _c12._get_module_info, _c08._sig_key, _loading.load_python_module, _loading.parse_and_get_code]


def _replay_mtime(inp):
    """a real file whose modification time has a fractional part (what parso's cache compares)"""
    import tempfile
    import zipfile
    from pyvc.replay import run_real
    import jedi.file_io as fio
    d = tempfile.mkdtemp(prefix='mtime_', dir='/var/tmp')
    try:
        target = os.path.join(d, 'm.py')
        with open(target, 'w') as f:
            f.write('x = 1\n')
        os.utime(target, (1000000000.75, 1000000000.75))
        cls = getattr(fio, inp['cls'])
        if inp['cls'] == 'ZipFileIO':
            obj = cls(os.path.join(target, 'inner.py'), b'', target)
        elif inp['cls'] == 'KnownContentFileIO':
            obj = cls(target, 'x = 1\n')
        else:
            obj = cls(target)
        out = run_real(lambda: obj.get_last_modified())
        exp = os.path.getmtime(target)
        import types
        return {'expected_mtime': exp, 'self': types.SimpleNamespace(path=target, _zip_path=target),
                'file_exists': lambda p: True, 'mtime_of': lambda p: exp}, out
    finally:
        import shutil
        shutil.rmtree(d, ignore_errors=True)


def dynamic_contracts(repo):
    """one contract per get_last_modified definition reachable from the classes of jedi/file_io.py (today: only
    ZipFileIO overrides parso's); module-level helpers of the file are inlined"""
    out = []
    try:
        t = ast.parse(open(os.path.join(repo, 'jedi/file_io.py'), encoding='utf-8').read())
    except (OSError, SyntaxError):
        return out
    helpers = [s.name for s in t.body if isinstance(s, ast.FunctionDef)]
    for cls in [s for s in t.body if isinstance(s, ast.ClassDef)]:
        for fn in [s for s in cls.body if isinstance(s, ast.FunctionDef) and s.name == 'get_last_modified']:
            src = ast.unparse(fn)
            attr = '_zip_path' if '_zip_path' in src and cls.name == 'ZipFileIO' else 'path'
            # concrete classes that inherit this definition (for the replay)
            concrete = cls.name
            if cls.name not in ('ZipFileIO', 'FileIO', 'KnownContentFileIO'):
                concrete = 'FileIO'
            out.append(Contract(
                id='C09.%s.get_last_modified' % cls.name, prop='C09',
                clause='the timestamp handed to parso\'s cache is exactly the file system\'s modification time of '
                       'the file (None iff the file does not exist): no rounding, no remembered value',
                file='jedi/file_io.py', qualname='%s.get_last_modified' % cls.name,
                params={'self': Obj('FileIO9')}, families=['FileIO9'], ret=Opt(ANY), inline=helpers,
                ensures=['implies(file_exists(self.%s), result is not None and result == mtime_of(self.%s))' % (attr, attr),
                         'implies(not file_exists(self.%s), result is None)' % attr],
                witness={}, replay=_replay_mtime, witness_library=[{'cls': concrete}],
                concrete_ensures=['result == expected_mtime'],
                notes='os.path.getmtime assumed: raises FileNotFoundError iff the file does not exist, else a pure '
                      'function of the path at the time of the call',
            ))
    return out


def structural_freshness(repo):
    out = []
    from pyvc.verify import find_function

    def tree(rel):
        try:
            return ast.parse(open(os.path.join(repo, rel), encoding='utf-8').read())
        except (OSError, SyntaxError):
            return None

    def norm(node):
        return ' '.join(ast.unparse(node).split()) if node is not None else ''
    t = tree('jedi/inference/imports.py')
    lp = find_function(t, '_load_python_module') if t else None
    s = norm(lp)
    parse_calls = []
    if lp is not None:
        for n in ast.walk(lp):
            if isinstance(n, ast.Call) and isinstance(n.func, ast.Attribute) and n.func.attr == 'parse':
                parse_calls.append({k.arg: ast.unparse(k.value) for k in n.keywords})
    # whatever the caching options are, the parse must be given the file_io (not a remembered text or a bare path)
    ok = lp is not None and len(parse_calls) == 1 and parse_calls[0].get('file_io') == 'file_io' \
        and 'code' not in parse_calls[0] \
        and 'code_lines=get_cached_code_lines(inference_state.grammar, file_io.path)' in s
    out.append({'id': 'parse-with-file-io', 'kind': 'call-pre', 'ok': ok if lp else None,
                'label': 'imported modules are parsed through parso\'s cache WITH the file_io (so parso can compare '
                         'modification times), and the module\'s code lines come from the cache entry of that parse'})
    t2 = tree('jedi/inference/__init__.py')
    pg = find_function(t2, 'InferenceState.parse_and_get_code') if t2 else None
    s2 = norm(pg)
    ok2 = pg is not None and 'file_io = FileIO(path)' in s2 and 'code = file_io.read()' in s2
    out.append({'id': 'read-from-disk', 'kind': 'call-pre', 'ok': ok2 if pg else None,
                'label': 'parse_and_get_code reads the file from disk when no code is given (never a remembered text)'})
    t3 = tree('jedi/inference/gradual/typeshed.py')
    w = find_function(t3, 'import_module_decorator.wrapper') if t3 else None
    s3 = norm(w)
    ok3 = w is not None and 'python_value_set = inference_state.module_cache.get(import_names)' in s3 \
        and 'inference_state.module_cache.add(import_names, python_value_set)' in s3
    ts = find_function(t3, 'try_to_load_stub_cached') if t3 else None
    s4 = norm(ts)
    ok4 = ts is not None and 'inference_state.stub_module_cache[import_names]' in s4
    out.append({'id': 'import-memo-per-state', 'kind': 'frame', 'ok': (ok3 and ok4) if (w and ts) else None,
                'label': 'module lookup is redone per Script: the import memo and the stub memo consulted by the import '
                         'machinery are fields of the inference state'})
    t5 = tree('jedi/inference/__init__.py')
    isinit = find_function(t5, 'InferenceState.__init__') if t5 else None
    s5 = norm(isinit)
    ok5 = isinit is not None and 'self.module_cache = imports.ModuleCache()' in s5 and 'self.stub_module_cache = {}' in s5
    out.append({'id': 'fresh-module-cache', 'kind': 'frame', 'ok': ok5 if isinit else None,
                'label': 'each InferenceState starts with an empty module cache and stub cache'})
    found = inv.global_mutable_state(repo)
    out += inv.compare(found, set(_c08.REGISTERED_GLOBAL_STATE), lambda x: (x[0], x[1], x[2]), 'frame', 'global-state',
                       'no process-global store other than the registered ones can keep a module lookup or a parsed '
                       'file alive across Scripts', 'registered global state still exists')
    t6 = tree('jedi/api/completion_cache.py')
    s6 = ast.unparse(t6) if t6 else ''
    invalidates = any(w_ in s6 for w_ in ('.clear()', 'del _cache', 'mtime', 'getmtime', 'pop('))
    out.append({'id': 'completion-cache-coherent', 'definite': True, 'kind': 'frame', 'ok': bool(invalidates) if t6 else None,
                'contract': 'C09.completion_cache',
                'label': 'the completion cache for modules named numpy/tensorflow/matplotlib/pandas is invalidated when '
                         'the module file changes on disk',
                'detail': 'process-global dict keyed by (module name, name); no invalidation found'})
    return out


def _standin(repo, seed, tier):
    from pyvc.standin import run_standin
    return run_standin('C09', tier, seed, repo)


_standin.tiers = ('quick', 'thorough')
BOUNDED = [_standin]

from contracts.common import structural_signature_key as _sigkey
STRUCTURAL = [structural_freshness, _sigkey]
NOT_DECIDED = [
    'parso.cache.load_module mtime comparison and pickle handling (dependency: assumed to return a fresh tree when '
    'the file is newer than the cache entry)',
    'importlib FileFinder directory-listing cache inside the long-lived helper (no importlib.invalidate_caches() '
    'before lookups; staleness window = directory mtime granularity; not reproducible here: 0 misses in 300 trials)',
    'same-tick rewrites, pickles written by other processes',
]
TRUSTED = ['parso revalidates a cached module against the file\'s modification time when given the file_io',
           'importlib finders']
