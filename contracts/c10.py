"""C10 — Import statements resolve to what Python's import system would load (kernel: the
arithmetic and ordering jedi adds around importlib)."""
from pyvc.api import *
from pyvc.spec import callee_of

SPEC_IMPORTS = ['contracts.common', 'contracts.c20']
SPEC_FUNCTIONS = ['path_join_parts', 'resolve_name_spec', 'gcd_import_spec']


def path_join_parts(p, parts):
    """os.path.join(p, *parts) for a sys.path entry p and non-empty relative parts"""
    if p.endswith('/'):
        return p + '/'.join(parts)
    return p + '/' + '/'.join(parts)


def resolve_name_spec(base, level, name):
    """importlib._bootstrap._resolve_name on name sequences: package.rsplit('.', level-1)[0] + '.' + name"""
    return base[:len(base) - level + 1] + name


def gcd_import_spec(inference_state, import_names, parent_module_value, sys_path):
    """importlib._bootstrap._gcd_import / _find_and_load for ONE dotted name whose parent is already imported:
    top-level names are looked up globally (sys.path), sub-modules only on the parent's __path__ (no __path__: the
    parent is not a package, ModuleNotFoundError); what is loaded is what the finder reports"""
    if parent_module_value is None:
        found = inference_state.compiled_subprocess.get_module_info(
            string=import_names[-1], full_name='.'.join(import_names), sys_path=sys_path, is_global_search=True)
    else:
        paths = parent_module_value.py__path__()
        if paths is None:
            return NO_VALUES
        found = inference_state.compiled_subprocess.get_module_info(
            string=import_names[-1], full_name='.'.join(import_names), path=paths, is_global_search=False)
    if found[1] is None:
        return NO_VALUES
    if isinstance(found[0], ImplicitNSInfo):
        return ValueSet([ImplicitNamespaceValue(inference_state, tuple(found[0].name.split('.')), found[0].paths)])
    if found[0] is None:
        module = _load_builtin_module(inference_state, import_names, sys_path)
        if module is None:
            return NO_VALUES
        return ValueSet([module])
    return ValueSet([_load_python_module(inference_state, found[0], import_names, found[1])])


def _replay_iter(inp):
    from pyvc.replay import run_real
    from pathlib import Path
    from jedi.inference.sys_path import transform_path_to_dotted
    sp = list(inp['sys_path'])
    mp = Path(inp['module_path'])
    out = run_real(lambda: transform_path_to_dotted(sp, mp))
    env = {'sys_path': sp, 'module_path': mp}
    return env, out


_iter_solutions = Contract(
    id='C10.transform_path_to_dotted.iter_potential_solutions', prop='C10',
    clause='the dotted name derived for a file imports back to that file: every candidate name, joined to the '
           'sys.path entry it was derived from, is the path of the module (directory prefix, not string prefix)',
    file='jedi/inference/sys_path.py', qualname='transform_path_to_dotted.iter_potential_solutions',
    params={}, free={'sys_path': Seq(STR), 'module_path': PATH},
    yields=Seq(STR), requires=['valid_path(module_path)'],
    invariants={0: ['True']},
    yield_each_local=[
        # witness semantics: for every yielded c there are p in sys_path and split with ...
        'path_join_parts(p, split) == str(module_path)',
        'len(split) >= 1 and all(len(s) > 0 for s in split)',
        'len(c) == len(split)',
    ],
    concrete_ensures=[
        'implies(result[0] is not None, any(path_join_parts(p, [x for x in result[0]]) in '
        '(str(module_path.with_suffix("")), str(module_path.with_suffix("").parent)) '
        'or "-stubs" in str(module_path) for p in sys_path))',
    ],
    witness={'sys_path': 'sys_path', 'module_path': 'module_path'},
    replay=_replay_iter,
    witness_library=[
        {'sys_path': ['/a/foo'], 'module_path': '/a/foobar/x.py'},
        {'sys_path': ['/a/foo'], 'module_path': '/a/foo/bar/x.py'},
        {'sys_path': ['/a/foo/'], 'module_path': '/a/foo/bar/__init__.py'},
        {'sys_path': ['/a', '/a/foo'], 'module_path': '/a/foo/x.py'},
    ],
    notes='os.path.sep modelled as "/" (POSIX); str.split/join assumed inverse; regex -stubs$ removal is a pure callee',
)

def dotted_name_oracle(sys_path, module_path):
    """independent statement of the clause with pathlib: the dotted name of a file relative to the sys.path entries that
    are its parent directories, shortest first (executable; used by the replay only)"""
    import re as _re
    from importlib.machinery import all_suffixes
    from pathlib import PurePosixPath
    mp = PurePosixPath(str(module_path))
    name = mp.name
    for suf in sorted(all_suffixes() + ['.pyi'], key=len, reverse=True):
        if name.endswith(suf):
            name = name[:-len(suf)]
            break
    if name.startswith('.'):
        return (None, False)
    is_pkg = name == '__init__'
    target = mp.parent if is_pkg else mp.parent / name
    cands = []
    for p in sys_path:
        try:
            rel = target.relative_to(PurePosixPath(p))
        except ValueError:
            continue
        if rel.parts:
            cands.append(tuple(_re.sub(r'-stubs$', '', x) for x in rel.parts))
    if not cands:
        return (None, False)
    return (min(cands, key=len), is_pkg)


def _replay_transform(inp):
    from pyvc.replay import run_real
    from pathlib import Path
    from jedi.inference.sys_path import transform_path_to_dotted
    sp = list(inp['sys_path'])
    mp = Path(inp['module_path'])
    out = run_real(lambda: transform_path_to_dotted(sp, mp))
    return {'sys_path': sp, 'module_path': mp, 'ORACLE': dotted_name_oracle(sp, mp)}, out


_SOLS = FnSpec('iter_potential_solutions', params=[], ret=Seq(Seq(STR)), pure=True, assumed=False,
               note='C10.transform_path_to_dotted.iter_potential_solutions (generator under contract)')

_transform = Contract(
    id='C10.transform_path_to_dotted', prop='C10',
    clause='file path -> dotted name: hidden files have none; otherwise the result is one of the candidate names (each '
           'of which imports back to the file), a shortest one; it is flagged a package exactly for __init__ files; no '
           'candidate => (None, False)',
    file='jedi/inference/sys_path.py', qualname='transform_path_to_dotted',
    params={'sys_path': Seq(STR), 'module_path': PATH}, ret=Tup(Opt(Seq(STR)), BOOL),
    requires=['valid_path(module_path)'],
    ensures=[
        'implies(result[0] is not None, the(result[0]) in iter_potential_solutions())',
        'implies(result[0] is not None, all(len(the(result[0])) <= len(s) for s in iter_potential_solutions()))',
        'implies(result[0] is None, not result[1])',
        'implies(result[0] is not None, result[1] == (remove_python_path_suffix(module_path).name == "__init__"))',
        'implies(len(iter_potential_solutions()) > 0 and not remove_python_path_suffix(module_path).name.startswith("."), result[0] is not None)',
    ],
    abstract_locals={'iter_potential_solutions': _SOLS}, names={'iter_potential_solutions': _SOLS},
    concrete_ensures=['result[0] == ORACLE[0]', 'result[1] == ORACLE[1]'],
    witness={'sys_path': 'sys_path', 'module_path': 'module_path'}, replay=_replay_transform, concrete_only=True,
    witness_library=[{'sys_path': sp, 'module_path': mp}
                     for sp in (['/a'], ['/a/'], ['/a', '/a/pk'], ['/a/pk', '/a'], ['/a/p'], ['/'], ['/b'], ['/a/pk-stubs'])
                     for mp in ('/a/pk/mod.py', '/a/pk/__init__.py', '/a/pk/sub/__init__.pyi', '/a/pk/.hidden.py',
                                '/a/pk-stubs/x.pyi', '/a/mod.py', '/a/pk/sub/deep/m.py')],
    notes='the nested generator is an abstract callee here (its own contract carries the imports-back clause); '
          'iter_potential_solutions() names the sequence it yields',
)

_remove_suffix_spec = FnSpec('remove_python_path_suffix', params=[('path', PATH)], ret=PATH, pure=True, assumed=False)

_importer_init = Contract(
    id='C10.Importer.__init__', prop='C10',
    clause='relative import level rewriting equals importlib._resolve_name: level 0 keeps the path; '
           '0 < level <= len(package) prepends package[:len-level+1]',
    file='jedi/inference/imports.py', qualname='Importer.__init__',
    params={'self': Obj('Importer'), 'inference_state': Obj('InfState10'), 'import_path': Seq(ANY),
            'module_context': Obj('ModCtx'), 'level': INT},
    families=['Importer', 'InfState10', 'ModCtx', 'ModVal', 'Project10'],
    requires=['level >= 0'],
    ensures=[
        'self.level == level',
        'implies(level == 0, self.import_path == import_path and self._fixed_sys_path is None '
        'and self._infer_possible)',
        'implies(0 < level and level <= len(module_context.get_value().py__package__()), '
        'self.import_path == resolve_name_spec(module_context.get_value().py__package__(), level, import_path) '
        'and self._fixed_sys_path is None and self._infer_possible)',
        # beyond the top-level package Python raises; jedi guesses: only its safety flag is specified
        'implies(level > len(module_context.get_value().py__package__()), '
        'self._infer_possible == (level_base(inference_state.project.path, '
        'dirname_or(module_context.py__file__(), inference_state.project.path), level)[1] is not None))',
    ],
    notes='heuristic branch (level > len(package)): Python raises ImportError there; only _infer_possible is specified',
)


def _replay_prepare(inp):
    """`from . import x` / `from pk import x` in a package: the imported name must be looked up as an attribute of the
    from-part first (Python's IMPORT_FROM), so _prepare_infer_import has to split it off"""
    from pyvc.replay import run_real
    import parso
    from jedi.inference import imports as imp
    code = inp.get('code', 'from . import x\n')
    module = parso.parse(code)
    name = module.get_last_leaf().get_previous_leaf()
    while name.type != 'name':
        name = name.get_previous_leaf()
    seen = {}

    class _Imp:
        def __init__(self, inference_state, import_path, module_context, level=0):
            seen['import_path'] = tuple(getattr(n, 'value', n) for n in import_path)
            seen['level'] = level

        def follow(self):
            return 'FOLLOWED'

    class _Ctx:
        inference_state = None
    real = imp.Importer
    imp.Importer = _Imp
    try:
        out = run_real(lambda: imp._prepare_infer_import(_Ctx(), name))
    finally:
        imp.Importer = real
    if out['kind'] == 'return':
        fin, ipath, level, values = out['value']
        out['value'] = (getattr(fin, 'value', fin), tuple(getattr(n, 'value', n) for n in ipath), level, values)
    node = name.search_ancestor('import_name', 'import_from')
    env = {'PATH': [n.value for n in node.get_path_for_name(name)],
           'FROM': [n.value for n in node.get_from_names()] if node.type == 'import_from' else None,
           'IS_FROM': node.type == 'import_from', 'LEVEL': node.level, 'SEEN': seen}
    return env, out


_prepare = Contract(
    id='C10._prepare_infer_import', prop='C10',
    clause='from-import prefers an attribute of the package, then a sub-module: for `from <pkg> import <name>` (any '
           'level, also with an empty from-part as in `from . import x`) the imported name is split off and only the '
           'from-part is imported; every other name of an import statement is imported by its full dotted path; the '
           'values are those of the importer for exactly that path and level',
    file='jedi/inference/imports.py', qualname='_prepare_infer_import',
    params={'module_context': Obj('ModCtx'), 'tree_name': Obj('PNode')},
    families=['ModCtx', 'PNode', 'ImportNode', 'ImporterV', 'InfState10', 'VS10'],
    ret=Tup(Opt(ANY), Seq(ANY), INT, Obj('VS10')),
    ensures=[
        'implies(tree_name.search_ancestor("import_name", "import_from").type == "import_from" and '
        'len(tree_name.search_ancestor("import_name", "import_from").get_from_names()) + 1 == len(tree_name.search_ancestor("import_name", "import_from").get_path_for_name(tree_name)), '
        'result[0] is not None and result[0] == tree_name.search_ancestor("import_name", "import_from").get_path_for_name(tree_name)[-1] '
        'and result[1] == tree_name.search_ancestor("import_name", "import_from").get_from_names())',
        'implies(not (tree_name.search_ancestor("import_name", "import_from").type == "import_from" and '
        'len(tree_name.search_ancestor("import_name", "import_from").get_from_names()) + 1 == len(tree_name.search_ancestor("import_name", "import_from").get_path_for_name(tree_name))), '
        'result[0] is None and result[1] == tree_name.search_ancestor("import_name", "import_from").get_path_for_name(tree_name))',
        'result[2] == tree_name.search_ancestor("import_name", "import_from").level',
        'result[3] == Importer(module_context.inference_state, result[1], module_context, result[2]).follow()',
    ],
    concrete_ensures=[
        'implies(IS_FROM and len(FROM) + 1 == len(PATH), result[0] == PATH[-1] and list(result[1]) == FROM)',
        'implies(not (IS_FROM and len(FROM) + 1 == len(PATH)), result[0] is None and list(result[1]) == PATH)',
        'result[2] == LEVEL and SEEN["level"] == LEVEL and SEEN["import_path"] == result[1]',
        'result[3] == "FOLLOWED"',
    ],
    witness={}, replay=_replay_prepare, concrete_only=True,
    witness_library=[{'code': 'from . import x\n'}, {'code': 'from .. import x\n'}, {'code': 'from pk import x\n'},
                     {'code': 'from pk.sub import x as y\n'}, {'code': 'import pk.sub\n'},
                     {'code': 'from .pk import (a, x)\n'}],
    notes='parso import nodes are abstract (get_path_for_name / get_from_names / level assumed pure; get_from_names '
          'exists on import_from only); Importer(...).follow() is an abstract function of (state, path, context, level)',
)

def _replay_import_module(inp):
    """the real import_module (decorators removed: stub layering and plugins are outside the property) with a recording
    finder and recording loaders; `inp` programs the finder's answer"""
    from pyvc.replay import run_real, raw_function
    from jedi.inference import imports as imp
    from jedi.inference.compiled.subprocess.functions import ImplicitNSInfo
    calls = []

    class _FileIO:
        path = '/x/found.py'

    answer = {'file': (_FileIO(), False), 'package': (_FileIO(), True), 'missing': (None, None),
              'builtin': (None, False), 'namespace': (ImplicitNSInfo('a.ns', ['/p1/a/ns', '/p2/a/ns']), False)}[inp['answer']]

    class _Sub:
        def get_module_info(self, **kw):
            calls.append(kw)
            return answer

    class _IS:
        compiled_subprocess = _Sub()

    class _Parent:
        def py__path__(self):
            return inp.get('parent_paths')

    fakes = {
        '_load_python_module': lambda inference_state, file_io, import_names=None, is_package=False:
            ('python', file_io, tuple(import_names), is_package),
        '_load_builtin_module': lambda inference_state, import_names, sys_path:
            None if inp.get('builtin_fails') else ('builtin', tuple(import_names), sys_path),
        'ValueSet': lambda it: ('set', list(it)),
        'NO_VALUES': ('set', []),
    }
    import jedi.inference.value.namespace as nsmod
    real_ns = nsmod.ImplicitNamespaceValue
    nsmod.ImplicitNamespaceValue = lambda inference_state, string_names, paths: ('namespace', tuple(string_names), list(paths))
    try:
        fn = raw_function(imp, 'import_module', fakes)
        names = tuple(inp['names'])
        parent = _Parent() if inp.get('parent') else None
        sp = inp.get('sys_path', ['/sp1', '/sp2'])
        out = run_real(lambda: fn(_IS(), names, parent, sp))
    finally:
        nsmod.ImplicitNamespaceValue = real_ns
    exp_call = None
    if parent is None:
        exp_call = {'string': names[-1], 'full_name': '.'.join(names), 'sys_path': sp, 'is_global_search': True}
    elif inp.get('parent_paths') is not None:
        exp_call = {'string': names[-1], 'full_name': '.'.join(names), 'path': inp['parent_paths'],
                    'is_global_search': False}
    if exp_call is None or inp['answer'] == 'missing':
        exp = ('set', [])
    elif inp['answer'] == 'namespace':
        exp = ('set', [('namespace', ('a', 'ns'), ['/p1/a/ns', '/p2/a/ns'])])
    elif inp['answer'] == 'builtin':
        exp = ('set', []) if inp.get('builtin_fails') else ('set', [('builtin', names, sp)])
    else:
        exp = ('set', [('python', answer[0], names, answer[1])])
    norm = [{k: v for k, v in c.items() if not (k in ('sys_path', 'path') and v is None)} for c in calls]
    return {'CALLS': norm, 'EXPECTED_CALLS': [] if exp_call is None else [exp_call], 'EXPECTED': exp}, out


_IM_LIB = [dict(names=n, parent=p, parent_paths=pp, answer=a, builtin_fails=b)
           for (n, p, pp) in ((['top'], False, None), (['a', 'b'], True, ['/p/a']), (['a', 'b'], True, None),
                              (['a', 'b', 'c'], True, ['/p/a/b', '/q/a/b']))
           for a in ('file', 'package', 'missing', 'builtin', 'namespace')
           for b in ((False, True) if a == 'builtin' else (False,))]

def _replay_py33(inp):
    """a package directory that lacks the sub-module, whose name is importable at top level of the interpreter: the
    sub-module lookup (path given) must fail like Python's does"""
    from pyvc.replay import run_real
    import tempfile
    import shutil
    import os as _os
    from jedi.inference.compiled.subprocess import functions as fn
    d = tempfile.mkdtemp(prefix='c10py33_', dir='/var/tmp')
    try:
        _os.makedirs(_os.path.join(d, 'pkg'))
        open(_os.path.join(d, 'pkg', '__init__.py'), 'w').close()
        open(_os.path.join(d, 'pkg', 'present.py'), 'w').close()
        path = None if inp['path_none'] else [_os.path.join(d, 'pkg')]
        out = run_real(lambda: fn._find_module(inp['name'], path, full_name=inp['name'] if path is None else 'pkg.' + inp['name'],
                                               is_global_search=path is None))
        if out['kind'] == 'return':
            out['value'] = 'found'
        elif out['cls'][0] == 'ImportError':
            out = {'kind': 'return', 'value': 'ImportError'}
        return {'EXPECT_FOUND': inp['found']}, out
    finally:
        shutil.rmtree(d, ignore_errors=True)


_py33 = Contract(
    id='C10._find_module_py33', prop='C10',
    clause='a sub-module is looked up on the __path__ of its parent ONLY: the interpreter-wide fallback lookup '
           '(importlib.util.find_spec by bare name, meant for builtin top-level modules) is never consulted when a search '
           'path was given; no loader => ImportError (the import fails, as in Python)',
    file='jedi/inference/compiled/subprocess/functions.py', qualname='_find_module_py33',
    params={'string': STR, 'path': Opt(Seq(STR)), 'loader': Opt(Obj('Loader10')), 'full_name': ANY,
            'is_global_search': BOOL},
    families=['Loader10', 'Spec10'], ret=ANY,
    effects_allowed=['path-lookup'], effect_guard={'interpreter-wide-lookup': 'path is None'},
    raises={'ImportError': None},
    ensures=['implies(path is not None and loader is None and (path_finder_spec(string, path) is None or '
             'the(path_finder_spec(string, path)).loader is None), False)'],
    witness={}, replay=_replay_py33, concrete_only=True,
    witness_library=[{'name': 'textwrap', 'path_none': False, 'found': False},
                     {'name': 'json', 'path_none': False, 'found': False},
                     {'name': 'present', 'path_none': False, 'found': True},
                     {'name': 'textwrap', 'path_none': True, 'found': True}],
    concrete_ensures=['(result == "found") == EXPECT_FOUND'],
    notes='importlib finders are abstract; the normal-exit clause says: with a search path and no loader from the path '
          'finder there is no normal exit',
)

_STAR_IMPORTER = FnSpec('StarImporter', params=[('inference_state', Obj('InfState10')), ('import_path', Seq(ANY)),
                                                ('module_context', Obj('CtxS')), ('level', INT)],
                        ret=Obj('StarImp'), pure=True, assumed=False)
_FOLLOW_G = 'StarImporter(self.inference_state, gi.get_paths()[-1], self.as_context(), gi.level).follow()'


def _replay_star(inp):
    """the real ModuleMixin.star_imports (memoisation removed) on a module with two star imports whose targets have
    different dotted names; the imported modules take over further modules"""
    from pyvc.replay import run_real, raw_function
    from jedi.inference.value import module as modmod
    from jedi.inference import imports as imp

    class _N:
        def __init__(self, s):
            self.string_name = s

    class FakeMod(modmod.ModuleValue):
        def __init__(self, dotted, stars=()):
            self.dotted, self._stars = dotted, list(stars)

        @property
        def name(self):
            return _N(self.dotted.split('.')[-1])

        def star_imports(self):
            return list(self._stars)

        def __repr__(self):
            return '<%s>' % self.dotted

        __hash__ = object.__hash__

        def __eq__(self, other):
            return self is other
    mods = {d: FakeMod(d) for d in inp['all']}
    for d, stars in inp.get('stars', {}).items():
        mods[d]._stars = [mods[x] for x in stars]

    class FakeImport:
        level = 0

        def __init__(self, target):
            self.target = target

        def is_star_import(self):
            return True

        def get_paths(self):
            return [[self.target]]

    class FakeTree:
        def iter_imports(self):
            return [FakeImport(t) for t in inp['targets']]

    class FakeImporter:
        def __init__(self, inference_state, import_path, module_context, level=0):
            self.p = import_path

        def follow(self):
            return [mods[self.p[0]]] if not isinstance(self.p, str) else [mods[self.p]]

    class Self:
        inference_state = None
        tree_node = FakeTree()

        def as_context(self):
            return None
    real = imp.Importer
    imp.Importer = FakeImporter
    try:
        fn = raw_function(modmod, 'ModuleMixin.star_imports')
        out = run_real(lambda: sorted(m.dotted for m in fn(Self())))
    finally:
        imp.Importer = real
    need = set(inp['targets'])
    for t in inp['targets']:
        need |= set(inp.get('stars', {}).get(t, []))
    return {'NEEDED': sorted(need)}, out


_STAR_LIB = [
    {'all': ['a.util', 'b.util'], 'targets': ['a.util', 'b.util']},
    {'all': ['a', 'b', 'x.core', 'y.core'], 'targets': ['a', 'b'], 'stars': {'a': ['x.core'], 'b': ['y.core']}},
    {'all': ['m', 'n'], 'targets': ['m', 'n'], 'stars': {'m': ['n']}},
]


def _star_contract(which):
    direct = which == 'direct'
    c = Contract(
        id='C10.ModuleMixin.star_imports.' + which, prop='C10',
        clause='star imports: the modules whose names a module takes over with `from m import *` are ALL the modules '
               'its star-import statements resolve to' + ('' if direct else ', plus ALL the modules those take over in turn') +
               ' - none is dropped, whatever their names (gi, gm, gx: universally quantified statement / module / module)',
        file='jedi/inference/value/module.py', qualname='ModuleMixin.star_imports',
        params={'self': Obj('ModS')}, families=['ModS', 'ModNodeS', 'ImpS', 'StarImp', 'InfState10', 'CtxS'],
        ret=Seq(Obj('ModS')), ghost={'gi': Obj('ImpS'), 'gm': Obj('ModS'), 'gx': Obj('ModS')},
        locals={'modules': Seq(Obj('ModS'))}, names={'Importer': _STAR_IMPORTER},
        requires=['all(len(i.get_paths()) >= 1 for i in self.tree_node.iter_imports())'],
        loop_each={0: ['len(ITEM.get_paths()) >= 1']},
        invariants={
            0: ['implies(gi in DONE and gi.is_star_import() and gm in %s, gm in modules)' % _FOLLOW_G] if direct else
               ['implies(gi in DONE and gi.is_star_import() and gm in %s and isinstance(gm, ModuleValue) and '
                'gx in gm.star_imports(), gx in modules)' % _FOLLOW_G],
            1: ['implies(gm in PRE_modules, gm in modules)', 'implies(gx in PRE_modules, gx in modules)'] +
               ([] if direct else ['implies(gm in DONE and isinstance(gm, ModuleValue) and gx in gm.star_imports(), '
                                   'gx in modules)']),
        },
        ensures=['implies(gi in self.tree_node.iter_imports() and gi.is_star_import() and gm in %s, gm in result)' % _FOLLOW_G]
        if direct else
        ['implies(gi in self.tree_node.iter_imports() and gi.is_star_import() and gm in %s and '
         'isinstance(gm, ModuleValue) and gx in gm.star_imports(), gx in result)' % _FOLLOW_G],
        notes='Importer(...).follow() and the star imports of the imported modules are abstract (pure) - the contract is '
              'the closure step; the memoisation decorator (default []) is the recursion cut registered under C15',
        witness={}, replay=_replay_star, concrete_only=True, witness_library=_STAR_LIB,
        concrete_ensures=['all(d in result for d in NEEDED)'],
    )
    return c


_star = _star_contract('direct')
_star2 = _star_contract('transitive')

_IS10 = Obj('IS10')

_import_module10 = Contract(
    id='C10.import_module', prop='C10',
    clause='module discovery is delegated to the finders of the target interpreter with the arguments of Python\'s '
           '_gcd_import: a top-level name is searched globally on the given sys.path by its last component and full '
           'dotted name; a sub-module is searched on __path__ of its (already imported) parent only, and not at all when '
           'the parent is not a package; the kind of module that is loaded follows the finder\'s answer (namespace '
           'portions as reported, no file => compiled module, else the python file with the reported package flag)',
    file='jedi/inference/imports.py', qualname='import_module',
    params={'inference_state': _IS10, 'import_names': Seq(STR), 'parent_module_value': Opt(Obj('ModVal10')),
            'sys_path': Opt(Seq(STR))},
    families=['IS10', 'Sub10', 'ModVal10', 'Info10'], ret=ANY,
    requires=['len(import_names) >= 1', 'not (import_names[0] in settings.auto_import_modules)'],
    ensures=['result == gcd_import_spec(inference_state, import_names, parent_module_value, sys_path)'],
    concrete_ensures=['CALLS == EXPECTED_CALLS', 'result == EXPECTED'],
    witness={}, replay=_replay_import_module, concrete_only=True, witness_library=_IM_LIB,
    notes='auto_import_modules (a jedi setting outside the property) excluded by precondition; loaders and value '
          'constructors are abstract pure functions of their arguments',
)

def _replay_infer_import(inp):
    """real infer_import (memoisation decorator removed) over a fake _prepare_infer_import / Importer: does the imported
    name come from the attribute of the from-part when there is one, and from the sub-module only otherwise?"""
    from pyvc.replay import run_real, raw_function
    from jedi.inference import imports as imp
    log = []

    class _VS:
        def __init__(self, tag, items):
            self.tag, self.items = tag, items

        def __bool__(self):
            return bool(self.items)

        def py__getattribute__(self, name, name_context=None, analysis_errors=True):
            log.append(('getattr', name))
            return _VS('attr', inp['attr'])

        def __eq__(self, other):
            return isinstance(other, _VS) and (self.tag, self.items) == (other.tag, other.items)

    class _Imp:
        def __init__(self, inference_state, import_path, module_context, level=0):
            self.a = (tuple(import_path), level)

        def follow(self):
            log.append(('follow',) + self.a)
            return _VS('sub', inp['sub'])

    class _Ctx:
        inference_state = None

        def get_root_context(self):
            return self
    fin = inp['from_import_name']
    prep = (fin, tuple(inp['import_path']), inp['level'], _VS('from', inp['values']))
    fn = raw_function(imp, inp.get('fn', 'infer_import'), {'_prepare_infer_import': lambda mc, tn: prep, 'Importer': _Imp})
    out = run_real(lambda: fn(_Ctx(), 'TREE_NAME'))
    if not inp['values'] or fin is None:
        exp, exp_log = _VS('from', inp['values']), []
    elif inp['attr']:
        exp, exp_log = _VS('attr', inp['attr']), [('getattr', fin)]
    else:
        exp = _VS('sub', inp['sub'])
        exp_log = [('getattr', fin), ('follow', tuple(inp['import_path']) + (fin,), inp['level'])]
    return {'LOG': log, 'EXPECTED': exp, 'EXPECTED_LOG': exp_log}, out


_II_LIB = [dict(from_import_name=f, import_path=['pk', 'sub'], level=l, values=v, attr=a, sub=s)
           for f in (None, 'x') for l in (0, 2) for v in ([], ['M']) for a in ([], ['A']) for s in ([], ['S'])]

_infer_import = Contract(
    id='C10.infer_import', prop='C10',
    clause='`from a import b` gives the ATTRIBUTE b of the imported a when a has one, and the sub-module a.b only '
           'otherwise (order of IMPORT_FROM); a from-part that cannot be imported gives nothing; other import names are '
           'the module found for their dotted path',
    file='jedi/inference/imports.py', qualname='infer_import',
    params={'context': Obj('Ctx10'), 'tree_name': Obj('PNode')},
    families=['Ctx10', 'ModCtx', 'PNode', 'ImporterV', 'InfState10', 'VS10'], ret=Obj('VS10'),
    ensures=[
        'implies(not _prepare_infer_import(context.get_root_context(), tree_name)[3] or _prepare_infer_import(context.get_root_context(), tree_name)[0] is None, result == _prepare_infer_import(context.get_root_context(), tree_name)[3])',
        'implies(_prepare_infer_import(context.get_root_context(), tree_name)[3] and _prepare_infer_import(context.get_root_context(), tree_name)[0] is not None and _prepare_infer_import(context.get_root_context(), tree_name)[3].py__getattribute__(_prepare_infer_import(context.get_root_context(), tree_name)[0], context, False), '
        'result == _prepare_infer_import(context.get_root_context(), tree_name)[3].py__getattribute__(_prepare_infer_import(context.get_root_context(), tree_name)[0], context, False))',
        'implies(_prepare_infer_import(context.get_root_context(), tree_name)[3] and _prepare_infer_import(context.get_root_context(), tree_name)[0] is not None and not _prepare_infer_import(context.get_root_context(), tree_name)[3].py__getattribute__(_prepare_infer_import(context.get_root_context(), tree_name)[0], context, False), '
        'result == Importer(context.inference_state, _prepare_infer_import(context.get_root_context(), tree_name)[1] + [the(_prepare_infer_import(context.get_root_context(), tree_name)[0])], context.get_root_context(), _prepare_infer_import(context.get_root_context(), tree_name)[2]).follow())',
    ],
    concrete_ensures=['result == EXPECTED', 'LOG == EXPECTED_LOG'],
    witness={}, replay=_replay_infer_import, concrete_only=True, witness_library=_II_LIB,
)

FAMILIES = [
    Family('Importer', fields={'_inference_state': Obj('InfState10'), 'level': INT, '_module_context': Obj('ModCtx'),
                               '_fixed_sys_path': Opt(Seq(STR)), '_infer_possible': BOOL,
                               'import_path': Seq(ANY)}),
    Family('InfState10', attrs={'project': Obj('Project10')}),
    Family('IS10', attrs={'compiled_subprocess': Obj('Sub10')}),
    Family('ModS', attrs={'inference_state': Obj('InfState10'), 'tree_node': Obj('ModNodeS')}, methods={
        'as_context': FnSpec('ModuleValue.as_context', ret=Obj('CtxS'), pure=True),
        'star_imports': FnSpec('ModuleValue.star_imports', ret=Seq(Obj('ModS')), pure=True, assumed=False,
                               note='recursive use of the function under contract (memoised, default [])')}),
    Family('CtxS'),
    Family('ModNodeS', methods={'iter_imports': FnSpec('Module.iter_imports', ret=Seq(Obj('ImpS')), pure=True)}),
    Family('ImpS', attrs={'level': INT}, axioms=['o.level >= 0'], methods={
        'is_star_import': FnSpec('Import.is_star_import', ret=BOOL, pure=True),
        'get_paths': FnSpec('Import.get_paths', ret=Seq(Seq(ANY)), pure=True)}),
    Family('StarImp', methods={'follow': FnSpec('Importer.follow', ret=Seq(Obj('ModS')), pure=True, assumed=True)}),
    Family('Spec10', attrs={'loader': Opt(Obj('Loader10'))}),
    Family('Loader10'),
    Family('Sub10', methods={'get_module_info': FnSpec(
        'compiled_subprocess.get_module_info',
        params=[('string', STR), ('full_name', STR), ('sys_path', Opt(Seq(STR))), ('is_global_search', BOOL),
                ('path', Opt(Seq(STR)))],
        defaults={'sys_path': None, 'path': None}, ret=Tup(Opt(Obj('Info10')), Opt(BOOL)), pure=True, assumed=True,
        note='importlib finders of the target interpreter (the oracle of the property)')}),
    Family('ModVal10', methods={'py__path__': FnSpec('ModuleValue.py__path__', ret=Opt(Seq(STR)), pure=True)}),
    Family('Info10', attrs={'name': STR, 'paths': ANY}),
    Family('ImportNode', attrs={'type': STR, 'level': INT}, axioms=['o.level >= 0'], methods={
        'get_path_for_name': FnSpec('ImportNode.get_path_for_name', params=[('name', Obj('PNode'))], ret=Seq(ANY),
                                    pure=True, note='parso: the dotted path that leads to the given name'),
        'get_from_names': FnSpec('ImportNode.get_from_names', ret=Seq(ANY), pure=True,
                                 raises=[('AttributeError', 'self.type != "import_from"')],
                                 ensures=['self.type == "import_from"'],
                                 note='parso: only ImportFrom has get_from_names'),
    }),
    Family('VS10', attrs={'nonempty': BOOL}, truthy='o.nonempty', methods={
        'py__getattribute__': FnSpec('ValueSet.py__getattribute__',
                                     params=[('name_or_str', ANY), ('name_context', Obj('Ctx10')), ('analysis_errors', BOOL)],
                                     defaults={'name_context': None, 'analysis_errors': True}, ret=Obj('VS10'), pure=True,
                                     assumed=True, note='attribute lookup on every value of the set (inference engine)')},
        note='jedi ValueSet: truth value = non-empty'),
    Family('Ctx10', attrs={'inference_state': Obj('InfState10')}, methods={
        'get_root_context': FnSpec('Context.get_root_context', ret=Obj('ModCtx'), pure=True)}),
    Family('ImporterV', methods={'follow': FnSpec('Importer.follow', ret=Obj('VS10'), pure=True, assumed=True,
                                                  note='the values the importer finds: a function of its arguments')}),
    Family('Project10', attrs={'path': PATH}),
    Family('ModCtx', attrs={'inference_state': Obj('InfState10')}, methods={
        'get_value': FnSpec('ModCtx.get_value', ret=Obj('ModVal'), pure=True),
        'py__file__': FnSpec('ModCtx.py__file__', ret=Opt(PATH), pure=True),
    }),
    Family('ModVal', methods={
        'py__package__': FnSpec('ModVal.py__package__', ret=Seq(ANY), pure=True,
                                note='the dotted package of the importing module, as a list of names'),
    }),
]

CONTRACTS = [_iter_solutions, _transform, _importer_init, _prepare, _import_module10, _infer_import, _py33, _star, _star2]


def register(reg):
    from pyvc.values import MNS, MFn, SV
    import z3
    _re_sub = MFn('spec', 're.sub', spec=FnSpec(
        're.sub', params=[('pattern', STR), ('repl', STR), ('s', STR)], ret=STR, pure=True, assumed=True))
    if isinstance(reg.names.get('re'), MNS):
        reg.names['re'].members['sub'] = _re_sub        # several sidecars contribute members of `re`
    else:
        reg.names['re'] = MNS('re', {'sub': _re_sub})
    reg.names['remove_python_path_suffix'] = _remove_suffix_spec
    reg.names['_level_to_base_import_path'] = FnSpec(
        '_level_to_base_import_path', params=[('project_path', PATH), ('directory', PATH), ('level', INT)],
        ret=Tup(Opt(Seq(ANY)), Opt(STR)), pure=True, assumed=False)
    reg.names['level_base'] = reg.names['_level_to_base_import_path']
    reg.names['_add_error'] = FnSpec('_add_error', params=[('ctx', Obj('ModCtx')), ('name', ANY), ('message', STR)],
                                     ret=None, assumed=True, note='analysis diagnostics, no effect on resolution')
    reg.names['dirname_or'] = FnSpec('dirname_or', impl=_dirname_or)
    from pyvc.values import MNS as _NS, MFn as _MF
    _pf = FnSpec('path_finder_spec', params=[('name', STR), ('path', Opt(Seq(STR)))], ret=Opt(Obj('Spec10')), pure=True,
                 assumed=True, effects=['path-lookup'], note='importlib.machinery.PathFinder.find_spec (the oracle)')
    _gf = FnSpec('importlib.util.find_spec', params=[('name', STR)], ret=Opt(Obj('Spec10')), pure=True, assumed=True,
                 effects=['interpreter-wide-lookup'], raises=['ValueError'],
                 note='interpreter-wide lookup by bare name (sys.modules, meta path): only meaningful for top-level names')
    reg.names['path_finder_spec'] = _pf
    reg.names['importlib'] = _NS('importlib', {
        'machinery': _NS('importlib.machinery', {'PathFinder': _NS('PathFinder', {'find_spec': _MF('spec', 'path_finder_spec', spec=_pf)})}),
        'util': _NS('importlib.util', {'find_spec': _MF('spec', 'importlib.util.find_spec', spec=_gf)})})
    reg.names['StarImporter'] = _STAR_IMPORTER
    from pyvc.values import MCls as _MC
    reg.names['ModuleValue'] = _MC('ModuleValue')
    reg.names['_from_loader'] = FnSpec('_from_loader', params=[('loader', Obj('Loader10')), ('string', STR)], ret=ANY,
                                       pure=True, assumed=True, raises=['ImportError'])
    from pyvc.values import MCls
    import pyvc.types as T
    reg.names['_load_builtin_module'] = FnSpec(
        '_load_builtin_module', params=[('inference_state', _IS10), ('import_names', Seq(STR)),
                                        ('sys_path', Opt(Seq(STR)))], ret=Opt(ANY), pure=True, assumed=False,
        note='C12._load_builtin_module')
    reg.names['_load_python_module'] = FnSpec(
        '_load_python_module', params=[('inference_state', _IS10), ('file_io', Obj('Info10')), ('import_names', Seq(STR)),
                                       ('is_package', Opt(BOOL))], defaults={'import_names': None, 'is_package': False},
        ret=ANY, pure=True, assumed=False, note='parse of the file found (C09/C12)')
    reg.names['NO_VALUES'] = SV(ANY, z3.Const('NO_VALUES', T.AnySort))
    reg.names['ValueSet'] = FnSpec('ValueSet', params=[('values', Seq(ANY))], ret=ANY, assumed=True, pure=True)
    reg.names['ImplicitNSInfo'] = MCls('ImplicitNSInfo')
    reg.names['ImplicitNamespaceValue'] = FnSpec(
        'ImplicitNamespaceValue', params=[('inference_state', _IS10), ('string_names', Seq(STR)), ('paths', ANY)],
        ret=ANY, assumed=True, pure=True)
    reg.names['settings'].members['auto_import_modules'] = SV(
        Seq(STR), z3.Const('settings.auto_import_modules', T.sort_of(Seq(STR))))
    reg.families['PNode'].methods['search_ancestor'] = FnSpec(
        'PNode.search_ancestor', params=[('a', STR), ('b', STR)], ret=Obj('ImportNode'), pure=True, assumed=True,
        note='nearest import statement above a name that is part of one (call sites only pass such names)')
    reg.names['_prepare_infer_import'] = FnSpec(
        '_prepare_infer_import', params=[('module_context', Obj('ModCtx')), ('tree_name', Obj('PNode'))],
        ret=Tup(Opt(ANY), Seq(ANY), INT, Obj('VS10')), pure=True, assumed=False, ensures=['result[2] >= 0'],
        note='C10._prepare_infer_import')
    reg.names['Importer'] = FnSpec('Importer', params=[('inference_state', Obj('InfState10')), ('import_path', Seq(ANY)),
                                                       ('module_context', Obj('ModCtx')), ('level', INT)],
                                   ret=Obj('ImporterV'), pure=True, assumed=False, requires=['level >= 0'],
                                   note='C10.Importer.__init__ is under contract')


def _dirname_or(V, st, self_val, args, kwargs, node):
    """spec helper: os.path.dirname(path) if path is not None else default"""
    import z3
    from pyvc.values import SV, strip_opt
    from pyvc.types import opt_is_none
    from pyvc.calls import call_spec
    p, d = args
    dn = call_spec(V, V.reg.names['os'].members['path'].members['dirname'].spec, None, [strip_opt(p)], {}, st, node)
    return SV(PATH, z3.If(opt_is_none(p.t, p.z), d.z, dn.z))


def _standin(repo, seed, tier):
    from pyvc.standin import run_standin
    return run_standin('C10', tier, seed, repo)


_standin.tiers = ('quick', 'thorough')
BOUNDED = [_standin]

NOT_DECIDED = [
    'that importlib\'s finders answer correctly (they are the oracle, called by jedi itself)',
    'stub preference layering in typeshed.import_module_decorator',
    'import_module / import_module_by_names / infer_import ordering contracts: pending',
]
TRUSTED = ['os.path.sep == "/" (POSIX)', 'sep.join(s.split(sep)) == s (str contract)',
           're.sub("-stubs$", "", s) is a pure function of s']


def dynamic_contracts(repo):
    """which file an import resolves to depends on the effective search path: its composition and the fact that
    computing it changes neither the project's configuration nor the memoised path itself (contracts shared with C20)"""
    from contracts import c20
    return [c20._get_sys_path, c20._swm]
