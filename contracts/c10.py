"""C10 — Import statements resolve to what Python's import system would load (kernel: the
arithmetic and ordering jedi adds around importlib)."""
from pyvc.api import *
from pyvc.spec import callee_of

SPEC_IMPORTS = ['contracts.common']
SPEC_FUNCTIONS = ['path_join_parts', 'resolve_name_spec']


def path_join_parts(p, parts):
    """os.path.join(p, *parts) for a sys.path entry p and non-empty relative parts"""
    if p.endswith('/'):
        return p + '/'.join(parts)
    return p + '/' + '/'.join(parts)


def resolve_name_spec(base, level, name):
    """importlib._bootstrap._resolve_name on name sequences: package.rsplit('.', level-1)[0] + '.' + name"""
    return base[:len(base) - level + 1] + name


def _replay_iter(inp):
    from pyvc.replay import run_real
    from pathlib import Path
    from jedi.inference.sys_path import transform_path_to_dotted
    sp = list(inp['sys_path'])
    mp = Path(inp['module_path'])
    out = run_real(lambda: transform_path_to_dotted(sp, mp))
    env = {'sys_path': sp, 'module_path': mp}
    return env, out


_iter_solutions = Contract(
    id='C10.transform_path_to_dotted.iter_potential_solutions', prop='C10',
    clause='the dotted name derived for a file imports back to that file: every candidate name, joined to the '
           'sys.path entry it was derived from, is the path of the module (directory prefix, not string prefix)',
    file='jedi/inference/sys_path.py', qualname='transform_path_to_dotted.iter_potential_solutions',
    params={}, free={'sys_path': Seq(STR), 'module_path': PATH},
    yields=Seq(STR), requires=['valid_path(module_path)'],
    invariants={0: ['True']},
    yield_each_local=[
        # witness semantics: for every yielded c there are p in sys_path and split with ...
        'path_join_parts(p, split) == str(module_path)',
        'len(split) >= 1 and all(len(s) > 0 for s in split)',
        'len(c) == len(split)',
    ],
    concrete_ensures=[
        'implies(result[0] is not None, any(path_join_parts(p, [x for x in result[0]]) in '
        '(str(module_path.with_suffix("")), str(module_path.with_suffix("").parent)) '
        'or "-stubs" in str(module_path) for p in sys_path))',
    ],
    witness={'sys_path': 'sys_path', 'module_path': 'module_path'},
    replay=_replay_iter,
    witness_library=[
        {'sys_path': ['/a/foo'], 'module_path': '/a/foobar/x.py'},
        {'sys_path': ['/a/foo'], 'module_path': '/a/foo/bar/x.py'},
        {'sys_path': ['/a/foo/'], 'module_path': '/a/foo/bar/__init__.py'},
        {'sys_path': ['/a', '/a/foo'], 'module_path': '/a/foo/x.py'},
    ],
    notes='os.path.sep modelled as "/" (POSIX); str.split/join assumed inverse; regex -stubs$ removal is a pure callee',
)

_remove_suffix_spec = FnSpec('remove_python_path_suffix', params=[('path', PATH)], ret=PATH, pure=True, assumed=False)

_importer_init = Contract(
    id='C10.Importer.__init__', prop='C10',
    clause='relative import level rewriting equals importlib._resolve_name: level 0 keeps the path; '
           '0 < level <= len(package) prepends package[:len-level+1]',
    file='jedi/inference/imports.py', qualname='Importer.__init__',
    params={'self': Obj('Importer'), 'inference_state': Obj('InfState10'), 'import_path': Seq(ANY),
            'module_context': Obj('ModCtx'), 'level': INT},
    families=['Importer', 'InfState10', 'ModCtx', 'ModVal', 'Project10'],
    requires=['level >= 0'],
    ensures=[
        'self.level == level',
        'implies(level == 0, self.import_path == import_path and self._fixed_sys_path is None '
        'and self._infer_possible)',
        'implies(0 < level and level <= len(module_context.get_value().py__package__()), '
        'self.import_path == resolve_name_spec(module_context.get_value().py__package__(), level, import_path) '
        'and self._fixed_sys_path is None and self._infer_possible)',
        # beyond the top-level package Python raises; jedi guesses: only its safety flag is specified
        'implies(level > len(module_context.get_value().py__package__()), '
        'self._infer_possible == (level_base(inference_state.project.path, '
        'dirname_or(module_context.py__file__(), inference_state.project.path), level)[1] is not None))',
    ],
    notes='heuristic branch (level > len(package)): Python raises ImportError there; only _infer_possible is specified',
)

FAMILIES = [
    Family('Importer', fields={'_inference_state': Obj('InfState10'), 'level': INT, '_module_context': Obj('ModCtx'),
                               '_fixed_sys_path': Opt(Seq(STR)), '_infer_possible': BOOL,
                               'import_path': Seq(ANY)}),
    Family('InfState10', attrs={'project': Obj('Project10')}),
    Family('Project10', attrs={'path': PATH}),
    Family('ModCtx', methods={
        'get_value': FnSpec('ModCtx.get_value', ret=Obj('ModVal'), pure=True),
        'py__file__': FnSpec('ModCtx.py__file__', ret=Opt(PATH), pure=True),
    }),
    Family('ModVal', methods={
        'py__package__': FnSpec('ModVal.py__package__', ret=Seq(ANY), pure=True,
                                note='the dotted package of the importing module, as a list of names'),
    }),
]

CONTRACTS = [_iter_solutions, _importer_init]


def register(reg):
    from pyvc.values import MNS, MFn, SV
    import z3
    reg.names['re'] = MNS('re', {'sub': MFn('spec', 're.sub', spec=FnSpec(
        're.sub', params=[('pattern', STR), ('repl', STR), ('s', STR)], ret=STR, pure=True, assumed=True))})
    reg.names['remove_python_path_suffix'] = _remove_suffix_spec
    reg.names['_level_to_base_import_path'] = FnSpec(
        '_level_to_base_import_path', params=[('project_path', PATH), ('directory', PATH), ('level', INT)],
        ret=Tup(Opt(Seq(ANY)), Opt(STR)), pure=True, assumed=False)
    reg.names['level_base'] = reg.names['_level_to_base_import_path']
    reg.names['_add_error'] = FnSpec('_add_error', params=[('ctx', Obj('ModCtx')), ('name', ANY), ('message', STR)],
                                     ret=None, assumed=True, note='analysis diagnostics, no effect on resolution')
    reg.names['dirname_or'] = FnSpec('dirname_or', impl=_dirname_or)


def _dirname_or(V, st, self_val, args, kwargs, node):
    """spec helper: os.path.dirname(path) if path is not None else default"""
    import z3
    from pyvc.values import SV, strip_opt
    from pyvc.types import opt_is_none
    from pyvc.calls import call_spec
    p, d = args
    dn = call_spec(V, V.reg.names['os'].members['path'].members['dirname'].spec, None, [strip_opt(p)], {}, st, node)
    return SV(PATH, z3.If(opt_is_none(p.t, p.z), d.z, dn.z))


def _standin(repo, seed, tier):
    from pyvc.standin import run_standin
    return run_standin('C10', tier, seed, repo)


_standin.tiers = ('quick', 'thorough')
BOUNDED = [_standin]

NOT_DECIDED = [
    'that importlib\'s finders answer correctly (they are the oracle, called by jedi itself)',
    'stub preference layering in typeshed.import_module_decorator',
    'import_module / import_module_by_names / infer_import ordering contracts: pending',
]
TRUSTED = ['os.path.sep == "/" (POSIX)', 'sep.join(s.split(sep)) == s (str contract)',
           're.sub("-stubs$", "", s) is a pure function of s']
