"""C11 — Signatures and docstrings mirror the definition; index locates the argument."""
import copy
from pyvc.api import *

SPEC_IMPORTS = ['contracts.common']
SPEC_FUNCTIONS = ['wf_params', 'wf_args', 'nth_positional', 'kw_capable', 'bind_ok', 'count_plain',
                  'docstring_spec', 'kind_spec', 'render_spec']

PO, PK, VP, KO, VK = 0, 1, 2, 3, 4


def wf_params(params):
    """well-formed parameter list: kinds ordered PO* PK* VP? KO* VK?, names pairwise distinct"""
    ok = True
    prev = 0
    n_vp = 0
    n_vk = 0
    for p in params:
        k = p.get_kind()
        ok = ok and 0 <= k and k <= 4 and prev <= k
        prev = k
        if k == 2:
            n_vp += 1
        if k == 4:
            n_vk += 1
    i = 0
    for p in params:
        j = 0
        for q in params:
            if i < j:
                ok = ok and p.string_name != q.string_name
            j += 1
        i += 1
    return ok and n_vp <= 1 and n_vk <= 1


def wf_args(args):
    """argument shapes as produced for a call prefix: (star_count, key_start, had_equal)"""
    ok = len(args) >= 1
    for a in args:
        ok = ok and (a[0] == 0 or a[0] == 1 or a[0] == 2) and implies(a[2], a[0] == 0 and a[1] is not None)
    return ok


def count_plain(prior):
    """plain positional arguments before the one being typed"""
    n = 0
    for a in prior:
        if a[0] == 0 and not a[2]:
            n += 1
    return n


def nth_positional(params, n):
    """index of the parameter that receives the n-th (0-based) positional argument: the n-th PO/PK parameter,
    else *args, else None (-1)"""
    res = -1
    i = 0
    for p in params:
        k = p.get_kind()
        if res == -1 and ((k == 0 or k == 1) and i == n or k == 2):
            res = i
        i += 1
    return res


def kw_capable(params, i, used, pos_known):
    """parameter i can still be passed by keyword: PK/KO, not named by an earlier keyword argument, and a PK one
    not already filled by the known positional arguments"""
    k = params[i].get_kind()
    return (k == 3 or k == 1 and pos_known <= i) and params[i].string_name not in used


def bind_ok(params, args, r):
    """r is an index Python may bind the argument being typed (the last shape) to, per the language reference
    6.3.4 / inspect.Signature.bind_partial; r == -1 encodes None"""
    last = args[-1]
    prior = args[:-1]
    pos_known = count_plain(prior)
    star_before = False
    kw_before = False
    used = []
    for a in prior:
        if a[0] == 1:
            star_before = True
        if a[2] or a[0] == 2:
            kw_before = True
        if a[2]:
            used = used + [a[1]]
    n = len(params)
    vk = -1
    i = 0
    for p in params:
        if p.get_kind() == 4:
            vk = i
        i += 1
    ptarget = nth_positional(params, pos_known)
    in_range = -1 <= r and r < n
    if last[2]:
        # name=value : the parameter of that name, else **kwargs, else nowhere
        exact = -1
        i = 0
        for p in params:
            if kw_capable(params, i, used, pos_known) and p.string_name == last[1]:
                exact = i
            i += 1
        if exact != -1:
            return r == exact
        return r == vk
    if last[0] == 2:
        # **mapping : any parameter that can still be passed by keyword, or **kwargs
        anyk = False
        okr = r == vk and vk != -1
        i = 0
        for p in params:
            if kw_capable(params, i, used, pos_known):
                anyk = True
                if r == i:
                    okr = True
            i += 1
        if not anyk and vk == -1:
            return r == -1
        return okr
    # positional reading (plain expression or *iterable)
    pos_allowed = not kw_before
    pos_ok = False
    any_pos = False
    if pos_allowed:
        if star_before:
            # count unknown: any positional target at or after the known count, or *args
            i = 0
            for p in params:
                k = p.get_kind()
                if (k == 0 or k == 1) and pos_known <= i or k == 2:
                    any_pos = True
                    if r == i:
                        pos_ok = True
                i += 1
        else:
            any_pos = ptarget != -1
            pos_ok = r == ptarget and ptarget != -1
    if last[0] == 1:
        if pos_allowed:
            return pos_ok or r == -1 and not any_pos
        return in_range     # *iterable after keywords: unspecified here (see NOT_DECIDED)
    # bare name / expression / empty slot: may also be the start of a keyword argument
    kw_ok = False
    any_kw = False
    if last[1] is not None:
        i = 0
        for p in params:
            if kw_capable(params, i, used, pos_known) and p.string_name.startswith(last[1]):
                any_kw = True
                if r == i:
                    kw_ok = True
            i += 1
        if vk != -1:
            any_kw = True
            if r == vk:
                kw_ok = True
    if pos_ok or kw_ok:
        return True
    return r == -1 and not any_pos and not any_kw


def kind_spec(children, j):
    """Python's rule for the kind of the parameter children[j] of a parameter list:
    *x -> VAR_POSITIONAL, **x -> VAR_KEYWORD, after a bare * or a starred parameter -> KEYWORD_ONLY,
    before a / -> POSITIONAL_ONLY, else POSITIONAL_OR_KEYWORD; plus jedi's documented typeshed
    convention that a name starting with __ is positional-only"""
    tp = children[j]
    if tp.star_count == 1:
        return 2
    if tp.star_count == 2:
        return 4
    if tp.name.value.startswith('__'):
        return 0
    ko = False
    po = False
    i = 0
    for p in children:
        if i < j and (p == '*' or p.type == 'param' and p.star_count != 0):
            ko = True
        if i > j and p == '/':
            po = True
        i += 1
    if ko:
        return 3
    if po:
        return 0
    return 1


def render_spec(params):
    """inspect-style rendering of a well-formed parameter list: '/' exactly once, directly after the last
    positional-only parameter; '*' exactly once, directly before the first keyword-only parameter when
    there is no *args; parameters in order"""
    n_po = 0
    first_ko = -1
    has_vp = False
    i = 0
    for p in params:
        k = p.get_kind()
        if k == 0:
            n_po += 1
        if k == 2:
            has_vp = True
        if k == 3 and first_ko == -1:
            first_ko = i
        i += 1
    out = []
    i = 0
    for p in params:
        if i == n_po and n_po > 0:
            out = out + ['/']
        if i == first_ko and not has_vp:
            out = out + ['*']
        out = out + [p.to_string()]
        i += 1
    if n_po > 0 and n_po == len(params):
        out = out + ['/']
    return out


def docstring_spec(sig, doc, raw):
    if raw:
        return doc
    if sig != '' and doc != '':
        return sig + '\n\n' + doc
    return sig + doc


_ARG = Tup(INT, Opt(STR), BOOL)
FAMILIES = [
    Family('ParamName', attrs={'string_name': STR},
           methods={'get_kind': FnSpec('ParamName.get_kind', ret=INT, pure=True, assumed=False,
                                       note='kind derivation is under its own contract (get_kind)'),
                    'to_string': FnSpec('ParamName.to_string', ret=STR, pure=True, assumed=True)}),
    Family('CallDetails', attrs={'_children': ANY, '_position': POS}),
    Family('TreeParamName', methods={'_get_param_node': FnSpec('_get_param_node', ret=Obj('PNode'), pure=True,
                                                              assumed=True, note='search_ancestor("param")')}),
    Family('Sig', methods={'get_param_names': FnSpec('Signature.get_param_names', params=[('resolve_stars', BOOL)],
                                                     defaults={'resolve_stars': False}, ret=Seq(Obj('ParamName')),
                                                     pure=True, assumed=True)}),
    Family('TSig', attrs={'is_bound': BOOL, '_function_value': Obj('FVal11'), 'value': ANY}),
    Family('FVal11', methods={'get_param_names': FnSpec('FunctionValue.get_param_names', ret=Seq(ANY), pure=True)}),
    Family('BN11', attrs={'_name': Obj('NameW'), 'name': STR, 'type': STR, 'module_name': STR},
           methods={'_get_docstring': FnSpec('BaseName._get_docstring', ret=STR, pure=True),
                    '_get_docstring_signature': FnSpec('BaseName._get_docstring_signature', ret=STR, pure=True)}),
]


def _list_arguments_impl(V, st, self_val, args, kwargs, node):
    return st.env['ARGS'] if 'ARGS' in st.env else V.entry.env['ARGS']


def _replay_index(inp):
    from pyvc.replay import run_real
    from jedi.api.helpers import CallDetails

    class P:
        def __init__(self, kind, name):
            self._k = kind
            self.string_name = name

        def get_kind(self):
            import inspect
            return list(inspect._ParameterKind)[self._k]
    params = [P(k, n) for k, n in inp['params']]
    args = [tuple(a) for a in inp['args']]
    cd = CallDetails(None, [], (1, 0))
    cd._list_arguments = lambda: list(args)
    out = run_real(lambda: cd.calculate_index(params))
    if out['kind'] == 'return':
        out['value'] = -1 if out['value'] is None else out['value']
    return {'param_names': params, 'ARGS': args, 'self': cd}, out


def _index_contract(n, m):
    c = Contract(
        id='C11.calculate_index[%d,%d]' % (n, m), prop='C11',
        clause='index is a parameter Python may bind the argument being typed to (None when it can bind to none), '
               'for every list of %d parameters and every call prefix of %d arguments' % (n, m),
        file='jedi/api/helpers.py', qualname='CallDetails.calculate_index',
        params={'self': Obj('CallDetails'), 'param_names': Seq(Obj('ParamName'))},
        ghost={'ARGS': Seq(_ARG)}, locals={'used_names': SetT(Opt(STR))},
        families=['ParamName', 'CallDetails'], ret=Opt(INT), tier='SB',
        bounds={'parameters': n, 'arguments': m},
        requires=['wf_params(param_names)'] + (['wf_args(ARGS)'] if m else []),
        ensures=(['bind_ok(param_names, ARGS, -1 if result is None else result)'] if m else
                 ['result == (0 if len(param_names) > 0 else None)']),
        witness={'params': '[(p.get_kind(), p.string_name) for p in param_names]', 'args': 'ARGS'},
        replay=_replay_index,
    )
    c.shape = {'param_names': n, 'ARGS': m}
    return c


CALC = [_index_contract(n, m) for n in range(0, 5) for m in range(0, 4)]
CALC_THOROUGH = [_index_contract(n, m) for n in range(0, 7) for m in range(0, 6) if not (n < 5 and m < 4)]
for _c in CALC_THOROUGH:
    _c.tier = 'thorough-only'

def _kind_contract(n):
    c = Contract(
        id='C11.get_kind[%d]' % n, prop='C11',
        clause='parameter kinds equal Python\'s rule (for every parameter list with %d children)' % n,
        file='jedi/inference/names.py', qualname='_ActualTreeParamName.get_kind',
        params={'self': Obj('TreeParamName')}, ghost={'CH': Seq(Obj('PNode')), 'J': INT},
        families=['TreeParamName', 'PNode'], ret=INT, tier='SB', bounds={'children of the parameter list': n},
        requires=['self._get_param_node().parent is not None',
                  'self._get_param_node().parent.children == CH', '0 <= J and J < len(CH)',
                  'CH[J] == self._get_param_node()', 'self._get_param_node().type == "param"',
                  'not self._get_param_node().parent.is_leaf', 'self._get_param_node().name.is_leaf',
                  # nodes of a tree are distinct objects
                  'all(implies(i != J, CH[i] != CH[J]) for i in range(0, len(CH)))',
                  # parso: a parameter has 0, 1 or 2 stars
                  'all(implies(c.type == "param", 0 <= c.star_count and c.star_count <= 2) for c in CH)'],
        unroll={0: n},
        ensures=['result == kind_spec(CH, J)'],
        witness={'types': '[c.type for c in CH]', 'stars': '[c.star_count for c in CH]', 'J': 'J',
                 'leaf': '[c.is_leaf for c in CH]', 'vals': '[c.value for c in CH]',
                 'pname': 'CH[J].name.value'},
        replay=lambda inp: (_ for _ in ()).throw(RuntimeError('no harness')),
    )
    c.shape = {'CH': n}
    return c


KINDS = [_kind_contract(n) for n in range(1, 6)]


def _render_contract(n):
    c = Contract(
        id='C11.to_string.param_strings[%d]' % n, prop='C11',
        clause='to_string() places "/" directly after the last positional-only and "*" directly before the first '
               'keyword-only parameter (when there is no *args), parameters in order (%d parameters)' % n,
        file='jedi/inference/signature.py', qualname='_SignatureMixin.to_string.param_strings',
        params={}, free={'self': Obj('Sig')}, ghost={'PS': Seq(Obj('ParamName'))},
        families=['Sig', 'ParamName'], yields=STR, tier='SB', bounds={'parameters': n},
        requires=['wf_params(PS)', 'self.get_param_names(True) == PS'],
        unroll={0: n},
        ensures=['result == render_spec(PS)'],
    )
    c.shape = {'PS': n}
    return c


RENDER = [_render_contract(n) for n in range(0, 5)]

def _replay_docstring(inp):
    """the real BaseName.docstring on a definition whose raw docstring and signature text are given"""
    from pyvc.replay import run_real
    from jedi.api.classes import BaseName

    class N:
        string_name = inp['name']
        api_type = 'function'

        def get_public_name(self):
            return inp['name']

        def is_value_name(self):
            return True

        def py__doc__(self):
            return inp['doc']

    class BN(BaseName):
        def __init__(self):
            self._name = N()
            self.is_keyword = False

        def _get_docstring(self):
            return inp['doc']

        def _get_docstring_signature(self):
            return inp['sig']
    bn = BN()
    out = run_real(lambda: (bn.docstring(), bn.docstring(raw=True)))
    exp = inp['sig'] + '\n\n' + inp['doc'] if inp['sig'] and inp['doc'] else inp['sig'] + inp['doc']
    return {'EXPECTED': exp, 'RAW': inp['doc']}, out


_docstring = Contract(
    id='C11.BaseName.docstring', prop='C11',
    clause='docstring() is the raw docstring preceded by the signature line(s), docstring(raw=True) the raw text',
    file='jedi/api/classes.py', qualname='BaseName.docstring',
    params={'self': Obj('BN11'), 'raw': BOOL, 'fast': BOOL}, families=['BN11', 'NameW'], ret=STR,
    ensures=['implies(not (isinstance(self._name, ImportName) and fast), '
             'result == docstring_spec(self._get_docstring_signature(), self._get_docstring(), raw))',
             'implies(isinstance(self._name, ImportName) and fast, result == "")'],
    witness={}, replay=_replay_docstring, concrete_only=True,
    witness_library=[{'name': 'connect', 'sig': 'connect(host, port=80, *, timeout=None)', 'doc': d}
                     for d in ('connect(host, port) -> socket\n\nOpens it.', 'Opens a connection.', '', 'connect')] +
                    [{'name': 'f', 'sig': '', 'doc': 'text'}],
    concrete_ensures=['result[0] == EXPECTED', 'result[1] == RAW'],
)

def _replay_clean_doc(inp):
    """a real definition whose docstring keeps whitespace after inspect.cleandoc"""
    from pyvc.replay import run_real
    import inspect
    import parso
    from jedi.parser_utils import clean_scope_docstring
    src = inp['source']
    module = parso.parse(src)
    scope = next(module.iter_funcdefs(), None) or next(module.iter_classdefs(), None) or module
    out = run_real(lambda: clean_scope_docstring(scope))
    ns = {}
    exec(compile(src, '<replay>', 'exec'), ns)
    obj = ns.get(inp.get('name', 'f'))
    return {'interpreter_doc': inspect.getdoc(obj) if obj is not None else None}, out


_clean_doc = Contract(
    id='C11.clean_scope_docstring', prop='C11',
    clause='the raw docstring of a definition is exactly inspect.cleandoc of the evaluated string literal (what '
           'inspect.getdoc returns): nothing stripped beyond that; empty when there is no docstring node',
    file='jedi/parser_utils.py', qualname='clean_scope_docstring',
    params={'scope_node': Obj('PNode')}, families=['PNode'], ret=STR,
    ensures=['implies(scope_node.get_doc_node() is not None and '
             'isinstance(safe_literal_eval(scope_node.get_doc_node().value), str), '
             'result == cleandoc(safe_literal_eval(scope_node.get_doc_node().value)))',
             # a bytes literal is not documentation
             'implies(scope_node.get_doc_node() is not None and '
             'not isinstance(safe_literal_eval(scope_node.get_doc_node().value), str), result == "")',
             'implies(scope_node.get_doc_node() is None, result == "")'],
    witness={}, replay=_replay_clean_doc, concrete_only=True,
    concrete_ensures=['result == interpreter_doc'],
    witness_library=[{'source': 'def f(a):\n    """Frobnicate a.  """\n', 'name': 'f'},
                     {'source': "def f(n):\n    '''Make n boxes.\n   '''\n", 'name': 'f'},
                     {'source': 'def f(a):\n    """\n    First.\n\n      indented\t\n    """\n', 'name': 'f'}],
)

_stmt_doc = Contract(
    id='C11.find_statement_documentation', prop='C11',
    clause='the documentation of an assignment is inspect.cleandoc of the string literal that follows it, else empty',
    file='jedi/parser_utils.py', qualname='find_statement_documentation',
    params={'tree_node': Obj('PNode')}, families=['PNode'], ret=STR,
    requires=['implies(tree_node.type == "expr_stmt", tree_node.parent is not None)',
              'forall(lambda n=T_OBJ("PNode"): implies(n.type == "simple_stmt", not n.is_leaf and len(n.children) >= 1))',
              'forall(lambda n=T_OBJ("PNode"): implies(n.type == "string", n.is_leaf))'],
    ensures=['implies(tree_node.type != "expr_stmt", result == "")',
             'implies(tree_node.type == "expr_stmt" and tree_node.parent.get_next_sibling() is not None '
             'and tree_node.parent.get_next_sibling().type == "simple_stmt" '
             'and tree_node.parent.get_next_sibling().children[0].type == "string", '
             'result == cleandoc(safe_literal_eval(tree_node.parent.get_next_sibling().children[0].value)) '
             'or not isinstance(safe_literal_eval(tree_node.parent.get_next_sibling().children[0].value), str))'],
)

_sig_index = Contract(
    id='C11.Signature.index', prop='C11',
    clause='index, params and to_string() of one Signature all speak about the SAME parameter list: the one with '
           '*args/**kwargs of wrappers resolved to the wrapped callable\'s parameters',
    file='jedi/api/classes.py', qualname='Signature.index',
    params={'self': Obj('SigAPI')}, families=['SigAPI', 'SigVal', 'CallDetails', 'ParamName'], ret=Opt(INT),
    ensures=['result == self._call_details.calculate_index(self._signature.get_param_names(resolve_stars=True))'],
)
_sig_params = Contract(
    id='C11.BaseSignature.params', prop='C11',
    clause='params lists one ParamName per parameter of the resolved list, in order',
    file='jedi/api/classes.py', qualname='BaseSignature.params',
    params={'self': Obj('SigAPI')}, families=['SigAPI', 'SigVal', 'ParamName'], ret=Seq(ANY),
    ensures=['len(result) == len(self._signature.get_param_names(resolve_stars=True))',
             'all(result[i] == ParamName(self._inference_state, self._signature.get_param_names(resolve_stars=True)[i]) '
             'for i in range(0, len(result)))'],
)
_sig_to_string = Contract(
    id='C11.BaseSignature.to_string', prop='C11', clause='the text of a signature is the text of its value',
    file='jedi/api/classes.py', qualname='BaseSignature.to_string',
    params={'self': Obj('SigAPI')}, families=['SigAPI', 'SigVal'], ret=STR,
    ensures=['result == self._signature.to_string()'],
)

# ------------------------------------------------------------------ pass-through wrappers: own keyword-only names win
def _region_kw_only(func):
    """process_params: the final loop over the collected keyword-only names"""
    import ast
    for s_ in func.body:
        if isinstance(s_, ast.For) and ast.unparse(s_.iter) == 'kw_only_names':
            return [s_]
    return None


def _replay_wrapper_params(inp):
    """a **kwargs pass-through wrapper with a keyword-only parameter of its own that the callee also has"""
    from pyvc.replay import run_real
    import jedi
    code = ('def fetch(url, *, %s=5.0, retries=3):\n    pass\n'
            'def wrapper(url, *, %s: float = 30.0, **kwargs):\n    return fetch(url, **kwargs)\n'
            'wrapper(' % (inp['callee_kw'], inp['own_kw']))

    def run():
        sig = jedi.Script(code).get_signatures(5, 8)[0]
        return sig.to_string(), [p.name for p in sig.params]
    out = run_real(run)
    names = ['url', inp['own_kw']] + ([inp['callee_kw']] if inp['callee_kw'] != inp['own_kw'] else []) + ['retries']
    return {'OWN': '%s: float=30.0' % inp['own_kw'], 'NAMES': names}, out


_kw_only_loop = Contract(
    id='C11.process_params.keyword_only', prop='C11',
    clause='star-resolved signatures of pass-through wrappers: every keyword-only name is listed once, and it is the '
           'FIRST parameter collected under that name (the wrapper\'s own, with its default and annotation) - a same-named '
           'parameter of a forwarded-to callee never replaces it',
    file='jedi/inference/star_args.py', qualname='process_params', region=_region_kw_only,
    params={'param_names': ANY, 'star_count': INT},
    free={'kw_only_names': Seq(Obj('NameW')), 'used_names': SetT(STR), 'found_kwarg_signature': BOOL,
          'original_kwarg_name': ANY, 'arg_callables': ANY, 'kwarg_callables': ANY, 'arg_names': ANY, 'kwarg_names': ANY,
          'found_arg_signature': BOOL, 'original_arg_name': ANY, 'kw_only_names_': ANY},
    families=['NameW'], yields=Obj('NameW'),
    invariants={0: ['all(d.string_name in used_names for d in DONE)', 'subset(PRE_used_names, used_names)',
                    'subset(YKEYS, used_names)',
                    # nothing is lost: every collected name not used before is among the yielded keys
                    'all(d.string_name in PRE_used_names or d.string_name in YKEYS for d in DONE)',
                    'subset(used_names, PRE_used_names | YKEYS)']},
    yield_each_local=['c in kw_only_names', 'c.string_name not in used_names'],
    yield_key='c.string_name',
    ensures=['all(d.string_name in NEW_used_names for d in kw_only_names)',
             'all(d.string_name in used_names or d.string_name in YKEYS for d in kw_only_names)'],
    witness={}, replay=_replay_wrapper_params, concrete_only=True,
    witness_library=[{'own_kw': 'timeout', 'callee_kw': 'timeout'}, {'own_kw': 'timeout', 'callee_kw': 'deadline'}],
    concrete_ensures=['OWN in result[0]', 'result[1] == NAMES'],
)

# ------------------------------------------------------------------ binding of self
_tree_params = Contract(
    id='C11.TreeSignature.get_param_names', prop='C11',
    clause='a bound signature (method looked up on an instance, class being called) shows the function\'s parameters '
           'WITHOUT the first one (self / cls); an unbound one shows all of them, in order; star-resolution is applied '
           'before the first parameter is removed',
    file='jedi/inference/signature.py', qualname='TreeSignature.get_param_names',
    params={'self': Obj('TSig'), 'resolve_stars': BOOL}, families=['TSig', 'FVal11'], ret=Seq(ANY),
    names={'process_params': FnSpec('process_params', params=[('param_names', Seq(ANY))], ret=Seq(ANY), pure=True,
                                    assumed=True, note='star_args.process_params (inference; not decided here)')},
    ensures=['implies(not resolve_stars and not self.is_bound, result == self._function_value.get_param_names())',
             'implies(not resolve_stars and self.is_bound, result == self._function_value.get_param_names()[1:])',
             'implies(resolve_stars and not self.is_bound, result == process_params(self._function_value.get_param_names()))',
             'implies(resolve_stars and self.is_bound, result == process_params(self._function_value.get_param_names())[1:])'],
    notes='memoize_method (per object, keyed by the arguments) is transparent for one call',
)
_tree_bind = Contract(
    id='C11.TreeSignature.bind', prop='C11',
    clause='binding a signature keeps the function it describes and marks it bound (the first parameter is then hidden)',
    file='jedi/inference/signature.py', qualname='TreeSignature.bind',
    params={'self': Obj('TSig'), 'value': ANY}, families=['TSig', 'FVal11'], ret=Obj('TSig'),
    ensures=['result == TreeSignature(value, self._function_value, True)'],
)

CONTRACTS = [_tree_params, _tree_bind, _kw_only_loop] + CALC + CALC_THOROUGH + KINDS + RENDER + [_docstring, _clean_doc, _stmt_doc, _sig_index, _sig_params,
                                                       _sig_to_string]


def register(reg):
    from pyvc.values import MCls
    reg.names['ImportName'] = MCls('ImportName')
    reg.names['TreeSignature'] = FnSpec('TreeSignature', params=[('value', ANY), ('function_value', Obj('FVal11')),
                                                                 ('is_bound', BOOL)],
                                        defaults={'is_bound': False}, ret=Obj('TSig'), pure=True, assumed=False,
                                        ensures=['result.is_bound == is_bound', 'result._function_value == function_value',
                                                 'result.value == value'],
                                        note='TreeSignature.__init__ stores its arguments (function_value given)')
    reg.add_family(Family('SigAPI', attrs={'_signature': Obj('SigVal'), '_call_details': Obj('CallDetails'),
                                           '_inference_state': ANY}))
    reg.add_family(Family('SigVal', methods={
        'get_param_names': FnSpec('AbstractSignature.get_param_names', params=[('resolve_stars', BOOL)],
                                  defaults={'resolve_stars': False}, ret=Seq(Obj('ParamName')), pure=True, assumed=True,
                                  note='resolve_stars=True follows *args/**kwargs of wrappers (inference)'),
        'to_string': FnSpec('AbstractSignature.to_string', ret=STR, pure=True, assumed=False,
                            note='C11.to_string.param_strings')}))
    reg.names['ParamName'] = FnSpec('api.ParamName', params=[('inference_state', ANY), ('name', Obj('ParamName'))], ret=ANY,
                                    pure=True, assumed=True)
    if 'calculate_index' not in reg.families['CallDetails'].methods:
        reg.families['CallDetails'].methods['calculate_index'] = FnSpec(
            'CallDetails.calculate_index', params=[('param_names', Seq(Obj('ParamName')))], ret=Opt(INT), pure=True,
            assumed=False, note='C11.calculate_index[n,m]')
    reg.names['cleandoc'] = FnSpec('inspect.cleandoc', params=[('doc', ANY)], ret=STR, pure=True, assumed=True)
    reg.names['safe_literal_eval'] = FnSpec('safe_literal_eval', params=[('value', STR)], ret=ANY, pure=True,
                                            assumed=True, note='ast.literal_eval of the literal; "" for f-strings')
    reg.families['CallDetails'].methods['_list_arguments'] = FnSpec('CallDetails._list_arguments',
                                                                   impl=_list_arguments_impl, assumed=False)


def _standin(repo, seed, tier):
    from pyvc.standin import run_standin
    return run_standin('C11', tier, seed, repo)


_standin.tiers = ('quick', 'thorough')
BOUNDED = [_standin]
from contracts.common import structural_signature_key as _sigkey
STRUCTURAL = [_sigkey]

NOT_DECIDED = [
    'tree -> argument shapes (_iter_arguments) and bracket_start: functional correctness pending (bounded grid planned)',
    '*iterable after a keyword argument (f(a=1, *x|): Python binds positionally, jedi answers None): left '
    'unspecified by the contract',
    'parameter text (defaults/annotations), wrapper resolution, get_kind / to_string contracts: pending',
]
TRUSTED = ['inspect.Parameter kinds are the integers 0..4 in binding order',
           'the binding spec bind_ok is transcribed from the language reference (cross-check against '
           'inspect.Signature.bind_partial: thorough tier, bounded)']
