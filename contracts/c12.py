"""C12 — Analysing sources with Script never executes them."""
import ast
import os
from pyvc.api import *
from pyvc import inventory as inv
from contracts import c20 as _c20

SPEC_IMPORTS = ['contracts.common', 'contracts.c20']
SPEC_FUNCTIONS = ['safe_to_import']


def safe_to_import(unsafe_ok, base_sys_path, sys_path):
    """really importing is allowed only from the environment's own sys.path, unless the project opted in"""
    return unsafe_ok or all(p in base_sys_path for p in sys_path)


_IS = Obj('IS12')

_load_module = Contract(
    id='C12.access.load_module', prop='C12',
    clause='the only place that really imports: sys.path is swapped in and restored on every exit (normal, '
           'ImportError, any exception raised by the imported code); failures yield None',
    file='jedi/inference/compiled/access.py', qualname='load_module',
    params={'inference_state': ANY, 'dotted_name': STR, 'sys_path': Seq(STR)},
    families=['SysMod'], ret=Opt(ANY),
    ensures_all=['sys.path == old(sys.path)'],
    ensures=['"import" in EFFECTS'],
    notes='__import__ may run arbitrary code of the named module: it may change sys.path / sys.modules and raise '
          'anything; the caller contract (C12._load_builtin_module) restricts sys_path to safe entries',
)

def _replay_load_builtin(inp):
    from pyvc.replay import run_real
    import jedi.inference.imports as imports

    class Proj:
        _load_unsafe_extensions = inp['unsafe']

        def _get_base_sys_path(self, inference_state):
            return list(inp['base'])

    class IS:
        project = Proj()

        def get_sys_path(self):
            return list(inp['full'])
    captured = {}

    def fake_load_module(inference_state, dotted_name, sys_path):
        captured['sys_path'] = list(sys_path)
        captured['dotted_name'] = dotted_name
        return 'module'
    old = imports.compiled.load_module
    imports.compiled.load_module = fake_load_module
    try:
        out = run_real(lambda: imports._load_builtin_module(IS(), list(inp['names']), inp['sys_path']))
    finally:
        imports.compiled.load_module = old
    env = {'inference_state': IS(), 'import_names': inp['names'], 'sys_path': inp['sys_path'],
           'EFFECTS': ['load_module'] if captured else [], 'CAPTURED': captured.get('sys_path', []),
           'BASE': list(inp['base']), 'UNSAFE': inp['unsafe']}
    return env, out


_load_builtin = Contract(
    id='C12._load_builtin_module', prop='C12',
    clause='compiled / auto-import loading is restricted to the environment\'s own sys.path unless the project '
           'opted in with load_unsafe_extensions: the sys_path handed to the importing helper contains only '
           'entries of the base sys.path',
    file='jedi/inference/imports.py', qualname='_load_builtin_module',
    params={'inference_state': _IS, 'import_names': Seq(STR), 'sys_path': Opt(Seq(STR))},
    families=['IS12', 'Project12'], ret=Opt(ANY),
    ensures=['"load_module" in EFFECTS'],
    concrete_ensures=['UNSAFE or all(p in BASE for p in CAPTURED)'],
    notes='the restriction is the call-pre obligation of compiled.load_module',
    witness={}, replay=_replay_load_builtin,
    witness_library=[
        {'unsafe': False, 'base': ['/env/lib', '/env/lib/site-packages'], 'full': ['/proj', '/env/lib', '/proj/site-packages'],
         'names': ['mod'], 'sys_path': None},
        {'unsafe': False, 'base': ['/env/lib'], 'full': ['/proj'], 'names': ['a', 'b'],
         'sys_path': ['/proj', '/env/lib', '/tmp/x/site-packages', '']},
        {'unsafe': True, 'base': ['/env/lib'], 'full': ['/proj'], 'names': ['m'], 'sys_path': ['/proj']},
        # nothing in common with the environment's sys.path (fixed sys path of a relative import, explicit sys_path)
        {'unsafe': False, 'base': ['/env/lib'], 'full': ['/env/lib', '/proj'], 'names': ['gi'], 'sys_path': ['/proj']},
        {'unsafe': False, 'base': ['/env/lib'], 'full': ['/proj', '/proj/src'], 'names': ['gi'], 'sys_path': None},
        {'unsafe': False, 'base': [], 'full': ['/proj'], 'names': ['gi'], 'sys_path': None},
    ],
)

_get_module_info = Contract(
    id='C12.get_module_info', prop='C12',
    clause='module lookup in the helper swaps sys.path only temporarily: restored on every exit',
    file='jedi/inference/compiled/subprocess/functions.py', qualname='get_module_info',
    params={'inference_state': ANY, 'sys_path': Opt(Seq(STR)), 'full_name': ANY, 'kwargs': ANY},
    families=['SysMod'], ret=Tup(Opt(ANY), Opt(BOOL)),
    ensures_all=['sys.path == old(sys.path)'],
    # C20: "this path is what import resolution uses" - the lookup runs while sys.path IS the given path, also
    # when that path is empty (only None means: the interpreter's own path)
    ensures=['implies(sys_path is not None, result == find_module_on(sys_path, full_name, kwargs) '
             'or result == (None, None))',
             'implies(sys_path is None, result == find_module_on(old(sys.path), full_name, kwargs) '
             'or result == (None, None))'],
    witness={}, replay=lambda inp: _replay_module_info(inp), concrete_only=True,
    witness_library=[{'sys_path': []}, {'sys_path': ['/nonexistent-dir']}],
    concrete_ensures=['result == (None, None)', 'SYS_PATH_AFTER == SYS_PATH_BEFORE'],
)


def _replay_module_info(inp):
    """a module reachable only through the interpreter's own sys.path must NOT be found with the given path"""
    from pyvc.replay import run_real
    import sys
    import tempfile
    import shutil
    from jedi.inference.compiled.subprocess.functions import get_module_info
    d = tempfile.mkdtemp(prefix='c20_', dir='/var/tmp')
    try:
        with open(os.path.join(d, 'only_on_interpreter_path.py'), 'w') as f:
            f.write('x = 1\n')
        sys.path.insert(0, d)
        before = list(sys.path)
        try:
            out = run_real(lambda: get_module_info(None, sys_path=list(inp['sys_path']),
                                                   full_name='only_on_interpreter_path', string='only_on_interpreter_path'))
            after = list(sys.path)
        finally:
            sys.path[:] = [p for p in sys.path if p != d]
        if out['kind'] == 'return':
            out['value'] = tuple(None if v is None else (v if isinstance(v, bool) else 'found') for v in out['value'])
        return {'SYS_PATH_BEFORE': before, 'SYS_PATH_AFTER': after}, out
    finally:
        shutil.rmtree(d, ignore_errors=True)

_import_module = Contract(
    id='C12.import_module', prop='C12',
    clause='resolving an import only looks modules up, parses python files, or goes through the restricted '
           'builtin loader: no other effect is reachable, whatever the names (auto_import_modules included)',
    file='jedi/inference/imports.py', qualname='import_module',
    params={'inference_state': _IS, 'import_names': Seq(STR), 'parent_module_value': Opt(Obj('ModVal12')),
            'sys_path': Opt(Seq(STR))},
    families=['IS12', 'Sub12', 'ModVal12', 'Info12'], ret=ANY,
    requires=['len(import_names) >= 1'],
    effects_allowed=['find', 'parse', 'load-builtin'],
    ensures=['implies(import_names[0] in settings.auto_import_modules, '
             '"load-builtin" in EFFECTS and "find" not in EFFECTS and "parse" not in EFFECTS)'],
)

def _replay_get_env(inp):
    """a project directory that contains what looks like a virtualenv (.venv / venv with pyvenv.cfg and bin/python)"""
    from pyvc.replay import run_real
    import os
    import tempfile
    import shutil
    import jedi.api.project as pm
    d = tempfile.mkdtemp(prefix='c12env_', dir='/var/tmp')
    calls = []
    real_create, real_default = pm.create_environment, pm.get_cached_default_environment
    pm.create_environment = lambda path, **kw: calls.append(('create', str(path))) or ('env-for', str(path))
    pm.get_cached_default_environment = lambda: calls.append(('default',)) or 'DEFAULT'
    try:
        for name in ('.venv', 'venv'):
            os.makedirs(os.path.join(d, name, 'bin'))
            open(os.path.join(d, name, 'pyvenv.cfg'), 'w').write('home = /usr/bin\n')
            os.symlink('/usr/bin/python3', os.path.join(d, name, 'bin', 'python'))
        pr = pm.Project(d, environment_path=inp.get('environment_path'))
        out = run_real(lambda: (pr.get_environment(), list(calls)))
        exp = ('DEFAULT', [('default',)]) if inp.get('environment_path') is None else \
            (('env-for', inp['environment_path']), [('create', inp['environment_path'])])
        return {'EXPECTED': exp}, out
    finally:
        pm.create_environment, pm.get_cached_default_environment = real_create, real_default
        shutil.rmtree(d, ignore_errors=True)


_get_env = Contract(
    id='C12.Project.get_environment', prop='C12',
    clause='the interpreter that serves as helper process is the one the USER configured (environment_path) or jedi\'s '
           'default environment - never something found inside the analysed project (a .venv / venv directory of the '
           'project would run the project\'s site-packages .pth files at start-up)',
    file='jedi/api/project.py', qualname='Project.get_environment',
    params={'self': Obj('ProjEnv')}, families=['ProjEnv', 'EnvObj'], ret=Obj('EnvObj'),
    ensures=[
        'implies(old(self._environment) is not None, result == old(self._environment))',
        'implies(old(self._environment) is None and self._environment_path is not None, '
        'result == create_environment(the(self._environment_path), False))',
        'implies(old(self._environment) is None and self._environment_path is None, '
        'result == get_cached_default_environment())',
        'self._environment is not None and the(self._environment) == result',
    ],
    witness={}, replay=_replay_get_env, concrete_only=True, concrete_ensures=['result == EXPECTED'],
    witness_library=[{}, {'environment_path': '/opt/py/bin/python'}],
)

FAMILIES = [
    Family('ProjEnv', fields={'_environment': Opt(Obj('EnvObj'))}, attrs={'_environment_path': Opt(STR), '_path': PATH}),
    Family('EnvObj'),
    Family('SysMod', fields={'path': Seq(STR), 'modules': DictT(STR, ANY)}),
    Family('IS12', attrs={'project': Obj('Project12'), 'compiled_subprocess': Obj('Sub12'), 'grammar': ANY},
           methods={'get_sys_path': FnSpec('InferenceState.get_sys_path', ret=Seq(STR), pure=True, assumed=False,
                                           note='= Project._get_sys_path (C20)')}),
    Family('Project12', attrs={'_load_unsafe_extensions': BOOL},
           methods={'_get_base_sys_path': FnSpec('Project._get_base_sys_path', params=[('inference_state', _IS)],
                                                 ret=Seq(STR), pure=True, assumed=False,
                                                 note='environment sys.path without "" (C20)')}),
    Family('Sub12', methods={'get_module_info': FnSpec(
        'compiled_subprocess.get_module_info',
        params=[('string', STR), ('full_name', STR), ('sys_path', Opt(Seq(STR))), ('is_global_search', BOOL),
                ('path', Opt(Seq(STR)))],
        defaults={'sys_path': None, 'path': None}, ret=Tup(Opt(Obj('Info12')), Opt(BOOL)), pure=False,
        effects=['find'], assumed=True, note='finder lookup in the helper; find_spec does not execute module code')}),
    Family('ModVal12', methods={'py__path__': FnSpec('ModuleValue.py__path__', ret=Opt(Seq(STR)), pure=True)}),
    Family('Info12', attrs={'name': STR, 'paths': ANY}),
]

# the base path is ALSO the whitelist of directories compiled modules may be imported from: whoever composes the effective
# path must not extend that (memoised) list in place - Project._get_sys_path under its C20 contract, ownership frame
CONTRACTS = [_load_module, _load_builtin, _get_module_info, _import_module, _c20._base, _c20._get_sys_path, _get_env]


def _find_module_impl(V, st, self_val, args, kwargs, node):
    from pyvc.values import SV, MExc, box_any
    from pyvc.calls import call_spec
    V.assumed_used.add('_find_module')
    for cls in ('ImportError', 'Exception'):
        bad = st.fork()
        if V.feasible(bad.pc):
            V.exc_out.append((bad, MExc(cls, [], origin='_find_module')))
    cur = V.get_attr(st, V.reg.names['sys'], 'path', node)
    full = kwargs.get('full_name')
    rest = kwargs.get('**')
    if full is None or rest is None or args:
        from pyvc.values import Unsupported
        raise Unsupported('_find_module called with an unexpected argument shape')
    return call_spec(V, V.reg.names['find_module_on'], None, [cur, full, rest], {}, st, node)


def register(reg):
    import z3
    from pyvc.values import SV, MNS, MFn, MCls
    from pyvc.types import Ref
    sysobj = SV(Obj('SysMod'), z3.Const('sys!module', Ref))
    reg.names['sys'] = sysobj
    reg.names['__import__'] = FnSpec(
        '__import__', params=[('name', STR)], ret=ANY, raises=['ImportError', 'Exception'],
        modifies=[('SysMod', 'path'), ('SysMod', 'modules')], effects=['import'],
        ensures=['name in sys.modules'], assumed=True,
        note='runs the module\'s code: arbitrary effects on sys.path/sys.modules, arbitrary exceptions')
    reg.names['warnings'] = MNS('warnings', {'warn': MFn('spec', 'warnings.warn', spec=FnSpec(
        'warnings.warn', params=[('msg', STR), ('cat', ANY), ('stacklevel', INT)],
        defaults={'cat': None, 'stacklevel': 1}, ret=None, assumed=True, raises=['Exception'],
        note='raises when warnings are turned into errors (-W error, pytest filterwarnings)'))})
    reg.names['UserWarning'] = MCls('UserWarning')
    reg.names['create_environment'] = FnSpec('create_environment', params=[('path', STR), ('safe', BOOL)],
                                             defaults={'safe': True}, ret=Obj('EnvObj'), pure=True, assumed=True,
                                             note='environment for an interpreter path given by the user')
    reg.names['get_cached_default_environment'] = FnSpec('get_cached_default_environment', params=[], ret=Obj('EnvObj'),
                                                         pure=True, assumed=True, note='jedi\'s default environment')
    reg.names['traceback'] = MNS('traceback', {'format_exc': MFn('spec', 'format_exc', spec=FnSpec(
        'traceback.format_exc', ret=STR, assumed=True))})
    reg.names['create_access_path'] = FnSpec('create_access_path', params=[('inference_state', ANY), ('obj', ANY)],
                                             ret=ANY, pure=True, assumed=True)
    reg.names['compiled'] = MNS('compiled', {'load_module': MFn('spec', 'compiled.load_module', spec=FnSpec(
        'compiled.load_module', params=[('inference_state', _IS), ('dotted_name', STR), ('sys_path', Seq(STR))],
        ret=Opt(ANY), effects=['load_module'], assumed=False,
        requires=['safe_to_import(inference_state.project._load_unsafe_extensions, '
                  'inference_state.project._get_base_sys_path(inference_state), sys_path)'],
        note='forwards to access.load_module in the helper (forwarding chain checked structurally)'))})
    reg.names['find_module_on'] = FnSpec('find_module_on', params=[('path', Seq(STR)), ('full_name', ANY), ('kwargs', ANY)],
                                         ret=Tup(Opt(ANY), Opt(BOOL)), pure=True, assumed=True,
                                         note='what importlib\'s finders answer for a name when sys.path is `path`')
    reg.names['_find_module_abstract'] = FnSpec('_find_module', params=[('full_name', ANY)], varargs=True, ret=Tup(Opt(ANY), Opt(BOOL)),
                                       raises=['ImportError', 'Exception'], assumed=True,
                                       note='importlib finders: find_spec only')
    reg.names['_find_module'] = FnSpec('_find_module', impl=_find_module_impl, assumed=True,
                                       raises=['ImportError', 'Exception'],
                                       note='importlib finders (find_spec only): the answer is a function of the '
                                            'name, the options and sys.path AT THE TIME OF THE CALL; may raise')
    reg.names['_load_builtin_module'] = FnSpec(
        '_load_builtin_module', params=[('inference_state', _IS), ('import_names', Seq(STR)),
                                        ('sys_path', Opt(Seq(STR)))], ret=Opt(ANY), effects=['load-builtin'],
        assumed=False, note='C12._load_builtin_module')
    reg.names['_load_python_module'] = FnSpec(
        '_load_python_module', params=[('inference_state', _IS), ('file_io', Obj('Info12')), ('import_names', ANY),
                                       ('is_package', Opt(BOOL))], ret=ANY, effects=['parse'], assumed=False,
        note='reads and parses only (structural obligation below)')
    reg.names['NO_VALUES'] = SV(ANY, z3.Const('NO_VALUES', __import__('pyvc.types', fromlist=['AnySort']).AnySort))
    reg.names['ValueSet'] = FnSpec('ValueSet', params=[('values', None)], ret=ANY, assumed=True, pure=False)
    reg.names['ImplicitNSInfo'] = MCls('ImplicitNSInfo')
    reg.names['ImplicitNamespaceValue'] = FnSpec('ImplicitNamespaceValue',
                                                 params=[('inference_state', _IS), ('string_names', None), ('paths', ANY)],
                                                 ret=ANY, assumed=True)
    st = reg.names['settings']
    import pyvc.types as T
    st.members['auto_import_modules'] = SV(Seq(STR), z3.Const('settings.auto_import_modules', T.sort_of(Seq(STR))))


# ---------------------------------------------------------------- inventories
REGISTERED_EXEC = {
    ('jedi/_compatibility.py', 'pickle_load', 'Unpickler'),
    ('jedi/inference/compiled/access.py', 'load_module', '__import__'),
    ('jedi/inference/compiled/access.py', 'DirectObjectAccess.getattr_paths', '__import__'),
    ('jedi/inference/compiled/subprocess/__init__.py', '_GeneralizedPopen', 'subprocess.Popen'),
    ('jedi/inference/compiled/subprocess/__init__.py', 'CompiledSubprocess._get_process', '_GeneralizedPopen'),
}
REGISTERED_HOST_WRITES = {
    ('jedi/utils.py', 'setup_readline.JediRL.complete', 'sys.path.insert()'),      # REPL helper, not reachable from Script
    ('jedi/utils.py', 'setup_readline.JediRL.complete', 'sys.path.pop()'),
    ('jedi/api/__init__.py', '<module>', 'sys.setrecursionlimit()'),
    ('jedi/inference/compiled/access.py', 'load_module', 'sys.path ='),            # restored: C12.access.load_module
    ('jedi/inference/compiled/subprocess/__init__.py', 'Listener.listen', 'sys.stdout ='),     # helper process only
    ('jedi/inference/compiled/subprocess/__main__.py', '<module>', 'sys.meta_path.insert()'),   # helper bootstrap
    ('jedi/inference/compiled/subprocess/__main__.py', '<module>', 'sys.meta_path.pop()'),
    ('jedi/inference/compiled/subprocess/functions.py', 'get_module_info', 'sys.path ='),       # restored: C12.get_module_info
}


def structural_inventories(repo):
    out = []
    ex = inv.exec_primitive_sites(repo)
    out += inv.compare(ex, REGISTERED_EXEC, lambda s: (s[0], s[1], s[2]), 'effect', 'exec-primitives',
                       'no import/exec/spawn/unpickle primitive exists in jedi/ outside the registered sites '
                       '(access.load_module, getattr_paths, helper start, pickle protocol)',
                       'registered import/exec sites still exist')
    hw = inv.host_state_write_sites(repo)
    out += inv.compare(hw, REGISTERED_HOST_WRITES, lambda s: (s[0], s[1], s[2]), 'frame', 'host-writes',
                       'no write to sys.path / sys.modules / os.environ / cwd / sys.std* exists outside the registered '
                       'sites (each restored under contract or confined to the helper / REPL helper)',
                       'registered host-state writes still exist')
    from pyvc.verify import find_function

    def src_of(rel, qn):
        try:
            t = ast.parse(open(os.path.join(repo, rel), encoding='utf-8').read())
        except (OSError, SyntaxError):
            return None
        f = find_function(t, qn)
        return ast.unparse(f) if f else None
    # forwarding chain compiled.load_module -> subprocess -> functions.load_module -> access.load_module
    a = src_of('jedi/inference/compiled/__init__.py', 'load_module')
    b = src_of('jedi/inference/compiled/subprocess/functions.py', 'load_module')
    ok = a is not None and b is not None \
        and 'inference_state.compiled_subprocess.load_module(dotted_name=dotted_name, **kwargs)' in a \
        and 'return access.load_module(inference_state, **kwargs)' in b
    out.append({'id': 'forwarding-chain', 'kind': 'call-pre', 'ok': ok if (a and b) else None,
                'label': 'compiled.load_module forwards dotted_name and sys_path unchanged to access.load_module '
                         '(through the helper protocol)'})
    c = src_of('jedi/inference/imports.py', '_load_python_module')
    ok2 = c is not None and 'inference_state.parse(file_io=file_io, cache=True, diff_cache=settings.fast_parser, ' \
                            'cache_path=settings.cache_directory)' in c \
        and not any(w in c for w in ('__import__', 'exec(', 'eval(', 'import_module('))
    out.append({'id': 'python-files-parsed-only', 'kind': 'effect', 'ok': ok2 if c else None,
                'label': 'python source files are only read and parsed (_load_python_module: inference_state.parse '
                         'with the file_io, no import primitive)'})
    # the helper is started with the environment's executable, jedi's own __main__, no cwd / PYTHONPATH from the project
    d = src_of('jedi/inference/compiled/subprocess/__init__.py', 'CompiledSubprocess._get_process')
    ok3 = d is not None and 'args = (self._executable, _MAIN_PATH,' in d and 'env=self._env_vars' in d \
        and 'cwd=' not in d
    out.append({'id': 'helper-start', 'kind': 'effect', 'ok': ok3 if d else None,
                'label': 'the helper process is started with (executable, jedi\'s __main__.py, parso dir, version), '
                         'the environment\'s variables and no project cwd'})
    return out


# an environment computed from these is a recognised violation; any other unexpected form is undecided, not an alarm
_ENV_TAINT = ('os.environ', 'sys.path', 'PYTHONPATH', 'PYTHONSTARTUP', 'PYTHONHOME', 'getcwd')
_ENV_MUTATORS = ('pop', 'popitem', 'update', 'setdefault', 'clear', '__setitem__', '__delitem__')


def structural_helper_environment(repo):
    """host environment variables: the helper inherits the caller-configured variables unchanged (None = inherit), jedi
    adds nothing of its own (no PYTHONPATH from the host's sys.path or the project) and never writes to or aliases
    os.environ - decided on the AST of all of jedi/"""
    bad_assign, bad_kw, bad_environ, popen_env, alias_environ, odd_assign = [], [], [], [], [], []
    for rel, path in inv.py_files(repo):
        try:
            t = inv.parse(path)
        except SyntaxError:
            continue
        parents = {}
        for n in ast.walk(t):
            for ch in ast.iter_child_nodes(n):
                parents[ch] = n
        for n in ast.walk(t):
            if isinstance(n, (ast.Assign, ast.AugAssign, ast.AnnAssign)):
                tg = n.targets if isinstance(n, ast.Assign) else [n.target]
                for x in tg:
                    if isinstance(x, ast.Attribute) and x.attr == '_env_vars':
                        rhs = ast.unparse(n.value) if n.value is not None else ''
                        if rhs not in ('env_vars', 'None') or isinstance(n, ast.AugAssign):
                            (bad_assign if any(w in rhs for w in _ENV_TAINT) else odd_assign).append(
                                '%s:%d %s' % (rel, n.lineno, ast.unparse(n)[:90]))
            if isinstance(n, ast.Call):
                for k in n.keywords:
                    if k.arg == 'env_vars' and ast.unparse(k.value) not in ('env_vars', 'self._env_vars'):
                        (bad_kw if any(w in ast.unparse(k.value) for w in _ENV_TAINT) else odd_assign).append(
                            '%s:%d %s' % (rel, n.lineno, ast.unparse(k.value)[:60]))
                    if k.arg == 'env' and 'Popen' in ast.unparse(n.func):
                        popen_env.append((rel, ast.unparse(k.value)))
            if isinstance(n, ast.Attribute) and n.attr == 'environ' and ast.unparse(n.value) == 'os':
                par = parents.get(n)
                gp = parents.get(par)
                where = '%s:%d %s' % (rel, n.lineno, ast.unparse(par if par is not None else n)[:90])
                if isinstance(par, ast.Attribute) and isinstance(gp, ast.Call) and gp.func is par:
                    if par.attr in _ENV_MUTATORS:
                        bad_environ.append(where)            # os.environ.pop(...) etc.
                    continue                                  # .get / .copy / .items ...: reads
                if isinstance(par, ast.Subscript) and par.value is n:
                    if not isinstance(par.ctx, ast.Load):
                        bad_environ.append(where)            # os.environ[k] = v / del os.environ[k]
                    continue
                if isinstance(par, ast.Compare):
                    continue
                if isinstance(par, ast.Call) and isinstance(par.func, ast.Name) and par.func.id in ('dict', 'sorted', 'list', 'len') \
                        and par.args and par.args[0] is n:
                    continue                                  # a copy
                # anything else lets the mapping itself escape (alias): follow the name inside the same function
                fn = par
                while fn is not None and not isinstance(fn, (ast.FunctionDef, ast.AsyncFunctionDef, ast.Module)):
                    fn = parents.get(fn)
                stmt = par
                while stmt is not None and not isinstance(stmt, ast.stmt):
                    stmt = parents.get(stmt)
                names = [x.id for x in getattr(stmt, 'targets', []) if isinstance(x, ast.Name)] \
                    if isinstance(stmt, ast.Assign) else []
                mutated = False
                for m in ast.walk(fn) if fn is not None else []:
                    if isinstance(m, ast.Call) and isinstance(m.func, ast.Attribute) and isinstance(m.func.value, ast.Name) \
                            and m.func.value.id in names and m.func.attr in _ENV_MUTATORS:
                        mutated = True
                    if isinstance(m, ast.Subscript) and isinstance(m.value, ast.Name) and m.value.id in names \
                            and not isinstance(m.ctx, ast.Load):
                        mutated = True
                (bad_environ if mutated else alias_environ).append(where)
    ok_popen = popen_env == [('jedi/inference/compiled/subprocess/__init__.py', 'self._env_vars')]
    out = [
        {'id': 'helper-env:vars-unchanged', 'kind': 'effect',
         'ok': False if (bad_assign or bad_kw) else (None if odd_assign else True),
         'definite': bool(bad_assign or bad_kw),
         'label': 'the environment variables of the helper are exactly what the caller configured (env_vars parameter, '
                  'None = inherit): jedi computes none of its own (e.g. a PYTHONPATH that would put host or project '
                  'directories on the helper\'s start-up path)', 'detail': repr(bad_assign + bad_kw + odd_assign)},
        {'id': 'helper-env:popen', 'kind': 'effect', 'ok': True if ok_popen else None,
         'definite': False,
         'label': 'the only Popen with an env argument passes self._env_vars itself', 'detail': repr(popen_env)},
        {'id': 'helper-env:os.environ-read-only', 'kind': 'frame',
         'ok': False if bad_environ else (None if alias_environ else True), 'definite': bool(bad_environ),
         'label': 'os.environ is only read (get / item lookup / copies): it is never written to, deleted from, or changed '
                  'through a local alias (an alias that is not followed further leaves this undecided)',
         'detail': repr(bad_environ + alias_environ)},
    ]
    return out


def _standin(repo, seed, tier):
    from pyvc.standin import run_standin
    return run_standin('C12', tier, seed, repo)


_standin.tiers = ('quick', 'thorough')
BOUNDED = [_standin]
STRUCTURAL = [structural_inventories, structural_helper_environment]
NOT_DECIDED = ['what the target interpreter does at start-up (site, .pth in its own site-packages)',
               'third-party meta-path finders executing code in find_spec',
               'getattr_paths.__import__(return_obj.__module__): name of an already live object in the helper (assumed '
               'not project-controlled)', 'plugins (pytest/django/buildout) read-only effect contracts: pending']
TRUSTED = ['__import__ contract (arbitrary effects, arbitrary exceptions)', 'warnings.warn does not raise',
           'find_spec of the standard finders does not execute module code']
