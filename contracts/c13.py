"""C13 — Interpreter reflects the live objects; safe mode runs no user descriptors.

Effect contracts: every operation on a live object (DirectObjectAccess._obj and what is read from it) that can
run user code - truth test, len(), iteration, subscription, call, normal attribute access - is an effect
obligation that must be guarded by "unsafe executions allowed" or by an exact builtin-type test."""
import ast
import os
from pyvc.api import *

SPEC_IMPORTS = ['contracts.common', 'contracts.c04']
SPEC_FUNCTIONS = ['has_slot', 'is_data_descriptor', 'annotation_values']


def annotation_values(inference_state, ann):
    return create_from_access_path(inference_state, ann).execute_annotation(None)


def has_slot(x, name):
    """static: the class of x (or a base) defines `name` - what _safe_hasattr computes"""
    return _check_class(type(x), name) is not _sentinel


def is_data_descriptor(x):
    """Python data model: a descriptor that defines __set__ OR __delete__ takes precedence over the instance dict"""
    return has_slot(x, '__get__') and (has_slot(x, '__set__') or has_slot(x, '__delete__'))

_L = Obj('Live')
_DOA = Obj('DOA')

# guards accepted for an effect on OPERAND
_G_ITEM = '(type(OPERAND) in ALLOWED_GETITEM_TYPES or builtin_view(OPERAND))'
_G_BOOL = 'type(OPERAND) in ALLOWED_BOOL_TYPES'


def _guards(safe_param):
    pre = ('not safe or ' if safe_param else '')
    return {
        'user:bool': pre + _G_BOOL, 'user:len': pre + _G_BOOL,
        'user:iter': pre + _G_ITEM, 'user:getitem': pre + _G_ITEM,
        'user:call': pre + 'False',
        'user:getattr:*': pre + 'False',
        # reading these special attributes is a type-slot / instance-dict read for every object whose class does not
        # define them as a property; the property's list of user code (property getter, user descriptor __get__,
        # __getitem__, __iter__, __next__, __call__, __len__, __bool__) is reached only if the class overrides
        # them with a descriptor - stated assumption, see NOT_DECIDED
        'user:getattr:__iter__': 'True', 'user:getattr:__getitem__': 'True', 'user:getattr:__class__': 'True',
        'user:getattr:__mro__': 'True', 'user:getattr:__bases__': 'True', 'user:getattr:__file__': 'True',
        'user:getattr:__name__': 'True', 'user:getattr:__module__': 'True',
        # keys() of a mapping found in a namespace: a plain method call, not one of the special methods the property
        # lists; what it returns is iterated by builtin code when it is the view of a builtin dict
        'user:getattr:keys': 'True',
        # .values() is looked up on the object: builtin code only for an exact builtin dict
        'user:getattr:values': pre + 'type(OPERAND) in ALLOWED_GETITEM_TYPES',
    }


def _mk_replay(name, call):
    def replay(inp):
        """run the real access method in safe mode on an object whose special methods count their calls"""
        from pyvc.replay import run_real
        from jedi.inference.compiled.access import DirectObjectAccess
        calls = []

        def counted(tag, ret):
            def f(self, *a):
                calls.append(tag)
                return ret() if callable(ret) else ret
            return f
        ns = {'__bool__': counted('__bool__', True), '__len__': counted('__len__', 1),
              '__iter__': counted('__iter__', lambda: iter([1, 2])), '__getitem__': counted('__getitem__', 1),
              '__call__': counted('__call__', 1), 'prop': property(counted('property getter', 1))}
        base = {'object': object, 'list': list, 'dict': dict}[inp['base']]
        cls = type('User', (base,), ns)
        obj = cls()

        class FakeState:
            class compiled_subprocess:
                @staticmethod
                def get_or_create_access_handle(o):
                    class H:
                        access = None

                        @staticmethod
                        def get_access_path_tuples():
                            return ()
                    return H
        access = DirectObjectAccess(FakeState, obj)
        out = run_real(lambda: call(access))
        if out['kind'] == 'raise' and out['cls'][0] in ('AttributeError', 'TypeError', 'KeyError', 'IndexError'):
            out = {'kind': 'return', 'value': None}
        return {'USER_CODE_CALLS': list(calls)}, out
    return replay


def _c(name, params, safe_param=False, requires=(), call=None, **kw):
    if call is not None:
        kw['replay'] = _mk_replay(name, call)
        kw['witness'] = {}
        kw['witness_library'] = [{'base': 'object'}, {'base': 'list'}, {'base': 'dict'}]
        kw['concrete_ensures'] = ['USER_CODE_CALLS == []']
    return Contract(
        id='C13.DirectObjectAccess.' + name, prop='C13',
        clause='safe mode: %s performs no operation that runs user-defined __bool__/__len__/__iter__/__next__/'
               '__getitem__/__call__ or a property/descriptor getter on the live object, unless it is of an exact '
               'builtin type (or unsafe executions were requested explicitly)' % name,
        file='jedi/inference/compiled/access.py', qualname='DirectObjectAccess.' + name,
        params=dict({'self': _DOA}, **params), families=['DOA', 'Live', 'Type'],
        effects_allowed=[], effect_guard=_guards(safe_param), requires=list(requires), safety=False,
        cover=True, **kw)


_bool = _c('py__bool__', {'safe': BOOL}, True, call=lambda a: a.py__bool__(safe=True))
_has_iter = _c('has_iter', {'safe': BOOL}, True, call=lambda a: a.has_iter(safe=True))
_getitem = _c('py__simple_getitem__', {'index': ANY, 'safe': BOOL}, True,
              call=lambda a: a.py__simple_getitem__(0, safe=True))
_getitem_all = _c('py__getitem__all_values', {'safe': BOOL}, True, unroll={0: 2, 1: 2},
                  call=lambda a: a.py__getitem__all_values(safe=True))
_key_paths = Contract(
    id='C13.DirectObjectAccess.get_key_paths.iter_partial_keys', prop='C13',
    clause='listing the keys of a mapping for dict-key completion goes through keys() and the builtin iteration of '
           'that view: the mapping\'s own (possibly user-defined) __iter__ / __getitem__ / __len__ is never used',
    file='jedi/inference/compiled/access.py', qualname='DirectObjectAccess.get_key_paths.iter_partial_keys',
    params={}, free={'self': _DOA}, families=['DOA', 'Live', 'Type'], yields=_L,
    effects_allowed=[], effect_guard=_guards(False), safety=False, unroll={0: 2}, cover=True,
    replay=_mk_replay('get_key_paths', lambda a: len(a.get_key_paths())), witness={}, concrete_only=True,
    witness_library=[{'base': 'dict'}], concrete_ensures=['USER_CODE_CALLS == []'],
)
_iter_list = _c('py__iter__list', {}, False, unroll={0: 2}, call=lambda a: a.py__iter__list())
_class = _c('py__class__', {}, False)
_bases = _c('py__bases__', {}, False, unroll={0: 2})

FAMILIES = [
    Family('CVF', attrs={'_inference_state': Obj('IS13'), 'is_instance': BOOL, 'compiled_value': ANY},
           methods={'_get_cached_name': FnSpec('CVF._get_cached_name', params=[('name', STR), ('is_empty', BOOL),
                                                                                ('is_descriptor', BOOL)],
                                               defaults={'is_empty': False, 'is_descriptor': False}, ret=ANY,
                                               pure=True, assumed=True, note='memoised name construction')}),
    Family('IS13', attrs={'allow_unsafe_executions': BOOL}),
    Family('AccessPath13', methods={'execute_annotation': FnSpec(
        'CompiledValue.execute_annotation', params=[('arguments', Opt(ANY))], ret=Seq(ANY), pure=True, assumed=True,
        note='the values an annotation object stands for (a value set, here a sequence); empty if unresolvable')}),
    Family('Live', methods={
        'keys': FnSpec('dict.keys', ret=_L, pure=True, assumed=True, ensures=['builtin_view(result)'],
                       note='a keys view is iterated by builtin code (dict_keys.__iter__), not by the mapping\'s __iter__'),
        'values': FnSpec('dict.values', ret=_L, pure=True, assumed=True,
                         ensures=['implies(type(self) in ALLOWED_GETITEM_TYPES, builtin_view(result))'],
                         note='the values view of an exact builtin dict is iterated by builtin code'),
    }),
    Family('Type'),
    Family('DOA', attrs={'_obj': _L, '_inference_state': ANY},
           methods={
               '_create_access_path': FnSpec('DOA._create_access_path', params=[('obj', _L)], ret=ANY, pure=True,
                                             assumed=True, note='wraps the object, no operation on it'),
               '_create_access': FnSpec('DOA._create_access', params=[('obj', _L)], ret=ANY, pure=True, assumed=True),
               'is_instance': FnSpec('DOA.is_instance', ret=BOOL, pure=True, assumed=True),
               'py__getitem__all_values': FnSpec('DOA.py__getitem__all_values', params=[('safe', BOOL)],
                                                 defaults={'safe': True}, ret=Opt(Seq(ANY)), assumed=False,
                                                 note='recursive call on the class object: same contract'),
           }),
]

def _region_static(func):
    """getattr_static up to (excluding) the metaclass fallback `if obj is klass:`"""
    out = []
    for s_ in func.body:
        if isinstance(s_, ast.If) and ast.unparse(s_.test) == 'obj is klass':
            return out
        out.append(s_)
    return None


def _replay_static(inp):
    """real objects: a descriptor of the given shape on the class, shadowed by an instance __dict__ entry"""
    from pyvc.replay import run_real
    from jedi.inference.compiled.getattr_static import getattr_static
    calls = []
    ns = {'__get__': lambda self, o, t=None: calls.append('get') or 1}
    if 'set' in inp['shape']:
        ns['__set__'] = lambda self, o, v: None
    if 'delete' in inp['shape']:
        ns['__delete__'] = lambda self, o: None
    D = type('D', (), ns)
    d = D()
    C = type('C', (), {'attr': d})
    obj = C()
    obj.__dict__['attr'] = 'shadow'
    out = run_real(lambda: getattr_static(obj, 'attr'))
    data = 'set' in inp['shape'] or 'delete' in inp['shape']
    # what normal attribute access does (the oracle): a data descriptor wins over the instance dict
    calls.clear()
    real = getattr(obj, 'attr')
    uses_get = bool(calls)
    return {'uses_get': uses_get, 'data': data}, out


_static = Contract(
    id='C13.getattr_static', prop='C13',
    clause='the static lookup reports is_get_descriptor=True exactly when normal attribute access would go through '
           'a descriptor __get__: a class attribute with __get__ that is a data descriptor (__set__ or __delete__) '
           'wins over the instance dict; otherwise the instance dict entry (flag False); otherwise the class '
           'attribute with flag = has __get__',
    file='jedi/inference/compiled/getattr_static.py', qualname='getattr_static', region=_region_static,
    params={'obj': _L, 'attr': STR, 'default': _L},
    free={'instance_result': _L, 'klass_result': _L},
    families=['Live'], ret=Opt(Tup(_L, BOOL)),
    inline=['_safe_hasattr', '_safe_is_data_descriptor'],
    ensures=[
        'NEW_klass_result == _check_class(obj if _is_type(obj) else type(obj), attr)',
        'implies(_is_type(obj), NEW_instance_result is _sentinel)',
        'implies(NEW_instance_result is not _sentinel and NEW_klass_result is not _sentinel '
        'and is_data_descriptor(NEW_klass_result), result == (NEW_klass_result, True))',
        'implies(NEW_instance_result is not _sentinel and not (NEW_klass_result is not _sentinel '
        'and is_data_descriptor(NEW_klass_result)), result == (NEW_instance_result, False))',
        'implies(NEW_instance_result is _sentinel and NEW_klass_result is not _sentinel, '
        'result == (NEW_klass_result, has_slot(NEW_klass_result, "__get__")))',
        'implies(NEW_instance_result is _sentinel and NEW_klass_result is _sentinel, result is None)',
    ],
    witness={}, replay=_replay_static, concrete_only=True,
    witness_library=[{'shape': 'get+set'}, {'shape': 'get+delete'}, {'shape': 'get+set+delete'}, {'shape': 'get'}],
    concrete_ensures=['result[1] == uses_get', 'implies(not data, result[0] == "shadow")'],
    notes='block contract on the statements before the metaclass fallback; _check_class/_check_instance/'
          '_shadowed_dict/_is_type are abstract pure lookups (they use type.__dict__ / object.__getattribute__ only)',
)

_INFO = Tup(BOOL, BOOL, Opt(ANY))
_allowed_cb = FnSpec('allowed_getattr_callback', params=[('name', STR)], ret=_INFO, pure=True, assumed=False,
                     note='is_allowed_getattr (static) or the dir_infos entry: abstract')
_in_dir_cb = FnSpec('in_dir_callback', params=[('name', STR)], ret=BOOL, pure=True, assumed=False)


def _replay_get(inp):
    """the real filter on a live object with a property whose return annotation resolves to nothing"""
    from pyvc.replay import run_real
    import jedi
    calls = []

    class Obj13:
        @property
        def prop(self) -> 'list of float':
            calls.append('getter')
            return [1.0]
        plain = 1
    old = jedi.settings.allow_unsafe_interpreter_executions
    jedi.settings.allow_unsafe_interpreter_executions = inp['unsafe']
    try:
        o = Obj13()
        out = run_real(lambda: sorted(c.name for c in jedi.Interpreter('o.', [{'o': o}]).complete()))
    finally:
        jedi.settings.allow_unsafe_interpreter_executions = old
    return {'DIR': sorted(n for n in dir(Obj13())), 'GETTER_CALLS': list(calls), 'unsafe': inp['unsafe']}, out


_filter_get = Contract(
    id='C13.CompiledValueFilter._get', prop='C13',
    clause='names after "obj.": for every name dir() lists, _get (as called by values(): no has-attribute check) '
           'returns at least one name; in safe mode a descriptor hit whose annotation yields no values becomes the '
           'empty placeholder name (no getattr), never nothing',
    file='jedi/inference/compiled/value.py', qualname='CompiledValueFilter._get',
    params={'self': Obj('CVF'), 'name': STR, 'allowed_getattr_callback': _allowed_cb, 'in_dir_callback': _in_dir_cb,
            'check_has_attribute': BOOL},
    families=['CVF', 'IS13', 'AccessPath13'], ret=Seq(ANY),
    ensures=[
        'implies(not check_has_attribute and in_dir_callback(name), len(result) >= 1)',
        'implies(not self._inference_state.allow_unsafe_executions '
        'and (allowed_getattr_callback(name)[1] or not allowed_getattr_callback(name)[0]) '
        'and (allowed_getattr_callback(name)[2] is None or len(annotation_values(self._inference_state, '
        'allowed_getattr_callback(name)[2])) == 0) '
        'and (allowed_getattr_callback(name)[0] or not check_has_attribute), '
        'result == [self._get_cached_name(name, is_empty=True)])',
        'implies(check_has_attribute and not allowed_getattr_callback(name)[0] '
        'and (allowed_getattr_callback(name)[2] is None or len(annotation_values(self._inference_state, '
        'allowed_getattr_callback(name)[2])) == 0), result == [])',
    ],
    witness={}, replay=_replay_get, concrete_only=True, witness_library=[{'unsafe': False}, {'unsafe': True}],
    concrete_ensures=['all(n in result for n in DIR)', 'implies(not unsafe, GETTER_CALLS == [])'],
)

CONTRACTS = [_bool, _has_iter, _getitem, _getitem_all, _iter_list, _key_paths, _static, _filter_get]


def register(reg):
    from pyvc.values import MOpaqueSet, MCls, MNS, SV
    import z3 as _z3
    from pyvc.types import Ref as _Ref
    for nm, params, ret in (('_is_type', [('obj', _L)], BOOL), ('_shadowed_dict', [('klass', _L)], _L),
                            ('_check_instance', [('obj', _L), ('attr', STR)], _L),
                            ('_check_class', [('klass', _L), ('attr', STR)], _L)):
        reg.names[nm] = FnSpec(nm, params=params, ret=ret, pure=True, assumed=True,
                               note='static lookup helper of getattr_static.py (type.__dict__ / '
                                    'object.__getattribute__ only; runs no user code)')
    reg.names['create_from_access_path'] = FnSpec(
        'create_from_access_path', params=[('inference_state', Obj('IS13')), ('access_path', ANY)],
        ret=Obj('AccessPath13'), pure=True, assumed=True, note='wraps the annotation object; no operation on it')
    reg.names['CompiledValueName'] = FnSpec('CompiledValueName', params=[('value', ANY), ('name', STR)], ret=ANY,
                                            pure=True, assumed=True)
    reg.names['builtin_view'] = FnSpec('builtin_view', params=[('o', _L)], ret=BOOL, pure=True, assumed=True,
                                       note='ghost: a dict view object of an exact builtin dict')
    reg.names['_sentinel'] = SV(_L, _z3.Const('getattr_static._sentinel', _Ref))
    reg.names['types'] = MNS('types', {
        'MemberDescriptorType': SV(_L, _z3.Const('types.MemberDescriptorType', _Ref)),
        'GetSetDescriptorType': SV(_L, _z3.Const('types.GetSetDescriptorType', _Ref))})
    reg.names['ALLOWED_GETITEM_TYPES'] = MOpaqueSet('ALLOWED_GETITEM_TYPES')
    reg.names['ALLOWED_BOOL_TYPES'] = MOpaqueSet('ALLOWED_BOOL_TYPES')
    reg.names['getattr_static'] = FnSpec('getattr_static', params=[('obj', None), ('name', STR)], ret=Tup(_L, BOOL),
                                         raises=['AttributeError'], assumed=True,
                                         note='static lookup through type.__dict__/object.__getattribute__: runs no '
                                              'user code (bounded stand-in in the thorough tier)')
    reg.names['DirectObjectAccess'] = FnSpec('DirectObjectAccess', params=[('inference_state', ANY), ('obj', _L)],
                                             ret=_DOA, pure=True, assumed=False,
                                             ensures=['result._obj == obj'])
    doa = reg.families['DOA']
    doa.methods['get_return_annotation'] = FnSpec('DOA.get_return_annotation', ret=Opt(ANY), pure=True, assumed=True,
                                                  note='inspects the signature object of a function: annotations only')


# --------------------------------------------------------------------------------------- structural
def structural(repo):
    out = []
    from pyvc.verify import find_function

    def tree(rel):
        try:
            return ast.parse(open(os.path.join(repo, rel), encoding='utf-8').read())
        except (OSError, SyntaxError):
            return None

    def norm(n):
        return ' '.join(ast.unparse(n).split()) if n is not None else ''
    t = tree('jedi/inference/compiled/access.py')
    # the allowed-type constants are exact builtin types only
    want_item = {'str', 'list', 'tuple', 'bytes', 'bytearray', 'dict'}
    want_bool_extra = {'bool', 'int', 'float', 'complex', 'set', 'frozenset', 'type(None)'}
    consts = {}
    if t is not None:
        for s in t.body:
            if isinstance(s, ast.Assign) and isinstance(s.targets[0], ast.Name):
                consts[s.targets[0].id] = s.value
    item = consts.get('ALLOWED_GETITEM_TYPES')
    ok = isinstance(item, ast.Tuple) and {ast.unparse(e) for e in item.elts} <= want_item
    out.append({'id': 'allowed-getitem-types', 'definite': True, 'kind': 'effect', 'ok': ok if t else None,
                'label': 'ALLOWED_GETITEM_TYPES contains only exact builtin container types (their special methods '
                         'are not user code)', 'detail': norm(item)})
    b = consts.get('ALLOWED_BOOL_TYPES')
    okb = False
    if isinstance(b, ast.BinOp) and isinstance(b.op, ast.Add) and norm(b.left) == 'ALLOWED_GETITEM_TYPES' \
            and isinstance(b.right, ast.Tuple):
        okb = {ast.unparse(e) for e in b.right.elts} <= want_bool_extra
    out.append({'id': 'allowed-bool-types', 'definite': True, 'kind': 'effect', 'ok': okb if t else None,
                'label': 'ALLOWED_BOOL_TYPES = ALLOWED_GETITEM_TYPES + exact builtin scalar/set types',
                'detail': norm(b)})
    # the setting is copied onto the inference state, and is the only writer
    t2 = tree('jedi/api/__init__.py')
    ii = find_function(t2, 'Interpreter.__init__') if t2 else None
    s2 = norm(ii)
    ok2 = ii is not None and 'self._inference_state.allow_unsafe_executions = ' \
                             'settings.allow_unsafe_interpreter_executions' in s2
    out.append({'id': 'setting-copied', 'kind': 'effect', 'ok': ok2 if ii else None,
                'label': 'Interpreter.__init__ copies settings.allow_unsafe_interpreter_executions onto the inference state'})
    writers = []
    from pyvc import inventory as inv
    for rel, path in inv.py_files(repo):
        try:
            tt = inv.parse(path)
        except SyntaxError:
            continue
        for n in ast.walk(tt):
            if isinstance(n, ast.Assign):
                for tg in n.targets:
                    if isinstance(tg, ast.Attribute) and tg.attr == 'allow_unsafe_executions':
                        writers.append((rel, n.lineno, norm(n.value)))
    okw = sorted(w[0] for w in writers) == ['jedi/api/__init__.py', 'jedi/inference/__init__.py'] \
        and any(w[2] == 'False' for w in writers)
    out.append({'id': 'setting-writers', 'kind': 'effect', 'ok': okw,
                'label': 'allow_unsafe_executions is written only by InferenceState.__init__ (False) and Interpreter.__init__',
                'detail': repr(writers)})
    # callers pass safe = not allow_unsafe_executions: EVERY call of a safe-sensitive access method on an access
    # handle, anywhere in jedi/ (a new call site without the flag runs user code in safe mode: the defaults of
    # py__bool__ / has_iter are safe=False)
    t3 = tree('jedi/inference/compiled/value.py')
    sites = []
    from pyvc import inventory as inv2
    for rel, path in inv2.py_files(repo):
        try:
            tt = inv2.parse(path)
        except SyntaxError:
            continue
        for n in ast.walk(tt):
            if isinstance(n, ast.Call) and isinstance(n.func, ast.Attribute) \
                    and n.func.attr in ('py__bool__', 'has_iter', 'py__simple_getitem__', 'py__getitem__all_values') \
                    and ('access_handle' in norm(n.func.value) or rel.endswith('compiled/access.py')):
                kw = {k.arg: norm(k.value) for k in n.keywords}
                sites.append((rel, n.lineno, n.func.attr, kw.get('safe')))
    bad_sites = [x for x in sites if x[3] is None]
    odd_sites = [x for x in sites if x[3] is not None and not (x[3] == 'safe' or (x[3].startswith('not ')
                                                                                  and x[3].endswith('allow_unsafe_executions')))]
    okc = bool(sites) and not bad_sites and not odd_sites
    out.append({'id': 'callers-pass-safe', 'kind': 'call-pre', 'ok': okc if t3 else None, 'definite': bool(bad_sites),
                'label': 'every call of py__bool__ / has_iter / py__simple_getitem__ / py__getitem__all_values on an access '
                         'handle passes safe = not allow_unsafe_executions (or hands its own safe flag on)',
                'detail': 'without safe: %r; other: %r; all: %r' % (bad_sites, odd_sites, sites)})
    # descriptor hits become empty names unless unsafe executions are allowed
    g = find_function(t3, 'CompiledValueFilter._get') if t3 else None
    s3 = norm(g)
    okg = g is not None and 'if (is_descriptor or not has_attribute) and (not self._inference_state.allow_unsafe_executions): ' \
                            'return [self._get_cached_name(name, is_empty=True)]' in s3
    out.append({'id': 'descriptor-hits-empty', 'kind': 'effect', 'ok': okg if g else None,
                'label': 'descriptor hits (and names getattr_static cannot find) become empty names unless unsafe '
                         'executions are allowed: no getattr on them'})
    ia = find_function(t, 'DirectObjectAccess.is_allowed_getattr') if t else None
    s4 = norm(ia)
    oki = ia is not None and 'attr, is_get_descriptor = getattr_static(self._obj, name)' in s4 \
        and 'if is_get_descriptor and type(attr) not in ALLOWED_DESCRIPTOR_ACCESS:' in s4 \
        and 'if not safe:' in s4
    out.append({'id': 'is-allowed-getattr', 'kind': 'effect', 'ok': oki if ia else None,
                'label': 'is_allowed_getattr decides statically (getattr_static); hasattr() on the live object only '
                         'with safe=False'})
    # completeness: values() yields a name for every entry of dir()
    v = find_function(t3, 'CompiledValueFilter.values') if t3 else None
    s5 = norm(v)
    okv = v is not None and 'for name in dir_infos: names += self._get(name, lambda name: dir_infos[name], ' \
                            'lambda name: name in dir_infos)' in s5
    gd = find_function(t, 'DirectObjectAccess.get_dir_infos') if t else None
    s6 = norm(gd)
    okd = gd is not None and 'dict(((name, self.is_allowed_getattr(name)) for name in self.dir()))' in s6
    out.append({'id': 'dir-completeness', 'kind': 'post', 'ok': (okv and okd) if (v and gd) else None,
                'label': 'names offered after "obj." include everything dir(obj) lists: values() asks _get for every '
                         'name of dir() (without the has-attribute check), and _get returns a name for each'})
    return out


def _standin(repo, seed, tier):
    from pyvc.standin import run_standin
    return run_standin('C13', tier, seed, repo)


_standin.tiers = ('quick', 'thorough')
BOUNDED = [_standin]
STRUCTURAL = [structural]
NOT_DECIDED = [
    'special attributes read with normal attribute access (__class__, __iter__, __getitem__, __mro__, __bases__, '
    '__name__, __file__): user code runs only if the class overrides them with a property/descriptor; not decided',
    'py__getitem__all_values: isinstance-guarded iteration/values() of list/tuple/dict SUBCLASSES',
    'getattr_static precedence rules (assumed; bounded stand-in planned)', 'mixed.py object inference',
    'isinstance()/inspect.* on live objects (may consult a __class__ property)',
]
TRUSTED = ['exact builtin types have no user-defined special methods', 'getattr_static runs no user code']


def dynamic_contracts(repo):
    """completeness: the names offered after `obj.` include everything dir(obj) lists - the last stage of complete()
    drops a name only as a duplicate of an IDENTICAL (name, completion) pair (contract shared with C04)"""
    from contracts import c04
    return [c for c in c04.CONTRACTS if c.id == 'C04.filter_names']
