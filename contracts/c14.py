"""C14 — A crash of the helper process is contained and recovered from."""
import ast
import os
from pyvc.api import *

SPEC_IMPORTS = ['contracts.common', 'contracts.c08']
SPEC_FUNCTIONS = []

_CS = Obj('CS')

_io_note = ('assumed I/O contract (CPython): pickle_dump to a dead reader raises BrokenPipeError; pickle_load '
            'raises EOFError when the stream ended before any byte and UnpicklingError when it ended inside a '
            'pickle; otherwise returns the reply triple')
_pickle_dump = FnSpec('pickle_dump', params=[('data', None), ('file', ANY), ('protocol', ANY)], ret=None,
                      raises=['BrokenPipeError'], effects=['io.write'], assumed=True, note=_io_note)
_pickle_load = FnSpec('pickle_load', params=[('file', ANY)], ret=Tup(BOOL, ANY, Obj('Reply')),
                      raises=['EOFError', 'UnpicklingError'], effects=['io.read'], assumed=True, note=_io_note,
                      ensures=['result == next_reply(file)'])


def _replay_send(inp):
    """crash phases against the real _send with in-memory streams"""
    from pyvc.replay import run_real
    import io
    import pickle
    import queue
    from jedi.inference.compiled.subprocess import CompiledSubprocess
    full = pickle.dumps((False, None, list(range(50))))
    phase = inp['phase']

    class DeadIn(io.BytesIO):
        def write(self, b):
            raise BrokenPipeError(32, 'Broken pipe')

    class P:
        pass
    proc = P()
    proc.stdin = DeadIn() if phase == 'before-send' else io.BytesIO()
    proc.stdout = io.BytesIO({'before-send': b'', 'no-reply': b'', 'truncated': full[:len(full) // 2],
                              'ok': full}[phase])
    proc.stderr = io.BytesIO(b'helper died')
    cs = CompiledSubprocess('/nonexistent/python')
    cs._stderr_queue = queue.Queue()
    cleaned = []
    cs._cleanup_callable = lambda: cleaned.append(1)
    cs._get_process = lambda: proc
    cs.is_crashed = inp['crashed']
    was = cs.is_crashed
    out = run_real(lambda: cs._send(1, len, ((),), {}))

    class Old:
        is_crashed = was
    env = {'self': cs, 'EFFECTS': ['cleanup'] if cleaned else [], 'inference_state_id': 1,
           'exc_class': out['cls'][0] if out['kind'] == 'raise' else '', 'old': lambda x: was}
    # `old(self.is_crashed)` is evaluated by the generic evaluator as self.is_crashed: provide entry value
    env['was_crashed'] = was
    return env, out


_send = Contract(
    id='C14._send', prop='C14',
    clause='a dead helper makes the request fail with InternalError and nothing else, marks the helper crashed '
           'and runs the cleanup; a crashed helper is refused without I/O; the only other exception is the one the '
           'helper reported; otherwise the reply is returned and the crash flag is untouched',
    file='jedi/inference/compiled/subprocess/__init__.py', qualname='CompiledSubprocess._send',
    params={'self': _CS, 'inference_state_id': ANY, 'function': ANY, 'args': ANY, 'kwargs': ANY},
    families=['CS', 'Proc', 'Stream', 'Bytes', 'Reply'],
    names={'pickle_dump': _pickle_dump, 'pickle_load': _pickle_load},
    raises={'InternalError': None, 'Raised[Reply]': 'next_reply(self._get_process().stdout)[0]'},
    ret=Obj('Reply'),
    ensures=['not old(self.is_crashed)', 'not self.is_crashed',
             # the reply of the helper is what the caller gets (exception replies are raised, never returned)
             'result == next_reply(self._get_process().stdout)[2]',
             'not next_reply(self._get_process().stdout)[0]'],
    ensures_exc=[
        'implies(exc_class == "InternalError", self.is_crashed)',
        'implies(exc_class == "InternalError" and not old(self.is_crashed), "cleanup" in EFFECTS)',
        'implies(old(self.is_crashed), exc_class == "InternalError" and "io.write" not in EFFECTS '
        'and "io.read" not in EFFECTS)',
        'implies(exc_class != "InternalError", self.is_crashed == old(self.is_crashed))',
    ],
    allow_callee_exceptions=False,
    witness={'crashed': 'self.is_crashed'},
    replay=_replay_send,
    witness_library=[{'phase': p, 'crashed': c} for p in ('before-send', 'no-reply', 'truncated', 'ok')
                     for c in (False, True)],
    concrete_ensures=[],
)

_kill = Contract(
    id='C14._kill', prop='C14', clause='_kill marks the helper crashed and runs the finalizer (reaps the process)',
    file='jedi/inference/compiled/subprocess/__init__.py', qualname='CompiledSubprocess._kill',
    params={'self': _CS}, families=['CS'],
    ensures=['self.is_crashed', '"cleanup" in EFFECTS'],
)

_run = Contract(
    id='C14.run', prop='C14',
    clause='helper-side state of discarded Scripts is released: run() drains the deletion queue (each id sent '
           'with function None) before the request itself',
    file='jedi/inference/compiled/subprocess/__init__.py', qualname='CompiledSubprocess.run',
    params={'self': _CS, 'inference_state_id': ANY, 'function': ANY, 'args': ANY, 'kwargs': ANY},
    families=['CS'],
    requires=['callable(function)'],
    invariants={0: ['True']},
    loop_modifies={0: [('CS', '_inference_state_deletion_queue'), ('CS', 'is_crashed')]},
    ensures=['len(self._inference_state_deletion_queue) == 0',
             'result == self._ghost_last_reply'],      # the answer to the request itself, not to a deletion
    raises={'InternalError': None, 'Raised[Reply]': None},
)

_del_state = Contract(
    id='C14.delete_inference_state', prop='C14', clause='a discarded state id is queued for deletion',
    file='jedi/inference/compiled/subprocess/__init__.py', qualname='CompiledSubprocess.delete_inference_state',
    params={'self': _CS, 'inference_state_id': ANY}, families=['CS'],
    ensures=['self._inference_state_deletion_queue == old(self._inference_state_deletion_queue) + '
             '[inference_state_id]'],
)

_dunder_del = Contract(
    id='C14.InferenceStateSubprocess.__del__', prop='C14',
    clause='a dropped Script releases its helper-side state iff it used the helper and the helper is alive '
           '(nothing is sent to a crashed helper)',
    file='jedi/inference/compiled/subprocess/__init__.py', qualname='InferenceStateSubprocess.__del__',
    params={'self': Obj('ISS')}, families=['ISS', 'CS'],
    ensures=['iff(self._used and not old(self._compiled_subprocess.is_crashed), "enqueue-delete" in EFFECTS)'],
)

FAMILIES = [
    Family('CS', fields={'is_crashed': BOOL, '_inference_state_deletion_queue': Seq(ANY), '_ghost_last_reply': ANY},
           attrs={'_executable': ANY, '_stderr_queue': ANY},
           methods={
               '_get_process': FnSpec('CS._get_process', ret=Obj('Proc'), pure=True, assumed=True,
                                      note='memoised Popen handle'),
               '_kill': FnSpec('CS._kill', ret=None, modifies=[('CS', 'is_crashed')], effects=['cleanup'],
                               ensures=['self.is_crashed'], assumed=False),
               '_cleanup_callable': FnSpec('CS._cleanup_callable', ret=None, effects=['cleanup'], assumed=True,
                                           note='weakref.finalize(_cleanup_process): kill, wait, join, close pipes'),
               '_send': FnSpec('CS._send', params=[('inference_state_id', ANY), ('function', None), ('args', ANY),
                                                   ('kwargs', ANY)],
                               defaults={'args': (), 'kwargs': None}, ret=ANY,
                               raises=['InternalError', 'Raised[Reply]'],
                               modifies=[('CS', 'is_crashed'), ('CS', '_ghost_last_reply')],
                               ensures=['result == self._ghost_last_reply', 'not self.is_crashed'],
                               effects=['send'], assumed=False,
                               note='ghost field _ghost_last_reply names the reply of the latest request'),
               'run': FnSpec('CS.run', params=[('inference_state_id', ANY), ('function', ANY), ('args', ANY),
                                               ('kwargs', ANY)], ret=ANY, raises=['InternalError', 'Exception'],
                             modifies=[('CS', 'is_crashed'), ('CS', '_inference_state_deletion_queue'),
                                       ('CS', '_ghost_last_reply')],
                             ensures=['result == self._ghost_last_reply'],
                             effects=['run'], assumed=False, note='C14.run'),
               'delete_inference_state': FnSpec('CS.delete_inference_state', params=[('id', ANY)], ret=None,
                                                effects=['enqueue-delete'],
                                                modifies=[('CS', '_inference_state_deletion_queue')], assumed=False),
           }),
    Family('Env14', fields={'_subprocess': Opt(_CS)}, attrs={'_start_executable': ANY, '_env_vars': ANY}),
    Family('Proc', attrs={'stdin': ANY, 'stdout': ANY, 'stderr': Obj('Stream')}),
    Family('Stream', methods={'read': FnSpec('Stream.read', ret=Obj('Bytes'), raises=['Exception'], assumed=True)}),
    Family('Bytes', methods={'decode': FnSpec('bytes.decode', params=[('enc', STR), ('errors', STR)], ret=STR,
                                             pure=True, assumed=True)}),
    Family('Reply', fields={'args': Tup(ANY)}),
    Family('ISS', fields={'_used': BOOL}, attrs={'_compiled_subprocess': _CS, '_inference_state_id': ANY},
           methods={'_convert_access_handles': FnSpec('ISS._convert_access_handles', params=[('obj', ANY)], ret=ANY,
                                                      pure=True, assumed=True, note='rewrites handles in the reply')}),
]

def _replay_wrapper(inp):
    """the real wrapper on a subprocess whose run() raises (the helper-side function raised)"""
    from pyvc.replay import run_real
    from jedi.inference.compiled.subprocess import InferenceStateSubprocess

    class FakeCS:
        is_crashed = False
        deleted = []

        def run(self, *a, **kw):
            if inp['helper_raises']:
                raise ValueError('raised inside the helper')
            return 1

        def delete_inference_state(self, id_):
            self.deleted.append(id_)

    class FakeState:
        pass
    cs = FakeCS()
    cs.deleted = []
    iss = InferenceStateSubprocess(FakeState(), cs)
    out = run_real(lambda: iss.get_sys_path())
    used = iss._used
    iss.__del__()
    return {'USED': used, 'RELEASED': len(cs.deleted) == 1}, out


_wrapper = Contract(
    id='C14.InferenceStateSubprocess.__getattr__.wrapper', prop='C14',
    clause='a Script is marked as having used the helper BEFORE its request is sent, so that its helper-side state '
           'is released also when every request of that Script raised (the helper created the state on the first '
           'request it received)',
    file='jedi/inference/compiled/subprocess/__init__.py', qualname='InferenceStateSubprocess.__getattr__.wrapper',
    params={'args': ANY, 'kwargs': ANY}, free={'self': Obj('ISS'), 'func': ANY}, families=['ISS', 'CS'],
    ensures_all=['self._used'],
    ensures=['result == self._convert_access_handles(self._compiled_subprocess._ghost_last_reply)'],
    witness={}, replay=_replay_wrapper, concrete_only=True,
    witness_library=[{'helper_raises': True}, {'helper_raises': False}],
    concrete_ensures=['USED and RELEASED'],
)

def _region_replace(func):
    """Environment._get_subprocess up to and including the try statement that starts the replacement helper"""
    out = []
    for s_ in func.body:
        out.append(s_)
        if isinstance(s_, ast.Try):
            return out
    return None


_get_sub = Contract(
    id='C14.Environment._get_subprocess', prop='C14',
    clause='a crashed helper is replaced by a NEW helper that starts from a clean slate (not crashed, nothing queued '
           'for deletion: ids of the old helper mean nothing to the new one); a healthy helper is reused as it is',
    file='jedi/api/environment.py', qualname='Environment._get_subprocess', region=_region_replace,
    params={'self': Obj('Env14')}, families=['Env14', 'CS'], ret=Opt(_CS),
    raises={'InvalidPythonEnvironment': None},
    ensures=[
        'implies(old(self._subprocess) is not None and not old(self._subprocess.is_crashed), '
        'result is not None and result == old(self._subprocess))',
        'implies(old(self._subprocess) is None or old(self._subprocess.is_crashed), '
        'result is None and self._subprocess is not None and not self._subprocess.is_crashed '
        'and len(self._subprocess._inference_state_deletion_queue) == 0)',
    ],
)

CONTRACTS = [_send, _kill, _run, _del_state, _dunder_del, _wrapper, _get_sub]


def register(reg):
    reg.add_exception('Raised[Reply]', ('Exception',))
    reg.names['CompiledSubprocess'] = FnSpec(
        'CompiledSubprocess', params=[('executable', ANY), ('env_vars', ANY)], defaults={'env_vars': None}, ret=_CS,
        pure=False, assumed=False,
        ensures=['not result.is_crashed', 'len(result._inference_state_deletion_queue) == 0'],
        note='constructor (C14 structural: deque() / is_crashed = False): a new object')
    reg.names['_get_info'] = FnSpec('_get_info', params=[], ret=ANY, pure=True, assumed=True)
    reg.names['next_reply'] = FnSpec('next_reply', params=[('file', ANY)], ret=Tup(BOOL, ANY, Obj('Reply')), pure=True,
                                     assumed=True, note='ghost: the reply triple the helper wrote for this request')
    reg.names['_add_stderr_to_debug'] = FnSpec('_add_stderr_to_debug', params=[('q', ANY)], ret=None, assumed=True,
                                               note='debug output only')
    reg.names['PICKLE_PROTOCOL'] = 4


# ---- structural: cleanup layout and crashed-helper replacement ---------------------------------
def structural_cleanup(repo):
    out = []
    rel = 'jedi/inference/compiled/subprocess/__init__.py'
    try:
        tree = ast.parse(open(os.path.join(repo, rel), encoding='utf-8').read())
    except (OSError, SyntaxError) as e:
        return [{'id': 'cleanup', 'kind': 'post', 'ok': None, 'label': 'cannot parse %s: %s' % (rel, e)}]
    from pyvc.verify import find_function
    fn = find_function(tree, '_cleanup_process')
    if fn is None:
        out.append({'id': 'cleanup', 'kind': 'post', 'ok': None, 'label': '_cleanup_process not found'})
    else:
        src = ast.unparse(fn)
        calls = [(n.lineno, n.func.attr) for n in ast.walk(fn)
                 if isinstance(n, ast.Call) and isinstance(n.func, ast.Attribute)
                 and n.func.attr in ('kill', 'wait', 'join', 'close')]
        calls.sort()
        order = [c for _, c in calls]
        ok = order == ['kill', 'wait', 'join', 'close']
        # kill/wait and close are each inside a try that swallows only OSError; join is not skipped by them
        trys = [n for n in ast.walk(fn) if isinstance(n, ast.Try)]
        only_oserror = all(len(t.handlers) == 1 and ast.unparse(t.handlers[0].type or ast.Name('BaseException')) == 'OSError'
                           for t in trys)
        join_outside = all(not any(isinstance(c, ast.Call) and isinstance(c.func, ast.Attribute)
                                   and c.func.attr == 'join' for c in ast.walk(t)) for t in trys)
        three = "[process.stdin, process.stdout, process.stderr]" in src
        out.append({'id': 'cleanup', 'kind': 'post', 'ok': ok and only_oserror and join_outside and three,
                    # a missing kill / wait / join / close is a violation (zombie, leaked pipe or thread); any other
                    # difference in layout is only a changed shape
                    'definite': not {'kill', 'wait', 'join', 'close'} <= set(order) or not three,
                    'label': 'dead helpers are reaped: _cleanup_process kills, waits (no zombie), joins the stderr '
                             'thread and closes all three pipes, swallowing only OSError, every step attempted',
                    'detail': 'order=%r only_oserror=%r join_outside=%r three_pipes=%r' % (order, only_oserror,
                                                                                          join_outside, three)})
    rel2 = 'jedi/api/environment.py'
    try:
        t2 = ast.parse(open(os.path.join(repo, rel2), encoding='utf-8').read())
        g = find_function(t2, 'Environment._get_subprocess')
        gi = find_function(t2, 'Environment.get_inference_state_subprocess')
        src = ast.unparse(g) if g else ''
        first = ast.unparse(g.body[0]) if g and g.body else ''
        ok = g is not None and first.startswith('if self._subprocess is not None and (not self._subprocess.is_crashed):') \
            and 'return self._subprocess' in first and 'CompiledSubprocess(' in src \
            and 'InvalidPythonEnvironment' in src
        out.append({'id': 'replace-crashed', 'kind': 'post', 'ok': ok,
                    'label': 'every later Script gets a live helper: _get_subprocess reuses the helper only when it '
                             'is not crashed, otherwise starts a new one', 'detail': first[:200]})
        ok2 = gi is not None and 'self._get_subprocess()' in ast.unparse(gi)
        out.append({'id': 'state-uses-get-subprocess', 'kind': 'post', 'ok': ok2,
                    'label': 'each new InferenceState obtains its helper through _get_subprocess()'})
    except (OSError, SyntaxError) as e:
        out.append({'id': 'replace-crashed', 'kind': 'post', 'ok': None, 'label': 'cannot parse %s: %s' % (rel2, e)})
    return out


def structural_queue(repo):
    """the sequence model of the deletion queue (C14.run / C14.delete_inference_state: append keeps everything, run
    drains everything) is only valid for an unbounded FIFO: a deque/list without maxlen"""
    rel = 'jedi/inference/compiled/subprocess/__init__.py'
    try:
        tree = ast.parse(open(os.path.join(repo, rel), encoding='utf-8').read())
    except (OSError, SyntaxError) as e:
        return [{'id': 'deletion-queue-unbounded', 'definite': True, 'kind': 'post', 'ok': None, 'label': 'cannot parse %s: %s' % (rel, e)}]
    ctors = []
    for n in ast.walk(tree):
        if isinstance(n, ast.Assign):
            for t in n.targets:
                if isinstance(t, ast.Attribute) and t.attr == '_inference_state_deletion_queue':
                    ctors.append(ast.unparse(n.value))
    ok = None
    if ctors:
        if all(c in ('collections.deque()', 'deque()', '[]', 'list()') for c in ctors):
            ok = True
        elif any('maxlen' in c or (c.startswith(('collections.deque(', 'deque(')) and ',' in c) for c in ctors):
            ok = False          # a bounded deque silently drops the oldest ids: those states are never released
    out = [{'id': 'deletion-queue-unbounded', 'definite': True, 'kind': 'post', 'ok': ok,
            'label': 'the deletion queue is an unbounded FIFO (deque() / list): no queued state id is ever dropped '
                     'before it was sent to the helper', 'detail': repr(ctors)}]
    # the reader thread of the helper's stderr does a blocking put(): with a bounded queue it blocks for good when the
    # helper dies mid-request after a lot of output, and the cleanup (thread.join) then never returns - the query hangs
    sq = []
    for n in ast.walk(tree):
        if isinstance(n, ast.Assign):
            for t in n.targets:
                if isinstance(t, ast.Attribute) and t.attr == '_stderr_queue':
                    sq.append(ast.unparse(n.value))
    ok2 = None
    if sq:
        if all(c in ('queue.Queue()', 'Queue()', 'queue.SimpleQueue()', 'SimpleQueue()') for c in sq):
            ok2 = True
        elif any(('maxsize' in c) or (c.startswith(('queue.Queue(', 'Queue(')) and c not in ('queue.Queue()', 'Queue()')
                                      and not c.endswith('(0)')) for c in sq):
            ok2 = False
    out.append({'id': 'stderr-queue-unbounded', 'definite': True, 'kind': 'post', 'ok': ok2,
                'label': 'no query hangs on cleanup: the queue between the stderr reader thread and the parent is '
                         'unbounded, so the reader never blocks in put() and thread.join() in the cleanup returns',
                'detail': repr(sq)})
    return out


def _standin(repo, seed, tier):
    from pyvc.standin import run_standin
    return run_standin('C14', tier, seed, repo)


_standin.tiers = ('quick', 'thorough')
BOUNDED = [_standin]
def structural_listener(repo):
    """helper side: only ordinary exceptions of a request are reported back to the caller; SystemExit,
    KeyboardInterrupt and the like end the helper (the caller then sees the crash as InternalError)"""
    rel = 'jedi/inference/compiled/subprocess/__init__.py'
    try:
        tree = ast.parse(open(os.path.join(repo, rel), encoding='utf-8').read())
    except (OSError, SyntaxError) as e:
        return [{'id': 'listener-catches', 'kind': 'raises', 'ok': None, 'label': 'cannot parse %s: %s' % (rel, e)}]
    from pyvc.verify import find_function
    fn = find_function(tree, 'Listener.listen')
    ok, definite, detail = None, False, ''
    if fn is not None:
        caught = []
        for n in ast.walk(fn):
            if isinstance(n, ast.Try) and any('_run' in ast.unparse(b) for b in n.body):
                for h in n.handlers:
                    if h.type is None:
                        caught.append('BaseException')
                    elif isinstance(h.type, ast.Tuple):
                        caught += [ast.unparse(e) for e in h.type.elts]
                    else:
                        caught.append(ast.unparse(h.type))
        detail = repr(caught)
        if caught:
            bad = [c for c in caught if c in ('BaseException', 'SystemExit', 'KeyboardInterrupt', 'GeneratorExit')]
            ok = caught == ['Exception']
            definite = bool(bad)
    return [{'id': 'listener-catches', 'kind': 'raises', 'ok': ok, 'definite': definite, 'detail': detail,
             'label': 'the helper reports back only ordinary exceptions (except Exception) of a request: SystemExit / '
                      'KeyboardInterrupt raised by a request end the helper and reach the caller as InternalError, '
                      'never as themselves'}]


def _no_survivors(repo):
    """every later Script behaves as if the crash had not happened: nothing a disturbed query computed or remembered may
    outlive its Script - the inventory of process-global mutable state (shared with C08) must not grow"""
    from contracts import c08
    return [r for r in c08.structural_state(repo)
            if r['id'] in ('global-state:no-unregistered', 'script-init', 'state-owned-caches')]


STRUCTURAL = [structural_cleanup, structural_queue, structural_listener, _no_survivors]
NOT_DECIDED = ['"no query hangs" (liveness: a helper that is alive but stuck blocks pickle_load forever)',
               'file-descriptor accounting at OS level', 'true concurrency of the stderr thread / __del__ inside run()',
               'Listener side (__main__, _run): contracts pending']
TRUSTED = [_io_note]


def dynamic_contracts(repo):
    """values inferred by one Script are bound to that Script's helper: the time-limited signature cache must never hand
    them to a later Script (its key is unique per call - contract shared with C08)"""
    from contracts import c08
    return [c08._sig_key]
