"""C15 — Inference gives up instead of recursing or exploding: every guard does what the
termination argument needs from it, and the guards are in place."""
import ast
import os
from pyvc.api import *
from pyvc.spec import callee_of

SPEC_IMPORTS = ['contracts.common']
SPEC_FUNCTIONS = ['det_inv']

_PN = Obj('PNode')


def det_inv(level, stack, count, total_limit):
    """class invariant J of ExecutionRecursionDetector"""
    return level == len(stack) and 0 <= count and count <= total_limit


_DET_FIELDS = {'_ghost_refused': BOOL, '_ghost_body_result': ANY, '_recursion_level': INT, '_parent_execution_funcs': Seq(_PN),
               '_funcdef_execution_counts': DictT(_PN, INT), '_execution_count': INT}
_MOD = [('Detector', f) for f in _DET_FIELDS if not f.startswith('_ghost')]

_push = Contract(
    id='C15.push_execution', prop='C15',
    clause='execution budget: a granted (non-builtins) execution consumes one unit of the total budget, which '
           'is never exceeded; nesting deeper than recursion_limit or a spent per-function budget is refused; '
           'level and stack grow by exactly one',
    file='jedi/inference/recursion.py', qualname='ExecutionRecursionDetector.push_execution',
    params={'self': Obj('Detector'), 'execution': Obj('Execution')},
    families=['Detector', 'Execution', 'RootCtx', 'PNode'], ret=BOOL,
    requires=['det_inv(self._recursion_level, self._parent_execution_funcs, self._execution_count, '
              'total_function_execution_limit)'],
    ensures=[
        # J is preserved (stack part is undone by pop_execution)
        'det_inv(self._recursion_level, self._parent_execution_funcs, self._execution_count, '
        'total_function_execution_limit)',
        'self._recursion_level == old(self._recursion_level) + 1',
        'self._parent_execution_funcs == old(self._parent_execution_funcs) + [execution.tree_node]',
        # builtins always run and cost nothing
        'implies(execution.get_root_context().is_builtins_module(), '
        'result == False and self._execution_count == old(self._execution_count))',
        # a grant outside builtins respects every limit and pays for it (ghost fuel decreases)
        'implies(not execution.get_root_context().is_builtins_module() and not result, '
        'self._recursion_level <= recursion_limit '
        'and old(self._execution_count) < total_function_execution_limit '
        'and self._execution_count == old(self._execution_count) + 1)',
        # refusals
        'implies(not execution.get_root_context().is_builtins_module() '
        'and old(self._recursion_level) + 1 > recursion_limit, result == True)',
        'implies(not execution.get_root_context().is_builtins_module() '
        'and old(self._execution_count) >= total_function_execution_limit, result == True)',
        # the budget never moves backwards
        'self._execution_count >= old(self._execution_count)',
        # exact decision (the property's numbers: depth, total, per function, recursive): refused iff outside
        # builtins and (too deep | total spent | per-function spent outside typing | too many frames of it)
        'result == (not execution.get_root_context().is_builtins_module() and ('
        'old(self._recursion_level) + 1 > recursion_limit '
        'or old(self._execution_count) >= total_function_execution_limit '
        'or (old(self._funcdef_execution_counts).get(execution.tree_node, 0) >= per_function_execution_limit '
        '    and execution.get_root_context().py__name__() != "typing") '
        'or (old(self._funcdef_execution_counts).get(execution.tree_node, 0) < per_function_execution_limit '
        '    and (old(self._parent_execution_funcs) + [execution.tree_node]).count(execution.tree_node) '
        '        > per_function_recursion_limit)))',
        # exact accounting of the per-function budget
        'implies(not execution.get_root_context().is_builtins_module() '
        'and old(self._recursion_level) + 1 <= recursion_limit '
        'and old(self._execution_count) < total_function_execution_limit '
        'and old(self._funcdef_execution_counts).get(execution.tree_node, 0) < per_function_execution_limit, '
        'self._funcdef_execution_counts[execution.tree_node] == '
        'old(self._funcdef_execution_counts).get(execution.tree_node, 0) + 1)',
        # per-function budget: a grant (outside typing) found room and used one unit
        'implies(not execution.get_root_context().is_builtins_module() and not result '
        'and execution.get_root_context().py__name__() != "typing", '
        'self._funcdef_execution_counts[execution.tree_node] <= per_function_execution_limit '
        'and self._parent_execution_funcs.count(execution.tree_node) <= per_function_recursion_limit)',
    ],
)

_pop = Contract(
    id='C15.pop_execution', prop='C15', clause='pop undoes the stack part of push',
    file='jedi/inference/recursion.py', qualname='ExecutionRecursionDetector.pop_execution',
    params={'self': Obj('Detector')}, families=['Detector', 'PNode'],
    requires=['len(self._parent_execution_funcs) > 0'],
    ensures=['self._recursion_level == old(self._recursion_level) - 1',
             'self._parent_execution_funcs == old(self._parent_execution_funcs)[:-1]',
             'self._execution_count == old(self._execution_count)'],
)

_push_callee = FnSpec(
    'Detector.push_execution', params=[('execution', Obj('Execution'))], ret=BOOL, pure=False, assumed=False,
    modifies=_MOD + [('Detector', '_ghost_refused')],
    ensures=['self._recursion_level == old(self._recursion_level) + 1',
             'self._parent_execution_funcs == old(self._parent_execution_funcs) + [execution.tree_node]',
             'self._ghost_refused == result'],
    note='proved by C15.push_execution; ghost field _ghost_refused names the verdict of the latest push')
_pop_callee = FnSpec(
    'Detector.pop_execution', params=[], ret=None, pure=False, assumed=False, modifies=_MOD,
    requires=['len(self._parent_execution_funcs) > 0'],
    ensures=['self._recursion_level == old(self._recursion_level) - 1',
             'self._parent_execution_funcs == old(self._parent_execution_funcs)[:-1]',
             'self._execution_count == old(self._execution_count)'],
    note='proved by C15.pop_execution')

_func_abs = FnSpec('func', params=[('self', Obj('Execution'))], ret=ANY, pure=False, raises=['Exception'],
                   varargs=True, assumed=False,
                   note='the decorated method: abstract, may raise, may itself push/pop balanced',
                   effects=['run-body'],
                   modifies=[('Detector', '_execution_count'), ('Detector', '_funcdef_execution_counts'),
                             ('Detector', '_ghost_body_result')],
                   ensures=['self.inference_state.execution_recursion_detector._ghost_body_result == result'])


def _call_func(V, st, self_val, args, kwargs, node):
    from pyvc.calls import call_spec
    kwargs = {k: v for k, v in kwargs.items() if k != '**'}
    return call_spec(V, _func_abs, None, args[:1], {}, st, node)


_wrapper = Contract(
    id='C15.execution_recursion_decorator.wrapper', prop='C15',
    clause='the recursion level/stack is restored on every exit (also when the wrapped function raises); '
           'the default is returned without calling the function when the limit was reached',
    file='jedi/inference/recursion.py', qualname='execution_recursion_decorator.decorator.wrapper',
    params={'self': Obj('Execution'), 'kwargs': ANY},
    free={'func': FnSpec('func', impl=_call_func, assumed=False), 'default': ANY},
    families=['Detector', 'Execution', 'RootCtx', 'PNode', 'InfState15'], ret=ANY,
    ensures_all=[
        'self.inference_state.execution_recursion_detector._recursion_level == '
        'old(self.inference_state.execution_recursion_detector._recursion_level)',
        'self.inference_state.execution_recursion_detector._parent_execution_funcs == '
        'old(self.inference_state.execution_recursion_detector._parent_execution_funcs)',
    ],
    ensures=[
        # refused: the default, and the body never ran; granted: the body ran and its result is returned
        'implies(self.inference_state.execution_recursion_detector._ghost_refused, '
        'result == default and "run-body" not in EFFECTS)',
        'implies(not self.inference_state.execution_recursion_detector._ghost_refused, '
        '"run-body" in EFFECTS and result == self.inference_state.execution_recursion_detector._ghost_body_result)',
    ],
    effects_allowed=None,
)

_exec_allowed = Contract(
    id='C15.execution_allowed', prop='C15',
    clause='statement recursion guard: yields False iff the node is already being executed; otherwise the node '
           'is on the stack exactly while the body runs and the stack is restored on exit',
    file='jedi/inference/recursion.py', qualname='execution_allowed',
    params={'inference_state': Obj('InfState15'), 'node': _PN},
    families=['InfState15', 'RecDet', 'PNode'], yields=BOOL,
    yield_each_local=[
        'c == (node not in old(inference_state.recursion_detector.pushed_nodes))',
        'implies(c, inference_state.recursion_detector.pushed_nodes == '
        'old(inference_state.recursion_detector.pushed_nodes) + [node])',
        'implies(not c, inference_state.recursion_detector.pushed_nodes == '
        'old(inference_state.recursion_detector.pushed_nodes))',
    ],
    ensures=['len(result) == 1',
             'inference_state.recursion_detector.pushed_nodes == old(inference_state.recursion_detector.pushed_nodes)'],
    notes='@contextmanager generator: code before the yield is __enter__, the finally clause is __exit__',
)

FAMILIES = [
    Family('Ctx15', attrs={'inference_state': Obj('InfState15')}),
    Family('Val15', methods={'goto': FnSpec('Value.goto', params=[('name_or_str', _PN), ('name_context', Obj('Ctx15')),
                                                                  ('analysis_errors', BOOL)],
                                            defaults={'name_context': None, 'analysis_errors': True},
                                            ret=Seq(Obj('NameW')), pure=True, assumed=True,
                                            note='attribute lookup by name in a module value')}),
    Family('Detector', fields=_DET_FIELDS, attrs={'_inference_state': Obj('InfState15')},
           methods={'push_execution': _push_callee, 'pop_execution': _pop_callee}),
    Family('Execution', attrs={'tree_node': _PN, 'inference_state': Obj('InfState15')},
           methods={'get_root_context': FnSpec('Execution.get_root_context', ret=Obj('RootCtx'), pure=True)}),
    Family('RootCtx', methods={
        'is_builtins_module': FnSpec('RootCtx.is_builtins_module', ret=BOOL, pure=True),
        'py__name__': FnSpec('RootCtx.py__name__', ret=STR, pure=True)}),
    Family('InfState15', attrs={'execution_recursion_detector': Obj('Detector'),
                                'recursion_detector': Obj('RecDet')}),
    Family('RecDet', fields={'pushed_nodes': Seq(_PN)}),
    Family('VSet15', attrs={'nonempty': BOOL}, truthy='o.nonempty'),
    Family('FExec', methods={
        'is_generator': FnSpec('FunctionExecution.is_generator', ret=BOOL, pure=True),
        'infer_annotations': FnSpec('FunctionExecution.infer_annotations', ret=Obj('VSet15'), pure=True, assumed=True,
                                    effects=['eval-annotation'], note='evaluates the return annotation (unguarded)'),
        'get_return_values': FnSpec('FunctionExecution.get_return_values', ret=ANY, pure=True, assumed=False,
                                    effects=['guarded-return-values'],
                                    note='decorated with the execution budget and memoised with a recursion default '
                                         '(guard inventory)')}),
    Family('LCtx', attrs={'tree_node': _PN, 'inference_state': Obj('LState'), 'parent_context': Opt(Obj('LCtx'))},
           methods={'get_value': FnSpec('Context.get_value', ret=ANY, pure=True)}),
    Family('LState', fields={'inferred_element_counts': DictT(_PN, INT)}, attrs={'builtins_module': ANY}),
]

def _region_from_import(func):
    for s_ in func.body:
        if isinstance(s_, ast.If) and ast.unparse(s_.test) == 'from_import_name is not None':
            return [s_]
    return None


def _replay_goto_import(inp):
    """a package whose __init__ imports its own submodule through the package name; follow the import"""
    from pyvc.replay import run_real
    import tempfile
    import shutil
    import jedi
    d = tempfile.mkdtemp(prefix='c15_', dir='/var/tmp')
    try:
        os.makedirs(os.path.join(d, 'shop'))
        with open(os.path.join(d, 'shop', '__init__.py'), 'w') as f:
            f.write('from shop import cart\n')
        with open(os.path.join(d, 'shop', 'cart.py'), 'w') as f:
            f.write('total = 1\n')
        code = 'from shop import cart\ncart\n'
        s = jedi.Script(code, path=os.path.join(d, 'main.py'), project=jedi.Project(d))
        out = run_real(lambda: [str(n.module_path) for n in s.goto(2, 1, follow_imports=True)])
        s2 = jedi.Script('from shop import cart\n', path=os.path.join(d, 'shop', '__init__.py'), project=jedi.Project(d))
        out2 = run_real(lambda: [str(n.module_path) for n in s2.goto(1, 18, follow_imports=True)])
        if out['kind'] == 'return' and out2['kind'] != 'return':
            out = out2
        return {}, out
    finally:
        shutil.rmtree(d, ignore_errors=True)


_goto_import = Contract(
    id='C15.goto_import.from-branch', prop='C15',
    clause='goto on a from-import never answers with the import name itself (following imports on such an answer '
           'would recurse forever): names found by attribute lookup are returned only if none of them IS the queried '
           'tree name; otherwise the importer is asked',
    file='jedi/inference/imports.py', qualname='goto_import', region=_region_from_import,
    params={'context': Obj('Ctx15'), 'tree_name': _PN},
    free={'from_import_name': Opt(_PN), 'import_path': Seq(ANY), 'level': INT, 'values': Seq(Obj('Val15')),
          'module_context': Obj('Ctx15')},
    families=['Ctx15', 'Val15', 'NameW', 'PNode', 'InfState15'], ret=Opt(Seq(Obj('NameW'))),
    ensures=['implies(result is not None, all(n.tree_name is not tree_name for n in result))',
             'implies(result is not None, len(result) >= 1)'],
    witness={}, replay=_replay_goto_import, concrete_only=True, witness_library=[{}],
    concrete_ensures=['True'],
    notes='block contract on the `if from_import_name is not None:` statement; a RecursionError in the replay '
          '(exception escapes) confirms the violation',
)

# ------------------------------------------------------------------ memoisation that cuts recursion (jedi/inference/cache.py)
def _region_memo(func):
    """the decision `if key in memo: ... else: ...` of the memoising wrapper (cache lookup and key construction before it
    are plumbing)"""
    for s_ in func.body:
        if isinstance(s_, ast.If) and ast.unparse(s_.test) == 'key in memo':
            return [s_]
    return None


def _call_memoised(V, st, self_val, args, kwargs, node):
    """the memoised function, abstract: obligation at the call = the default is ALREADY stored under this key (a
    re-entrant request for the same key, through any cycle of definitions, then returns it instead of recursing);
    the function may run nested memoised calls (other keys come and go), may raise anything"""
    import z3
    from pyvc.values import MExc, fresh, SV
    from pyvc.calls import add_effect
    g = V.eval_spec_bool('implies(default is not _NO_DEFAULT, key in memo and memo[key] == default)', st)
    V.oblige(st, g, 'call-pre', 'the recursion default is stored under the key BEFORE the memoised function is entered', node)
    add_effect(V, st, 'compute', node)
    # nested calls use other keys: this key's slot is untouched, everything else is unknown afterwards
    memo = st.env['memo']
    key = st.env['key']
    from pyvc.types import sort_of
    new = fresh(memo.t, 'memo_after')
    had = V.eval_spec_bool('key in memo', st)
    hv = V.eval_spec('memo.get(key)', st)
    V.bind_target(ast.Name(id='memo', ctx=ast.Store()), new, st, node)
    st.fact(V.eval_spec_bool('key in memo', st) == had)
    st.fact(z3.Implies(had, V.eval_spec('memo.get(key)', st).z == hv.z))
    bad = st.fork()
    if V.feasible(bad.pc):
        V.exc_out.append((bad, MExc('BaseException', [], origin='function')))
    return fresh(ANY, 'rv')


def _replay_memo(inp):
    """the real decorator around a function that asks for itself again (a definition cycle) and, in the second
    scenario, raises after that"""
    from pyvc.replay import run_real
    from jedi.inference.cache import _memoize_default

    def scenario(raises):
        class IS:
            pass

        class Obj:
            pass
        o = Obj()
        o.inference_state = IS()
        o.inference_state.memoize_cache = {}
        log = []

        @_memoize_default(default='DEFAULT')
        def f(obj, n):
            log.append('enter')
            if len(log) > 5:
                raise RecursionError('re-entered without seeing the default')
            log.append(('inner', f(obj, n)))
            if raises and log.count('enter') == 1:
                raise ValueError('computation failed')
            return 'RESULT'
        first = run_real(lambda: f(o, 1))
        n1 = len(log)
        second = run_real(lambda: f(o, 1))
        return {'first': first.get('value', first.get('cls', [''])[0]), 'log1': log[:n1],
                'second': second.get('value', second.get('cls', [''])[0]), 'entered_again': len(log) > n1}
    out = run_real(lambda: {'ok': scenario(False), 'failing': scenario(True)})
    return {}, out


_memo = Contract(
    id='C15._memoize_default.wrapper', prop='C15',
    clause='memoisation that stores a default before computing: a hit returns the stored value without entering the '
           'function; on a miss the default (when there is one) is stored under the key BEFORE the function is entered '
           '(re-entry sees it), the function is entered exactly once, its result replaces the default and is returned; '
           'when the function raises, the default does not stay behind as if it were a result',
    file='jedi/inference/cache.py', qualname='_memoize_default.func.wrapper', region=_region_memo,
    params={'obj': ANY, 'args': ANY, 'kwargs': ANY}, free={'memo': DictT(ANY, ANY), 'key': ANY, 'default': ANY,
                     'function': FnSpec('function', impl=_call_memoised, assumed=False)},
    ret=ANY, raises={'BaseException': None},
    ensures=[
        'implies(key in memo, result == memo[key] and "compute" not in EFFECTS and NEW_memo == memo)',
        'implies(key not in memo, key in NEW_memo and NEW_memo[key] == result and EFFECTS == ["compute"])',
    ],
    ensures_exc=['implies(default is not _NO_DEFAULT, key not in NEW_memo)', 'key not in memo'],
    notes='block contract on the hit/miss decision; the function is abstract (may raise, may run nested memoised calls '
          'on other keys)',
    witness={}, replay=_replay_memo, concrete_only=True, witness_library=[{}],
    concrete_ensures=[
        # a cycle sees the default once, the result is stored and served without entering again
        'result["ok"] == {"first": "RESULT", "log1": ["enter", ("inner", "DEFAULT")], "second": "RESULT", '
        '"entered_again": False}',
        # a failed computation leaves nothing behind: the next request computes again
        'result["failing"]["first"] == "ValueError" and result["failing"]["entered_again"] '
        'and result["failing"]["second"] == "RESULT"',
    ],
)

# ------------------------------------------------------------------ per-node cap (jedi/inference/syntax_tree.py)
_body_abs = FnSpec('func', params=[('context', Obj('LCtx'))], ret=ANY, pure=False, raises=['Exception'], varargs=True,
                   assumed=False, effects=['run-body'], modifies=[('LState', 'inferred_element_counts')],
                   ensures=['context.inference_state.inferred_element_counts.get(context.tree_node, 0) >= '
                            'old(context.inference_state.inferred_element_counts.get(context.tree_node, 0))'],
                   note='the wrapped inference function: abstract; nested inferences only ever count upwards')


def _call_body(V, st, self_val, args, kwargs, node):
    from pyvc.calls import call_spec
    return call_spec(V, _body_abs, None, args[:1], {}, st, node)


def _replay_limit(inp):
    """the real decorator around a counting body: how often is the body entered for one node?"""
    from pyvc.replay import run_real
    from jedi.inference import syntax_tree as stree
    calls = []

    class IS:
        pass

    class Ctx:
        parent_context = object()

        def get_value(self):
            return None
    state = IS()
    state.inferred_element_counts = {}
    state.builtins_module = object()
    ctx = Ctx()
    ctx.tree_node = 'NODE'
    ctx.inference_state = state
    wrapped = stree._limit_value_infers(lambda context, *a, **k: calls.append(1) or 'VALUE')
    res = [wrapped(ctx) for _ in range(inp['times'])]
    out = run_real(lambda: {'entered': len(calls), 'refused': sum(1 for r in res if r is stree.NO_VALUES),
                            'count': state.inferred_element_counts.get('NODE')})
    return {'TIMES': inp['times']}, out


_limit = Contract(
    id='C15._limit_value_infers.wrapper', prop='C15',
    clause='per-node cap: every request to infer in a context is counted exactly once on its tree node, and once the '
           'count exceeds the cap (300; for the builtins module 100 times more) the wrapped function is NOT entered and '
           'nothing is returned - so the work per node is bounded whatever the program',
    file='jedi/inference/syntax_tree.py', qualname='_limit_value_infers.wrapper',
    params={'context': Obj('LCtx'), 'args': ANY, 'kwargs': ANY},
    free={'func': FnSpec('func', impl=_call_body, assumed=False)},
    families=['LCtx', 'LState', 'PNode'], ret=ANY,
    ensures=[
        'implies("run-body" not in EFFECTS, context.inference_state.inferred_element_counts[context.tree_node] == '
        'old(context.inference_state.inferred_element_counts.get(context.tree_node, 0)) + 1)',
        'implies(old(context.inference_state.inferred_element_counts.get(context.tree_node, 0)) >= 300 * 100, '
        'result == NO_VALUES and "run-body" not in EFFECTS)',
        'implies(old(context.inference_state.inferred_element_counts.get(context.tree_node, 0)) >= 300 and not '
        '(context.parent_context is None and context.get_value() is context.inference_state.builtins_module), '
        'result == NO_VALUES and "run-body" not in EFFECTS)',
        'implies(old(context.inference_state.inferred_element_counts.get(context.tree_node, 0)) < 300, '
        '"run-body" in EFFECTS)',
    ],
    witness={}, replay=_replay_limit, concrete_only=True, witness_library=[{'times': 1}, {'times': 300}, {'times': 305}],
    concrete_ensures=['result["entered"] == min(TIMES, 300)', 'result["refused"] == max(0, TIMES - 300)',
                      'result["count"] == TIMES'],
    notes='the cap value 300 is the one the property\'s anchor names; re-tuning it is reported',
)

# ------------------------------------------------------------------ memoised generators (py__mro__): jedi/inference/cache.py
def _region_gen_step(func):
    """one round of the `while True` loop of the memoising generator wrapper"""
    for s_ in ast.walk(func):
        if isinstance(s_, ast.While):
            return s_.body
    return None


def _next_of_generator(V, st, self_val, args, kwargs, node):
    """next(actual_generator, None): the shared generator produces its next element (or None at its end). While it
    runs, other consumers - and the generator itself through a definition cycle - may read the shared list: the
    obligation is that the list then ENDS WITH THE RECURSION SENTINEL"""
    from pyvc.values import fresh
    from pyvc.calls import add_effect
    g = V.eval_spec_bool('len(cached_lst) >= 1 and cached_lst[-1] is _RECURSION_SENTINEL', st)
    V.oblige(st, g, 'call-pre', 'the recursion sentinel is the last cached element while the generator computes its next '
                                'element (a re-entrant consumer stops there)', node)
    add_effect(V, st, 'advance-generator', node)
    r = fresh(Opt(ANY), 'produced')
    # the sentinel is a private object of jedi.inference.cache: no generator can produce it
    st.env['__produced'] = r
    st.fact(V.eval_spec_bool('__produced is None or the(__produced) is not _RECURSION_SENTINEL', st))
    st.env.pop('__produced', None)
    return r


def _replay_gen_cache(inp):
    """the real memoising generator decorator: consumers that interleave (one suspended while another finishes), and a
    generator that asks for itself"""
    from pyvc.replay import run_real
    from jedi.inference.cache import inference_state_method_generator_cache

    class IS:
        pass

    class Obj:
        pass

    def scenario():
        o = Obj()
        o.inference_state = IS()
        o.inference_state.memoize_cache = {}
        produced = []

        @inference_state_method_generator_cache()
        def gen(obj):
            for k in range(4):
                produced.append(k)
                yield 'e%d' % k
        a = gen(o)
        first = [next(a), next(a)]             # consumer A is suspended after two elements
        b = list(gen(o))                       # consumer B runs to the end
        rest = list(a)                         # A resumes
        c = list(gen(o))                       # a later consumer

        rec_seen = []

        @inference_state_method_generator_cache()
        def selfref(obj):
            yield 'x'
            rec_seen.append(list(selfref(obj)))   # a definition that reaches itself
            yield 'y'
        d = list(selfref(o))
        return {'A': first + rest, 'B': b, 'C': c, 'produced': produced, 'selfref': d, 'inner': rec_seen}
    out = run_real(scenario)
    return {}, out


_gen_cache = Contract(
    id='C15.inference_state_method_generator_cache.step', prop='C15',
    clause='memoised generators: every consumer sees the elements in the shared list by index - what another consumer '
           'produced meanwhile included - and only asks the shared generator at the end of the list; while the generator '
           'computes, the list ends with the recursion sentinel, so a request that reaches itself stops instead of '
           'recursing; the cached prefix is never changed',
    file='jedi/inference/cache.py', qualname='inference_state_method_generator_cache.func.wrapper',
    region=_region_gen_step,
    params={'obj': ANY, 'args': ANY, 'kwargs': ANY},
    free={'cached_lst': Seq(ANY), 'i': INT, 'actual_generator': ANY, 'memo': ANY, 'key': ANY, 'cache': ANY,
          'function': ANY},
    names={'next': FnSpec('next', impl=_next_of_generator, assumed=False)},
    yields=ANY,
    requires=['0 <= i and i <= len(cached_lst)', 'all(x is not _RECURSION_SENTINEL for x in cached_lst[:i])'],
    ensures=[
        # at most one element is handed out per round, and it is the element at the consumer's index in the shared list
        'len(result) <= 1',
        'implies(len(result) == 1, len(NEW_cached_lst) > i and result[0] == NEW_cached_lst[i] and NEW_i == i + 1)',
        # the cached prefix is never changed; the list grows by what the generator produced, by nothing else
        'NEW_cached_lst[:len(cached_lst)] == cached_lst',
        'len(NEW_cached_lst) <= len(cached_lst) + 1',
        # the shared generator is only asked at the END of the list
        'implies("advance-generator" in EFFECTS, i == len(cached_lst))',
        'implies(i < len(cached_lst), NEW_cached_lst == cached_lst)',
        # no sentinel stays behind
        'implies(len(NEW_cached_lst) > len(cached_lst), NEW_cached_lst[len(cached_lst)] is not _RECURSION_SENTINEL)',
    ],
    witness={}, replay=_replay_gen_cache, concrete_only=True, witness_library=[{}],
    concrete_ensures=[
        'result["A"] == ["e0", "e1", "e2", "e3"] and result["B"] == result["A"] and result["C"] == result["A"]',
        'result["produced"] == [0, 1, 2, 3]',
        'result["selfref"] == ["x", "y"] and result["inner"] == [["x"]]',
    ],
    notes='block contract on one round of the loop; the generator and interleaved consumers are abstract',
)

# ------------------------------------------------------------------ function execution: everything behind the guards
def _region_infer_sync(func):
    """BaseFunctionExecutionContext.infer: the branch for ordinary (non-coroutine) functions"""
    for s_ in func.body:
        if isinstance(s_, ast.If) and ast.unparse(s_.test) == 'is_coroutine':
            return s_.orelse
    return None


def _replay_infer_sync(inp):
    """functions, methods and properties whose return annotation is a forward-reference string that calls back into them"""
    from pyvc.replay import run_real
    import jedi
    code = inp['code']
    lines = code.split('\n')

    def run():
        s = jedi.Script(code)
        n = 0
        for ln, text in enumerate(lines, 1):
            for col in range(0, len(text) + 1, 2):
                s.infer(ln, col)
                s.goto(ln, col)
                n += 1
        return n
    out = run_real(run)
    return {}, out


_infer_sync = Contract(
    id='C15.BaseFunctionExecutionContext.infer.sync', prop='C15',
    clause='executing an ordinary function evaluates its body AND its return annotation only behind the give-up guards '
           '(get_return_values: memo with a recursion default + execution budget) - the annotation is not evaluated on the '
           'way (only a generator function asks whether it has one), so annotations that reach the function again are cut',
    file='jedi/inference/value/function.py', qualname='BaseFunctionExecutionContext.infer', region=_region_infer_sync,
    params={'self': Obj('FExec')}, free={'inference_state': ANY, 'is_coroutine': BOOL, 'GenericClass': ANY},
    families=['FExec', 'VSet15'], ret=ANY,
    effects_allowed=['guarded-return-values'], effect_guard={'eval-annotation': 'self.is_generator()'},
    ensures=['implies(not self.is_generator(), result == self.get_return_values())'],
    witness={}, replay=_replay_infer_sync, concrete_only=True,
    witness_library=[{'code': "def f() -> 'f()':\n    pass\nf()\n"},
                     {'code': "def f() -> 'g()':\n    pass\ndef g() -> 'f()':\n    pass\nx = f()\nx\n"},
                     {'code': "class A:\n    @property\n    def p(self) -> 'A().p':\n        pass\nA().p\n"}],
    concrete_ensures=['result > 0'],
)
_infer_sync.exception_free = True

CONTRACTS = [_push, _pop, _wrapper, _exec_allowed, _goto_import, _memo, _limit, _gen_cache, _infer_sync]


# ---------------------------------------------------------------- structural: guards in place
GUARDS = [
    # (file, qualname, decorator text that must be present)
    ('jedi/inference/syntax_tree.py', '_infer_node', '_limit_value_infers'),
    ('jedi/inference/syntax_tree.py', 'infer_expr_stmt', '_limit_value_infers'),
    ('jedi/inference/value/function.py', 'BaseFunctionExecutionContext.get_return_values',
     'recursion.execution_recursion_decorator'),
    ('jedi/inference/value/function.py', 'BaseFunctionExecutionContext.get_yield_lazy_values',
     'recursion.execution_recursion_decorator'),
    ('jedi/inference/value/klass.py', 'ClassMixin.py__mro__', 'inference_state_method_generator_cache'),
    ('jedi/inference/value/klass.py', 'ClassValue.py__bases__', 'inference_state_method_cache'),
    ('jedi/inference/imports.py', 'infer_import', 'inference_state_method_cache'),
    ('jedi/inference/imports.py', 'goto_import', 'inference_state_method_cache'),
    ('jedi/inference/syntax_tree.py', '_infer_node_cached', 'inference_state_method_cache'),
    ('jedi/inference/sys_path.py', 'check_sys_path_modifications', 'inference_state_method_cache'),
]
WITH_GUARDS = [
    # (file, qualname, context manager that must be used inside)
    ('jedi/inference/syntax_tree.py', 'infer_expr_stmt', 'execution_allowed'),
    ('jedi/inference/flow_analysis.py', '_check_if', 'execution_allowed'),
    ('jedi/inference/value/dynamic_arrays.py', '_internal_check_array_additions', 'execution_allowed'),
    ('jedi/inference/dynamic_params.py', '_avoid_recursions.wrapper', 'execution_allowed'),
]
RESET_QUERIES = ['complete', 'infer', 'goto', 'help', 'get_references', 'get_signatures', '_names',
                 '_analysis', 'search', 'complete_search']


# functions whose memo stores a default BEFORE computing, so that re-entry (a definition that refers to itself
# through any cycle) sees the default instead of recursing: (file, qualname) -> default expression
RECURSION_CUT_DEFAULTS = {
    ('jedi/inference/dynamic_params.py', '_search_function_arguments'): 'None',
    ('jedi/inference/imports.py', 'infer_import'): 'NO_VALUES',
    ('jedi/inference/imports.py', 'goto_import'): '[]',
    ('jedi/inference/names.py', 'TreeNameDefinition.py__doc__'): "''",
    ('jedi/inference/syntax_tree.py', '_infer_node_cached'): 'NO_VALUES',
    ('jedi/inference/sys_path.py', 'check_sys_path_modifications'): '[]',
    ('jedi/inference/compiled/mixed.py', 'MixedObject.py__call__'): 'NO_VALUES',
    ('jedi/inference/value/dynamic_arrays.py', '_internal_check_array_additions'): 'NO_VALUES',
    ('jedi/inference/value/function.py', 'BaseFunctionExecutionContext.get_return_values'): 'NO_VALUES',
    ('jedi/inference/value/instance.py', 'TreeInstance._get_annotated_class_object'): 'None',
    ('jedi/inference/value/iterable.py', 'ComprehensionMixin._iterate'): '[]',
    ('jedi/inference/value/klass.py', 'ClassMixin.is_typeddict'): 'False',
    ('jedi/inference/value/klass.py', 'ClassValue.py__bases__'): '()',
    ('jedi/inference/value/klass.py', 'ClassValue.get_metaclasses'): 'NO_VALUES',
    ('jedi/inference/value/module.py', 'ModuleMixin.star_imports'): '[]',
}


def structural_defaults(repo):
    """every memoised function that cuts recursion with a stored default still does"""
    from pyvc import inventory as inv
    found = {}
    for rel, path in inv.py_files(repo):
        try:
            t = inv.parse(path)
        except SyntaxError:
            continue
        enc = inv._enclosing(t)
        for fn in ast.walk(t):
            if not isinstance(fn, ast.FunctionDef):
                continue
            for d in fn.decorator_list:
                if isinstance(d, ast.Call) and ast.unparse(d.func).split('.')[-1] in (
                        'inference_state_method_cache', 'inference_state_function_cache',
                        'inference_state_method_generator_cache'):
                    q = fn.name
                    dflt = None
                    if d.args:
                        dflt = ast.unparse(d.args[0])
                    for k in d.keywords:
                        if k.arg == 'default':
                            dflt = ast.unparse(k.value)
                    found[(rel.replace(os.sep, '/'), q)] = dflt
    out = []
    for key, want in sorted(RECURSION_CUT_DEFAULTS.items()):
        key = (key[0], key[1].split('.')[-1])
        if key not in found:
            out.append({'id': 'cut-default:%s' % key[1], 'definite': True, 'kind': 'inventory', 'ok': None,
                        'label': 'memoised function %s not found in %s (shape changed)' % (key[1], key[0])})
            continue
        out.append({'id': 'cut-default:%s' % key[1], 'definite': True, 'kind': 'inventory', 'ok': found[key] is not None,
                    'label': 'give-up guard in place: the memo of %s stores a default before computing, so a '
                             'definition that reaches itself again (any cycle) gets the default instead of recursing'
                             % key[1], 'detail': 'default now: %r (registered: %s)' % (found[key], want)})
    return out


def _find(tree, qualname):
    from pyvc.verify import find_function
    return find_function(tree, qualname)


def structural_guards(repo):
    out = []
    cache = {}

    def tree_of(rel):
        if rel not in cache:
            try:
                cache[rel] = ast.parse(open(os.path.join(repo, rel), encoding='utf-8').read())
            except (OSError, SyntaxError):
                cache[rel] = None
        return cache[rel]
    for rel, qn, deco in GUARDS:
        t = tree_of(rel)
        fn = _find(t, qn) if t is not None else None
        if fn is None:
            out.append({'id': 'guard:%s' % qn, 'definite': True, 'kind': 'inventory', 'ok': None,
                        'label': 'guard inventory: %s not found in %s' % (qn, rel)})
            continue
        decos = [ast.unparse(d) for d in fn.decorator_list]
        ok = any(d.startswith(deco) for d in decos)
        out.append({'id': 'guard:%s' % qn, 'definite': True, 'kind': 'inventory', 'ok': ok,
                    'label': 'give-up guard in place: %s is decorated with %s' % (qn, deco),
                    'detail': 'decorators: %r' % decos})
    for rel, qn, cm in WITH_GUARDS:
        t = tree_of(rel)
        fn = _find(t, qn) if t is not None else None
        if fn is None:
            out.append({'id': 'with-guard:%s' % qn, 'definite': True, 'kind': 'inventory', 'ok': None,
                        'label': 'guard inventory: %s not found in %s' % (qn, rel)})
            continue
        used = False
        for n in ast.walk(fn):
            if isinstance(n, ast.With):
                for it in n.items:
                    if cm in ast.unparse(it.context_expr):
                        used = True
        out.append({'id': 'with-guard:%s' % qn, 'definite': True, 'kind': 'inventory', 'ok': used,
                    'label': 'give-up guard in place: %s runs under %s' % (qn, cm)})
    # the two recursive followers of import names carry the set of names already on the path
    for rel, qn, needles, what in (
            ('jedi/api/helpers.py', 'filter_follow_imports', ['if key in _followed:', '_followed=_followed + (key,)'],
             'follow_imports stops when an import name that is being followed comes up again (import cycles)'),
            ('jedi/inference/references.py', '_resolve_names', ['if name in avoid_names:',
                                                                 'tuple(avoid_names) + tuple(definition_names)'],
             'the reference search avoids every module name seen on the way, not only those of the previous step')):
        t = tree_of(rel)
        fn = _find(t, qn) if t is not None else None
        src = ' '.join(ast.unparse(fn).split()) if fn is not None else ''
        out.append({'id': 'cycle-guard:%s' % qn, 'kind': 'inventory',
                    'ok': (all(' '.join(n.split()) in src for n in needles)) if fn is not None else None,
                    'label': 'give-up guard in place: ' + what})
    # every Script query starts by resetting the budgets (directly or through another Script method)
    t = tree_of('jedi/api/__init__.py')
    if t is not None:
        cls = [n for n in t.body if isinstance(n, ast.ClassDef) and n.name == 'Script']
        methods = {f.name: ast.unparse(f) for f in (cls[0].body if cls else []) if isinstance(f, ast.FunctionDef)}
        resets = {m for m, src in methods.items() if 'reset_recursion_limitations()' in src}
        changed = True
        while changed:
            changed = False
            for m, src in methods.items():
                if m not in resets and any(('self.%s(' % r) in src for r in resets):
                    resets.add(m)
                    changed = True
        for q in RESET_QUERIES:
            if q not in methods:
                out.append({'id': 'reset:%s' % q, 'definite': True, 'kind': 'inventory', 'ok': None,
                            'label': 'Script.%s not found' % q})
                continue
            out.append({'id': 'reset:%s' % q, 'definite': True, 'kind': 'inventory', 'ok': q in resets,
                        'label': 'Script.%s resets the give-up budgets (directly or via a Script method that does)' % q})
    # reset_recursion_limitations re-creates every budget consulted by a guard
    t2 = tree_of('jedi/inference/__init__.py')
    fn = _find(t2, 'InferenceState.reset_recursion_limitations') if t2 is not None else None
    if fn is None:
        out.append({'id': 'reset-fields', 'kind': 'inventory', 'ok': None, 'label': 'reset_recursion_limitations not found'})
    else:
        src = ast.unparse(fn)
        need = ['self.recursion_detector = recursion.RecursionDetector()',
                'self.execution_recursion_detector = recursion.ExecutionRecursionDetector(self)',
                'self.inferred_element_counts = {}']
        miss = [n for n in need if n not in src]
        out.append({'id': 'reset-fields', 'kind': 'inventory', 'ok': not miss,
                    'label': 'reset_recursion_limitations re-initialises all three budgets '
                             '(statement stack, execution detector, per-node inference counts)',
                    'detail': 'missing: %r' % miss, 'contract': 'C15.reset_recursion_limitations'})
    # sys.setrecursionlimit(3000) at import of jedi.api
    if t is not None:
        ok = any(isinstance(n, ast.Expr) and 'sys.setrecursionlimit(3000)' in ast.unparse(n) for n in t.body)
        out.append({'id': 'py-recursionlimit', 'definite': True, 'kind': 'inventory', 'ok': ok,
                    'label': 'jedi.api raises the interpreter recursion limit to 3000 at import'})
    return out


def _calls_reset(tree, name):
    fn = _find(tree, 'Script.' + name)
    return fn is not None and 'reset_recursion_limitations()' in ast.unparse(fn)


def _standin(repo, seed, tier):
    from pyvc.standin import run_standin
    return run_standin('C15', tier, seed, repo)


_standin.tiers = ('quick', 'thorough')
BOUNDED = [_standin]
# unguarded cores: the recursive workers behind a give-up guard may only be entered through that guard (or by
# themselves); a second entrance is a path on which the guard does not cut the cycle
# (file, name of the core as called, allowed enclosing functions)
GUARDED_CORES = [
    ('jedi/inference/value/iterable.py', '_nested', {'_iterate', '_nested'},
     'comprehension iteration (ComprehensionMixin._nested) is only entered through the memoised _iterate, whose stored '
     'default [] ends a comprehension that iterates over itself'),
    ('jedi/inference/syntax_tree.py', '_infer_node', {'infer_node', '_infer_node_if_inferred', '_infer_node_cached'},
     'node inference (_infer_node, capped per node) is only entered through infer_node and its memoised wrappers'),
]


def structural_cores(repo):
    from pyvc import inventory as inv
    # every call site in jedi/: (callee name, file, enclosing function name, line)
    sites = []
    for rel, path in inv.py_files(repo):
        try:
            t = inv.parse(path)
        except SyntaxError:
            continue

        def visit(node, cur):
            if isinstance(node, (ast.FunctionDef, ast.AsyncFunctionDef)):
                cur = node.name
            if isinstance(node, ast.Call):
                f = node.func
                nm = f.attr if isinstance(f, ast.Attribute) else f.id if isinstance(f, ast.Name) else None
                if nm is not None:
                    sites.append((nm, rel.replace(os.sep, '/'), cur, node.lineno))
            for ch in ast.iter_child_nodes(node):
                visit(ch, cur)
        visit(t, '<module>')
    out = []
    for rel0, core, allowed0, label in GUARDED_CORES:
        allowed = set(allowed0)
        # a helper that is itself only ever called from inside the guard is inside the guard too (fixpoint): splitting
        # the guarded function into private helpers is not an alarm
        changed = True
        while changed:
            changed = False
            for c in {s_[2] for s_ in sites if s_[0] == core and s_[2] not in allowed}:
                callers_of_c = [s_ for s_ in sites if s_[0] == c]
                if callers_of_c and all(s_[2] in allowed for s_ in callers_of_c):
                    allowed.add(c)
                    changed = True
        callers = [s_ for s_ in sites if s_[0] == core]
        extra = [(s_[1], s_[2], s_[3]) for s_ in callers if s_[2] not in allowed]
        out.append({'id': 'guarded-core:%s' % core, 'kind': 'inventory', 'definite': bool(extra),
                    'ok': (not extra) if callers else None, 'label': 'give-up guard cannot be bypassed: ' + label,
                    'detail': 'calls outside the guard: %r' % (extra,)})
    return out


STRUCTURAL = [structural_guards, structural_defaults, structural_cores]
NOT_DECIDED = ['that the guards cut every cycle of the (dynamically dispatched) call graph',
               'RecursionError from Python frame depth alone', 'polynomial cost',
               '_memoize_default / generator cache / _limit_value_infers wrappers: contracts pending']
TRUSTED = ['module-level limits are read from the current source (re-tuning a constant is not an alarm)',
           'debug.* calls have no effect on analysed state']


def register(reg):
    import z3
    from pyvc.values import SV
    import pyvc.types as T
    reg.names['_NO_DEFAULT'] = SV(ANY, z3.Const('_NO_DEFAULT', T.AnySort))
    reg.names['NO_VALUES'] = SV(ANY, z3.Const('NO_VALUES', T.AnySort))
    from pyvc.values import MNS as _NS2, MFn as _MF2
    reg.names['iterable'] = _NS2('iterable', {'Generator': _MF2('spec', 'iterable.Generator', spec=FnSpec(
        'iterable.Generator', params=[('inference_state', ANY), ('func_execution_context', Obj('FExec'))], ret=ANY,
        pure=True, assumed=True))})
    reg.names['ValueSet'] = FnSpec('ValueSet', params=[('values', Seq(ANY))], ret=ANY, pure=True, assumed=True)
    reg.names['_RECURSION_SENTINEL'] = SV(ANY, z3.Const('_RECURSION_SENTINEL', T.AnySort))
    NW = Obj('NameW')
    reg.names['unite'] = FnSpec('unite', params=[('iterable', Seq(Seq(NW)))], ret=Seq(NW), pure=True, assumed=True,
                                note='jedi.common.unite: the union of the given name collections')
    imp = FnSpec('Importer', params=[('inference_state', Obj('InfState15')), ('import_path', ANY),
                                     ('module_context', Obj('Ctx15')), ('level', INT)],
                 defaults={'level': 0}, ret=Obj('Importer15'), pure=True, assumed=True)
    reg.names['Importer'] = imp
    reg.add_family(Family('Importer15', methods={'follow': FnSpec('Importer.follow', ret=Seq(Obj('Val15')), pure=True,
                                                                 assumed=True)}))
