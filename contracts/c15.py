"""C15 — Inference gives up instead of recursing or exploding: every guard does what the
termination argument needs from it, and the guards are in place."""
import ast
import os
from pyvc.api import *
from pyvc.spec import callee_of

SPEC_IMPORTS = ['contracts.common']
SPEC_FUNCTIONS = ['det_inv']

_PN = Obj('PNode')


def det_inv(level, stack, count, total_limit):
    """class invariant J of ExecutionRecursionDetector"""
    return level == len(stack) and 0 <= count and count <= total_limit


_DET_FIELDS = {'_recursion_level': INT, '_parent_execution_funcs': Seq(_PN),
               '_funcdef_execution_counts': DictT(_PN, INT), '_execution_count': INT}
_MOD = [('Detector', f) for f in _DET_FIELDS]

_push = Contract(
    id='C15.push_execution', prop='C15',
    clause='execution budget: a granted (non-builtins) execution consumes one unit of the total budget, which '
           'is never exceeded; nesting deeper than recursion_limit or a spent per-function budget is refused; '
           'level and stack grow by exactly one',
    file='jedi/inference/recursion.py', qualname='ExecutionRecursionDetector.push_execution',
    params={'self': Obj('Detector'), 'execution': Obj('Execution')},
    families=['Detector', 'Execution', 'RootCtx', 'PNode'], ret=BOOL,
    requires=['det_inv(self._recursion_level, self._parent_execution_funcs, self._execution_count, '
              'total_function_execution_limit)'],
    ensures=[
        # J is preserved (stack part is undone by pop_execution)
        'det_inv(self._recursion_level, self._parent_execution_funcs, self._execution_count, '
        'total_function_execution_limit)',
        'self._recursion_level == old(self._recursion_level) + 1',
        'self._parent_execution_funcs == old(self._parent_execution_funcs) + [execution.tree_node]',
        # builtins always run and cost nothing
        'implies(execution.get_root_context().is_builtins_module(), '
        'result == False and self._execution_count == old(self._execution_count))',
        # a grant outside builtins respects every limit and pays for it (ghost fuel decreases)
        'implies(not execution.get_root_context().is_builtins_module() and not result, '
        'self._recursion_level <= recursion_limit '
        'and old(self._execution_count) < total_function_execution_limit '
        'and self._execution_count == old(self._execution_count) + 1)',
        # refusals
        'implies(not execution.get_root_context().is_builtins_module() '
        'and old(self._recursion_level) + 1 > recursion_limit, result == True)',
        'implies(not execution.get_root_context().is_builtins_module() '
        'and old(self._execution_count) >= total_function_execution_limit, result == True)',
        # the budget never moves backwards
        'self._execution_count >= old(self._execution_count)',
        # per-function budget: a grant (outside typing) found room and used one unit
        'implies(not execution.get_root_context().is_builtins_module() and not result '
        'and execution.get_root_context().py__name__() != "typing", '
        'self._funcdef_execution_counts[execution.tree_node] <= per_function_execution_limit '
        'and self._parent_execution_funcs.count(execution.tree_node) <= per_function_recursion_limit)',
    ],
)

_pop = Contract(
    id='C15.pop_execution', prop='C15', clause='pop undoes the stack part of push',
    file='jedi/inference/recursion.py', qualname='ExecutionRecursionDetector.pop_execution',
    params={'self': Obj('Detector')}, families=['Detector', 'PNode'],
    requires=['len(self._parent_execution_funcs) > 0'],
    ensures=['self._recursion_level == old(self._recursion_level) - 1',
             'self._parent_execution_funcs == old(self._parent_execution_funcs)[:-1]',
             'self._execution_count == old(self._execution_count)'],
)

_push_callee = FnSpec(
    'Detector.push_execution', params=[('execution', Obj('Execution'))], ret=BOOL, pure=False, assumed=False,
    modifies=_MOD,
    ensures=['self._recursion_level == old(self._recursion_level) + 1',
             'self._parent_execution_funcs == old(self._parent_execution_funcs) + [execution.tree_node]'],
    note='proved by C15.push_execution')
_pop_callee = FnSpec(
    'Detector.pop_execution', params=[], ret=None, pure=False, assumed=False, modifies=_MOD,
    requires=['len(self._parent_execution_funcs) > 0'],
    ensures=['self._recursion_level == old(self._recursion_level) - 1',
             'self._parent_execution_funcs == old(self._parent_execution_funcs)[:-1]',
             'self._execution_count == old(self._execution_count)'],
    note='proved by C15.pop_execution')

_func_abs = FnSpec('func', params=[('self', Obj('Execution'))], ret=ANY, pure=False, raises=['Exception'],
                   varargs=True, assumed=False,
                   note='the decorated method: abstract, may raise, may itself push/pop balanced',
                   modifies=[('Detector', '_execution_count'), ('Detector', '_funcdef_execution_counts')])


def _call_func(V, st, self_val, args, kwargs, node):
    from pyvc.calls import call_spec
    kwargs = {k: v for k, v in kwargs.items() if k != '**'}
    return call_spec(V, _func_abs, None, args[:1], {}, st, node)


_wrapper = Contract(
    id='C15.execution_recursion_decorator.wrapper', prop='C15',
    clause='the recursion level/stack is restored on every exit (also when the wrapped function raises); '
           'the default is returned without calling the function when the limit was reached',
    file='jedi/inference/recursion.py', qualname='execution_recursion_decorator.decorator.wrapper',
    params={'self': Obj('Execution'), 'kwargs': ANY},
    free={'func': FnSpec('func', impl=_call_func, assumed=False), 'default': ANY},
    families=['Detector', 'Execution', 'RootCtx', 'PNode', 'InfState15'], ret=ANY,
    ensures_all=[
        'self.inference_state.execution_recursion_detector._recursion_level == '
        'old(self.inference_state.execution_recursion_detector._recursion_level)',
        'self.inference_state.execution_recursion_detector._parent_execution_funcs == '
        'old(self.inference_state.execution_recursion_detector._parent_execution_funcs)',
    ],
    effects_allowed=None,
)

_exec_allowed = Contract(
    id='C15.execution_allowed', prop='C15',
    clause='statement recursion guard: yields False iff the node is already being executed; otherwise the node '
           'is on the stack exactly while the body runs and the stack is restored on exit',
    file='jedi/inference/recursion.py', qualname='execution_allowed',
    params={'inference_state': Obj('InfState15'), 'node': _PN},
    families=['InfState15', 'RecDet', 'PNode'], yields=BOOL,
    yield_each_local=[
        'c == (node not in old(inference_state.recursion_detector.pushed_nodes))',
        'implies(c, inference_state.recursion_detector.pushed_nodes == '
        'old(inference_state.recursion_detector.pushed_nodes) + [node])',
        'implies(not c, inference_state.recursion_detector.pushed_nodes == '
        'old(inference_state.recursion_detector.pushed_nodes))',
    ],
    ensures=['len(result) == 1',
             'inference_state.recursion_detector.pushed_nodes == old(inference_state.recursion_detector.pushed_nodes)'],
    notes='@contextmanager generator: code before the yield is __enter__, the finally clause is __exit__',
)

FAMILIES = [
    Family('Detector', fields=_DET_FIELDS, attrs={'_inference_state': Obj('InfState15')},
           methods={'push_execution': _push_callee, 'pop_execution': _pop_callee}),
    Family('Execution', attrs={'tree_node': _PN, 'inference_state': Obj('InfState15')},
           methods={'get_root_context': FnSpec('Execution.get_root_context', ret=Obj('RootCtx'), pure=True)}),
    Family('RootCtx', methods={
        'is_builtins_module': FnSpec('RootCtx.is_builtins_module', ret=BOOL, pure=True),
        'py__name__': FnSpec('RootCtx.py__name__', ret=STR, pure=True)}),
    Family('InfState15', attrs={'execution_recursion_detector': Obj('Detector'),
                                'recursion_detector': Obj('RecDet')}),
    Family('RecDet', fields={'pushed_nodes': Seq(_PN)}),
]

CONTRACTS = [_push, _pop, _wrapper, _exec_allowed]


# ---------------------------------------------------------------- structural: guards in place
GUARDS = [
    # (file, qualname, decorator text that must be present)
    ('jedi/inference/syntax_tree.py', '_infer_node', '_limit_value_infers'),
    ('jedi/inference/syntax_tree.py', 'infer_expr_stmt', '_limit_value_infers'),
    ('jedi/inference/value/function.py', 'BaseFunctionExecutionContext.get_return_values',
     'recursion.execution_recursion_decorator'),
    ('jedi/inference/value/function.py', 'BaseFunctionExecutionContext.get_yield_lazy_values',
     'recursion.execution_recursion_decorator'),
    ('jedi/inference/value/klass.py', 'ClassMixin.py__mro__', 'inference_state_method_generator_cache'),
    ('jedi/inference/value/klass.py', 'ClassValue.py__bases__', 'inference_state_method_cache'),
    ('jedi/inference/imports.py', 'infer_import', 'inference_state_method_cache'),
    ('jedi/inference/imports.py', 'goto_import', 'inference_state_method_cache'),
    ('jedi/inference/syntax_tree.py', '_infer_node_cached', 'inference_state_method_cache'),
    ('jedi/inference/sys_path.py', 'check_sys_path_modifications', 'inference_state_method_cache'),
]
WITH_GUARDS = [
    # (file, qualname, context manager that must be used inside)
    ('jedi/inference/syntax_tree.py', 'infer_expr_stmt', 'execution_allowed'),
    ('jedi/inference/flow_analysis.py', '_check_if', 'execution_allowed'),
    ('jedi/inference/value/dynamic_arrays.py', '_internal_check_array_additions', 'execution_allowed'),
    ('jedi/inference/dynamic_params.py', '_avoid_recursions.wrapper', 'execution_allowed'),
]
RESET_QUERIES = ['complete', 'infer', 'goto', 'help', 'get_references', 'get_signatures', '_names',
                 '_analysis', 'search', 'complete_search']


def _find(tree, qualname):
    from pyvc.verify import find_function
    return find_function(tree, qualname)


def structural_guards(repo):
    out = []
    cache = {}

    def tree_of(rel):
        if rel not in cache:
            try:
                cache[rel] = ast.parse(open(os.path.join(repo, rel), encoding='utf-8').read())
            except (OSError, SyntaxError):
                cache[rel] = None
        return cache[rel]
    for rel, qn, deco in GUARDS:
        t = tree_of(rel)
        fn = _find(t, qn) if t is not None else None
        if fn is None:
            out.append({'id': 'guard:%s' % qn, 'kind': 'inventory', 'ok': None,
                        'label': 'guard inventory: %s not found in %s' % (qn, rel)})
            continue
        decos = [ast.unparse(d) for d in fn.decorator_list]
        ok = any(d.startswith(deco) for d in decos)
        out.append({'id': 'guard:%s' % qn, 'kind': 'inventory', 'ok': ok,
                    'label': 'give-up guard in place: %s is decorated with %s' % (qn, deco),
                    'detail': 'decorators: %r' % decos})
    for rel, qn, cm in WITH_GUARDS:
        t = tree_of(rel)
        fn = _find(t, qn) if t is not None else None
        if fn is None:
            out.append({'id': 'with-guard:%s' % qn, 'kind': 'inventory', 'ok': None,
                        'label': 'guard inventory: %s not found in %s' % (qn, rel)})
            continue
        used = False
        for n in ast.walk(fn):
            if isinstance(n, ast.With):
                for it in n.items:
                    if cm in ast.unparse(it.context_expr):
                        used = True
        out.append({'id': 'with-guard:%s' % qn, 'kind': 'inventory', 'ok': used,
                    'label': 'give-up guard in place: %s runs under %s' % (qn, cm)})
    # every Script query starts by resetting the budgets (directly or through another Script method)
    t = tree_of('jedi/api/__init__.py')
    if t is not None:
        cls = [n for n in t.body if isinstance(n, ast.ClassDef) and n.name == 'Script']
        methods = {f.name: ast.unparse(f) for f in (cls[0].body if cls else []) if isinstance(f, ast.FunctionDef)}
        resets = {m for m, src in methods.items() if 'reset_recursion_limitations()' in src}
        changed = True
        while changed:
            changed = False
            for m, src in methods.items():
                if m not in resets and any(('self.%s(' % r) in src for r in resets):
                    resets.add(m)
                    changed = True
        for q in RESET_QUERIES:
            if q not in methods:
                out.append({'id': 'reset:%s' % q, 'kind': 'inventory', 'ok': None,
                            'label': 'Script.%s not found' % q})
                continue
            out.append({'id': 'reset:%s' % q, 'kind': 'inventory', 'ok': q in resets,
                        'label': 'Script.%s resets the give-up budgets (directly or via a Script method that does)' % q})
    # reset_recursion_limitations re-creates every budget consulted by a guard
    t2 = tree_of('jedi/inference/__init__.py')
    fn = _find(t2, 'InferenceState.reset_recursion_limitations') if t2 is not None else None
    if fn is None:
        out.append({'id': 'reset-fields', 'kind': 'inventory', 'ok': None, 'label': 'reset_recursion_limitations not found'})
    else:
        src = ast.unparse(fn)
        need = ['self.recursion_detector = recursion.RecursionDetector()',
                'self.execution_recursion_detector = recursion.ExecutionRecursionDetector(self)',
                'self.inferred_element_counts = {}']
        miss = [n for n in need if n not in src]
        out.append({'id': 'reset-fields', 'kind': 'inventory', 'ok': not miss,
                    'label': 'reset_recursion_limitations re-initialises all three budgets '
                             '(statement stack, execution detector, per-node inference counts)',
                    'detail': 'missing: %r' % miss, 'contract': 'C15.reset_recursion_limitations'})
    # sys.setrecursionlimit(3000) at import of jedi.api
    if t is not None:
        ok = any(isinstance(n, ast.Expr) and 'sys.setrecursionlimit(3000)' in ast.unparse(n) for n in t.body)
        out.append({'id': 'py-recursionlimit', 'kind': 'inventory', 'ok': ok,
                    'label': 'jedi.api raises the interpreter recursion limit to 3000 at import'})
    return out


def _calls_reset(tree, name):
    fn = _find(tree, 'Script.' + name)
    return fn is not None and 'reset_recursion_limitations()' in ast.unparse(fn)


STRUCTURAL = [structural_guards]
NOT_DECIDED = ['that the guards cut every cycle of the (dynamically dispatched) call graph',
               'RecursionError from Python frame depth alone', 'polynomial cost',
               '_memoize_default / generator cache / _limit_value_infers wrappers: contracts pending']
TRUSTED = ['module-level limits are read from the current source (re-tuning a constant is not an alarm)',
           'debug.* calls have no effect on analysed state']
