"""C16 — Results are deterministic and repeatable."""
import ast
import os
import z3
from pyvc.api import *

SPEC_IMPORTS = ['contracts.common', 'contracts.c19', 'contracts.c20']
SPEC_FUNCTIONS = ['doc_sort_key_defs']


def doc_sort_key_defs(module_path, line, column, name):
    """documented order of infer()/get_references(): by file, then line, column, name"""
    return (str(module_path or ''), line or 0, column or 0, name)


_key = Contract(
    id='C16.sorted_definitions.key', prop='C16',
    clause='the sort key of infer()/get_references() results is (path, line, column, name)',
    file='jedi/api/helpers.py', qualname='sorted_definitions.<lambda>',
    params={'x': Obj('NameAPI')}, families=['NameAPI'], ret=Tup(STR, INT, INT, STR),
    ensures=['result == doc_sort_key_defs(x.module_path, x.line, x.column, x.name)'],
)

_sorted_defs = Contract(
    id='C16.sorted_definitions', prop='C16',
    clause='results are the given definitions ordered by that key (so the order is a function of the set)',
    file='jedi/api/helpers.py', qualname='sorted_definitions',
    params={'defs': Seq(Obj('NameAPI'))}, families=['NameAPI'], ret=Seq(Obj('NameAPI')),
    ensures=[
        'len(result) == len(defs)',
        'all(d in defs for d in result)', 'all(d in result for d in defs)',
        'all(implies(i < j, doc_sort_key_defs(result[i].module_path, result[i].line, result[i].column, '
        'result[i].name) <= doc_sort_key_defs(result[j].module_path, result[j].line, result[j].column, '
        'result[j].name)) for i in range(0, len(result)) for j in range(0, len(result)))',
    ],
)


def _region_flag(func):
    out = []
    for s in func.body:
        out.append(s)
        if isinstance(s, ast.Try):
            return out
    return None


_flag = Contract(
    id='C16.find_references.flow_flag', prop='C16',
    clause='the temporary switch flow_analysis_enabled is restored on every exit of the reference search, '
           'also when the search raises',
    file='jedi/inference/references.py', qualname='find_references', region=_region_flag,
    params={'module_context': Obj('ModCtx16'), 'tree_name': Obj('PNode'), 'only_in_module': BOOL},
    families=['ModCtx16', 'InfState16', 'PNode'], requires=['tree_name.is_leaf'],
    ensures_all=['module_context.inference_state.flow_analysis_enabled == True'],
    notes='block contract on the leading statements up to and including the try/finally',
)

_predef = Contract(
    id='C16.predefine_names', prop='C16',
    clause='predefined names of a flow scope are removed again on every exit',
    file='jedi/inference/context.py', qualname='AbstractContext.predefine_names',
    params={'self': Obj('Ctx16'), 'flow_scope': Obj('PNode'), 'dct': ANY},
    families=['Ctx16', 'PNode'], yields=ANY,
    yield_each_local=['flow_scope in self.predefined_names'],
    ensures=['flow_scope not in self.predefined_names', 'len(result) == 1'],
)

_avoid = Contract(
    id='C16._avoid_recursions.wrapper', prop='C16',
    clause='the dynamic-params depth counter is restored on every exit, also when the search raises',
    file='jedi/inference/dynamic_params.py', qualname='_avoid_recursions.wrapper',
    params={'function_value': Obj('FuncVal16'), 'param_index': INT},
    free={'func': FnSpec('func', params=[('function_value', Obj('FuncVal16')), ('param_index', INT)], ret=ANY,
                         raises=['Exception'], assumed=False, note='wrapped search: abstract, may raise'),
          'NO_VALUES': ANY},
    families=['FuncVal16', 'InfState16', 'PNode'],
    ensures_all=['function_value.inference_state.dynamic_params_depth == '
                 'old(function_value.inference_state.dynamic_params_depth)'],
)

FAMILIES = [
    Family('Val16', methods={'get_signatures': FnSpec('Value.get_signatures', ret=Seq(Obj('Sig16')), pure=True, assumed=True)}),
    Family('Sig16', methods={'get_param_names': FnSpec('Signature.get_param_names', ret=Seq(Obj('NameW')), pure=True,
                                                       assumed=True)}),
    Family('NameAPI', attrs={'module_path': Opt(PATH), 'line': Opt(INT), 'column': Opt(INT), 'name': STR}),
    Family('ModCtx16', attrs={'inference_state': Obj('InfState16')}),
    Family('InfState16', fields={'flow_analysis_enabled': BOOL, 'dynamic_params_depth': INT}),
    Family('Ctx16', fields={'predefined_names': DictT(Obj('PNode'), ANY)}),
    Family('FuncVal16', attrs={'inference_state': Obj('InfState16'), 'tree_node': Obj('PNode')}),
]

# ------------------------------------------------------------------ goto on the keyword of a call
def _region_kwarg_goto(func):
    """AbstractTreeName.goto, branch for `f(name=...)`: from `param_names = []` to `return param_names`"""
    for n in ast.walk(func):
        if isinstance(n, ast.For) and ast.unparse(n.iter) == 'value_set' and ast.unparse(n.target) == 'value':
            for body in ast.walk(func):
                stmts = getattr(body, 'body', None)
                if isinstance(stmts, list) and n in stmts:
                    k = stmts.index(n)
                    pre = stmts[k - 1:k] if k > 0 and isinstance(stmts[k - 1], ast.Assign) \
                        and ast.unparse(stmts[k - 1].targets[0]) == 'param_names' else []
                    return pre + stmts[k:k + 2]
    return None


def _replay_kwarg_goto(inp):
    """goto on the keyword of a call whose callee is one of several functions that share the parameter name"""
    from pyvc.replay import run_real
    import jedi
    code = ('def first(alpha, beta=1):\n    pass\ndef second(beta=2, gamma=3):\n    pass\n'
            'def third(delta=0):\n    pass\n'
            'func = first if cond() else (second if other() else third)\nfunc(beta=3)\n')
    out = run_real(lambda: sorted((n.line, n.column) for n in jedi.Script(code).goto(8, 6)))
    return {}, out


_kwarg_goto = Contract(
    id='C16.AbstractTreeName.goto.keyword', prop='C16',
    clause='goto on the keyword of a call returns the matching parameter of EVERY signature of EVERY value the callee '
           'may be - a set that does not depend on the (address-dependent) iteration order of the value set',
    file='jedi/inference/names.py', qualname='AbstractTreeName.goto', region=_region_kwarg_goto,
    params={'self': ANY},
    free={'value_set': Seq(Obj('Val16')), 'name': Obj('PNode'), 'context': ANY, 'definition': ANY, 'par': ANY,
          'node_type': STR, 'trailer': ANY, 'to_infer': ANY},
    ghost={'gv': Obj('Val16'), 'gs': Obj('Sig16'), 'gp': Obj('NameW')},
    families=['Val16', 'Sig16', 'NameW', 'PNode'], ret=Seq(Obj('NameW')), locals={'param_names': Seq(Obj('NameW'))},
    requires=['name.is_leaf'],
    invariants={
        0: ['implies(gv in DONE and gs in gv.get_signatures() and gp in gs.get_param_names() and '
            'gp.string_name == name.value, gp in param_names)'],
        1: ['implies(gs in DONE and gp in gs.get_param_names() and gp.string_name == name.value, gp in param_names)',
            'implies(gp in PRE_param_names, gp in param_names)'],
        2: ['implies(gp in DONE and gp.string_name == name.value, gp in param_names)',
            'implies(gp in PRE_param_names, gp in param_names)'],
    },
    ensures=['implies(gv in value_set and gs in gv.get_signatures() and gp in gs.get_param_names() and '
             'gp.string_name == name.value, gp in result)'],
    witness={}, replay=_replay_kwarg_goto, concrete_only=True, witness_library=[{}],
    concrete_ensures=['result == [(1, 17), (3, 11)]'],
)

CONTRACTS = [_key, _sorted_defs, _flag, _predef, _avoid, _kwarg_goto]


def dynamic_contracts(repo):
    """the order in which the project is scanned (and with it every answer that is cut off by a file limit or takes the
    first module found) is the directory listing order handed on by FolderIO.walk: its pruning keeps the kept folders
    IN ORDER (contracts shared with C19; a set- or hash-ordered rewrite fails them)"""
    from contracts import c19, c20
    # ... and the effective search path of a Script is the same for every query, whatever was asked before: computing it
    # changes neither the project's configuration nor the memoised path (contracts shared with C20)
    return list(c19.WALK) + [c20._get_sys_path, c20._swm]


def register(reg):
    from pyvc.values import MNS, MFn
    reg.names['_find_defining_names'] = FnSpec(
        '_find_defining_names', params=[('module_context', Obj('ModCtx16')), ('tree_name', Obj('PNode'))],
        ret=ANY, raises=['Exception'], assumed=False, note='the reference search (inference): abstract, may raise')
    enter = FnSpec('execution_allowed.__enter__', params=[('inf', Obj('InfState16')), ('node', Obj('PNode'))],
                   ret=BOOL, assumed=False, note='contract proved under C15.execution_allowed')
    exit_ = FnSpec('execution_allowed.__exit__', params=[('inf', Obj('InfState16')), ('node', Obj('PNode'))],
                   ret=None, assumed=False)
    ea = FnSpec('execution_allowed', params=enter.params, ret=BOOL, assumed=False)
    ea.cm = {'enter': enter, 'exit': exit_}
    reg.names['recursion'] = MNS('recursion', {'execution_allowed': MFn('spec', 'execution_allowed', spec=ea)})


# ---- lemma: the key determines the Name (injectivity modulo Name.__eq__) -------------------------
def lemma_key_injective(reg):
    """k(a) == k(b)  =>  a, b equal in the sense of Name.__eq__ (module_path, start_pos, name)
    for names of one inference state: real positions have line >= 1, column >= 0; str() is injective on
    normalised paths and never '' for a real path."""
    S = z3.StringSort()
    out = []

    def mk(tag):
        has_path = z3.Bool('has_path_' + tag)
        path = z3.Const('path_' + tag, S)
        has_pos = z3.Bool('has_pos_' + tag)
        line = z3.Int('line_' + tag)
        col = z3.Int('col_' + tag)
        name = z3.Const('name_' + tag, S)
        valid = z3.And(z3.Implies(has_path, z3.Length(path) > 0), z3.Implies(has_pos, z3.And(line >= 1, col >= 0)))
        key = (z3.If(has_path, path, z3.StringVal('')), z3.If(has_pos, line, 0), z3.If(has_pos, col, 0), name)
        ident = (has_path, z3.If(has_path, path, z3.StringVal('')), has_pos, z3.If(has_pos, line, 0),
                 z3.If(has_pos, col, 0), name)
        return valid, key, ident
    va, ka, ia = mk('a')
    vb, kb, ib = mk('b')
    same_key = z3.And(*[x == y for x, y in zip(ka, kb)])
    # column 0 on line>=1 is a real position, so (has_pos, line, col) is recoverable from (line or 0, column or 0)
    goal = z3.And(ia[0] == ib[0], ia[1] == ib[1], ia[2] == ib[2], ia[3] == ib[3], ia[4] == ib[4], ia[5] == ib[5])
    out.append(('key-injective', 'sort key (path or "", line or 0, column or 0, name) is injective on Name '
                'identity (module_path, position, name): sorting a set of distinct Names yields one order',
                [], [va, vb, same_key], goal))
    # dropping any component breaks it: canary (must NOT be provable) is checked by the seeded-breakage selftest
    return out


LEMMAS = [lemma_key_injective]


def structural_analysis_restore(repo):
    rel = 'jedi/api/__init__.py'
    out = []
    try:
        tree = ast.parse(open(os.path.join(repo, rel), encoding='utf-8').read())
    except (OSError, SyntaxError) as e:
        return [{'id': 'analysis-restore', 'definite': True, 'kind': 'frame', 'ok': None, 'label': 'cannot parse %s: %s' % (rel, e)}]
    from pyvc.verify import find_function
    fn = find_function(tree, 'Script._analysis')
    ok = None
    if fn is not None:
        ok = False
        for n in fn.body:
            if isinstance(n, ast.Try) and n.finalbody:
                if 'self._inference_state.is_analysis = False' in ast.unparse(ast.Module(body=n.finalbody, type_ignores=[])):
                    ok = True
    out.append({'id': 'analysis-restore', 'definite': True, 'kind': 'frame', 'ok': ok,
                'label': 'Script._analysis restores is_analysis = False in a finally clause (every exit)'})
    # infer/get_references sort through sorted_definitions; goto returns a set-derived list
    for q, needle in (('infer', 'helpers.sorted_definitions(set('), ('get_references', 'helpers.sorted_definitions(')):
        f = find_function(tree, 'Script.' + q)
        src = ast.unparse(f) if f else ''
        inner = ''
        if f is not None:
            for n in ast.walk(f):
                if isinstance(n, ast.FunctionDef) and n is not f:
                    inner += ast.unparse(n)
        out.append({'id': 'sorted:' + q, 'kind': 'post', 'ok': (needle in src or needle in inner) if f else None,
                    'label': 'Script.%s returns its de-duplicated results through sorted_definitions' % q})
    return out


DIRECT_RESET = ['complete', 'infer', 'goto', 'help', 'get_references', 'get_signatures', '_names']


def structural_reset(repo):
    """per-query reset of the recursion bookkeeping: each query method that resets it today does so itself, before
    anything else (leaked counters make a later identical query on the same Script answer differently)"""
    rel = 'jedi/api/__init__.py'
    try:
        tree = ast.parse(open(os.path.join(repo, rel), encoding='utf-8').read())
    except (OSError, SyntaxError) as e:
        return [{'id': 'reset', 'kind': 'frame', 'ok': None, 'label': 'cannot parse %s: %s' % (rel, e)}]
    from pyvc.verify import find_function
    out = []
    for q in DIRECT_RESET:
        f = find_function(tree, 'Script.' + q)
        if f is None:
            out.append({'id': 'reset:' + q, 'definite': True, 'kind': 'frame', 'ok': None, 'label': 'Script.%s not found' % q})
            continue
        body = [s_ for s_ in f.body if not (isinstance(s_, ast.Expr) and isinstance(s_.value, ast.Constant)
                                            and isinstance(s_.value.value, str))]
        # the reset is a top-level statement of the method and only argument handling precedes it
        idx = [i for i, s_ in enumerate(body)
               if ast.unparse(s_).strip() == 'self._inference_state.reset_recursion_limitations()']
        ok = bool(idx)
        if ok:
            before = body[:idx[0]]
            ok = all(not any(isinstance(n, ast.Call) and 'self._inference_state' in ast.unparse(n)
                             or isinstance(n, ast.Call) and ast.unparse(n.func).startswith(('helpers.', 'self._get_module'))
                             for n in ast.walk(s_)) for s_ in before)
        out.append({'id': 'reset:' + q, 'definite': True, 'kind': 'frame', 'ok': ok,
                    'label': 'Script.%s resets the recursion bookkeeping itself, unconditionally and before any '
                             'inference (the counters of one query never leak into the next one)' % q})
    return out


FLAGS = ('flow_analysis_enabled', 'is_analysis', 'dynamic_params_depth')


def structural_flag_switches(repo):
    """temporary switches of per-Script flags are restored in a finally block, wherever they are written (also when
    the switch is wrapped into a context manager or helper)"""
    from pyvc import inventory as inv
    out = []
    for rel, path in inv.py_files(repo):
        try:
            tree = inv.parse(path)
        except SyntaxError:
            continue
        for fn in [n for n in ast.walk(tree) if isinstance(n, (ast.FunctionDef, ast.AsyncFunctionDef))]:
            if fn.name in ('__init__', 'reset_recursion_limitations'):
                continue
            writes = {}
            for n in inv._walk_no_nested(fn):
                tg = n.targets if isinstance(n, ast.Assign) else [n.target] if isinstance(n, ast.AugAssign) else []
                for t in tg:
                    if isinstance(t, ast.Attribute) and t.attr in FLAGS:
                        writes.setdefault(t.attr, []).append(n)
            for attr, ws in writes.items():
                restored = False
                for n in inv._walk_no_nested(fn):
                    if isinstance(n, ast.Try) and n.finalbody:
                        for m_ in n.finalbody:
                            for x in ast.walk(m_):
                                tg = x.targets if isinstance(x, ast.Assign) else [x.target] if isinstance(x, ast.AugAssign) else []
                                if any(isinstance(t, ast.Attribute) and t.attr == attr for t in tg):
                                    restored = True
                out.append({'id': 'flag-restored:%s:%s' % (fn.name, attr), 'kind': 'frame', 'ok': restored,
                            'definite': not restored,
                            'label': '%s (%s) switches %s and restores it in a finally block: the flag cannot leak into '
                                     'later queries on the same Script when the guarded code raises' % (fn.name, rel, attr)})
    if not out:
        out.append({'id': 'flag-restored', 'kind': 'frame', 'ok': None, 'label': 'no writer of a per-Script flag found'})
    return out


def _standin(repo, seed, tier):
    from pyvc.standin import run_standin
    return run_standin('C16', tier, seed, repo)


_standin.tiers = ('quick', 'thorough')
BOUNDED = [_standin]
STRUCTURAL = [structural_analysis_restore, structural_reset, structural_flag_switches]
NOT_DECIDED = ['that the input order of completion names is hash-independent (value sets are frozensets of '
               'identity-hashed objects)', 'memo entries holding recursion defaults (order dependence through the cache)',
               'Name-level follow-up queries share one execution budget (F15)']
TRUSTED = ['builtin sorted returns the same elements ordered by key', 'str() is injective on normalised paths']
