"""C17 — Every reported source position is faithful to the text."""
import ast
import os
from pyvc.api import *

SPEC_IMPORTS = ['contracts.common', 'contracts.load']
SPEC_FUNCTIONS = ['window']

_PN = Obj('PNode')


def window(lines, line, before, after):
    """the lines around 1-based `line`: `before` lines above (clamped at the top) to `after` below"""
    i = line - 1
    return ''.join(lines[max(i - before, 0):i + after + 1])


_GEOM = [
    # assumed parso tree geometry (DESIGN 3), each audited on the corpus in the thorough tier
    'implies(o.get_definition() is not None, o.get_definition().start_pos <= o.start_pos '
    'and o.end_pos <= o.get_definition().end_pos)',
    'implies(o.get_definition(False, True) is not None, o.get_definition(False, True).start_pos <= o.start_pos)',
    'o.start_pos <= o.end_pos',
    # a definition contains its name: if its last leaf is a trailing newline there is a leaf before it,
    # and that leaf does not end before the name ends
    'implies(o.get_definition() is not None and o.get_definition().get_last_leaf().type == "newline", '
    'o.get_definition().get_last_leaf().get_previous_leaf() is not None and '
    'o.end_pos <= o.get_definition().get_last_leaf().get_previous_leaf().end_pos)',
    'implies(o.get_definition() is not None, o.end_pos <= o.get_definition().get_last_leaf().end_pos)',
]

FAMILIES = [
    Family('BN', attrs={'_name': Obj('NM'), 'type': STR}),
    Family('NM', attrs={'start_pos': Opt(POS), 'tree_name': Opt(_PN), 'is_value_name': BOOL, 'string_name': STR},
           methods={'get_root_context': FnSpec('NM.get_root_context', ret=Obj('RC17'), pure=True),
                    'get_public_name': FnSpec('NM.get_public_name', ret=STR, pure=True)}),
    Family('RC17', attrs={'code_lines': Opt(Seq(STR))}),
    Family('TreeNM', attrs={'tree_name': _PN}),
]


def _leaf_axioms(reg):
    pn = reg.families['PNode']
    for a in _GEOM:
        if a not in pn.axioms:
            pn.axioms.append(a)


_line = Contract(
    id='C17.BaseName.line', prop='C17', clause='line is the line of the name token (None for names without position)',
    file='jedi/api/classes.py', qualname='BaseName.line', params={'self': Obj('BN')}, families=['BN', 'NM'],
    ret=Opt(INT),
    ensures=['implies(self._name.start_pos is None, result is None)',
             'implies(self._name.start_pos is not None, result == self._name.start_pos[0])'],
)
_column = Contract(
    id='C17.BaseName.column', prop='C17', clause='column is the column of the name token',
    file='jedi/api/classes.py', qualname='BaseName.column', params={'self': Obj('BN')}, families=['BN', 'NM'],
    ret=Opt(INT),
    ensures=['implies(self._name.start_pos is None, result is None)',
             'implies(self._name.start_pos is not None, result == self._name.start_pos[1])'],
)
def _replay_tree_name(inp):
    """the real AbstractTreeName properties on a name object around a real parso token"""
    from pyvc.replay import run_real
    import parso
    from jedi.inference.names import AbstractTreeName
    leaf = parso.parse(inp['code']).get_first_leaf()
    nm = AbstractTreeName(None, leaf)
    out = run_real(lambda: (nm.string_name, nm.start_pos))
    return {'TOKEN': leaf.value, 'POS': leaf.start_pos}, out


_TREE_NAME_LIB = [{'code': c} for c in ('value = 1\n', 'größe = 1\n', '\ufb01le_name = 1\n', '\u00b5 = 1\n',
                                        '\uff58 = 1\n', '\u017fum = 1\n', 'e\u0301 = 1\n', '  \tx = 1\n')]

_tree_start = Contract(
    id='C17.AbstractTreeName.start_pos', prop='C17', clause='a tree name reports the position of its own token',
    file='jedi/inference/names.py', qualname='AbstractTreeName.start_pos', params={'self': Obj('TreeNM')},
    families=['TreeNM', 'PNode'], ret=POS,
    ensures=['result == self.tree_name.start_pos'],
    witness={}, replay=_replay_tree_name, concrete_only=True, witness_library=_TREE_NAME_LIB,
    concrete_ensures=['result[1] == POS'],
)
_tree_string = Contract(
    id='C17.AbstractTreeName.string_name', prop='C17', clause='a tree name is spelled as its token',
    file='jedi/inference/names.py', qualname='AbstractTreeName.string_name', params={'self': Obj('TreeNM')},
    families=['TreeNM', 'PNode'], ret=STR, requires=['self.tree_name.is_leaf'],
    ensures=['result == self.tree_name.value'],
    witness={}, replay=_replay_tree_name, concrete_only=True, witness_library=_TREE_NAME_LIB,
    concrete_ensures=['result[0] == TOKEN'],
)
_def_start = Contract(
    id='C17.get_definition_start_position', prop='C17',
    clause='the definition range starts at or before the name (encloses its location)',
    file='jedi/api/classes.py', qualname='BaseName.get_definition_start_position',
    params={'self': Obj('BN')}, families=['BN', 'NM', 'PNode'], ret=Opt(POS),
    requires=['implies(self._name.tree_name is not None, self._name.start_pos is not None and '
              'self._name.start_pos == self._name.tree_name.start_pos)'],
    ensures=['implies(self._name.tree_name is None, result is None)',
             'implies(self._name.tree_name is not None, result is not None and result <= self._name.start_pos)'],
)
_def_end = Contract(
    id='C17.get_definition_end_position', prop='C17',
    clause='the definition range ends at or after the end of the name; no internal exception',
    file='jedi/api/classes.py', qualname='BaseName.get_definition_end_position',
    params={'self': Obj('BN')}, families=['BN', 'NM', 'PNode'], ret=Opt(POS),
    ensures=['implies(self._name.tree_name is None, result is None)',
             'implies(self._name.tree_name is not None, result is not None and '
             'self._name.tree_name.end_pos <= result)'],
)
def _replay_line_code(inp):
    from pyvc.replay import run_real
    from jedi.api import classes

    class RC:
        code_lines = list(inp['lines'])

    class NM:
        is_value_name = True
        start_pos = (inp['line'], inp.get('col', 0))

        def get_root_context(self):
            return RC()
    bn = classes.BaseName.__new__(classes.BaseName)
    bn._name = NM()
    out = run_real(lambda: bn.get_line_code(inp['before'], inp['after']))
    return {'self': bn, 'before': inp['before'], 'after': inp['after']}, out


_line_code = Contract(
    id='C17.get_line_code', prop='C17',
    clause='get_line_code() returns the line the name is on (and the requested window around it)',
    file='jedi/api/classes.py', qualname='BaseName.get_line_code',
    params={'self': Obj('BN'), 'before': INT, 'after': INT}, families=['BN', 'NM', 'RC17'], ret=STR,
    requires=['before >= 0', 'after >= 0',
              # a name that has a position in a module with source text lies inside that text
              'implies(self._name.is_value_name and self._name.get_root_context().code_lines is not None '
              'and self._name.start_pos is not None, 1 <= self._name.start_pos[0] '
              'and self._name.start_pos[0] <= len(self._name.get_root_context().code_lines))'],
    ensures=[
        # total: names without source or without position give ''
        'implies(not self._name.is_value_name or self._name.get_root_context().code_lines is None '
        'or self._name.start_pos is None, result == "")',
        'implies(self._name.is_value_name and self._name.get_root_context().code_lines is not None '
        'and self._name.start_pos is not None, '
        'result == window(self._name.get_root_context().code_lines, self._name.start_pos[0], before, after))',
        'implies(self._name.is_value_name and self._name.get_root_context().code_lines is not None '
        'and self._name.start_pos is not None and before == 0 and after == 0, '
        'result == self._name.get_root_context().code_lines[self._name.start_pos[0] - 1])',
    ],
    witness={'lines': 'self._name.get_root_context().code_lines', 'line': 'self._name.start_pos[0]',
             'before': 'before', 'after': 'after'},
    replay=_replay_line_code,
    witness_library=[{'lines': ['a\n', 'b\n', 'c\n', 'd'], 'line': ln, 'before': b, 'after': a}
                     for ln in (1, 2, 4) for b in (0, 1, 3) for a in (0, 1, 2)],
)
_def_ref = Contract(
    id='C17.get_module_names.def_ref_filter', prop='C17',
    clause='get_names(definitions=True, references=True) filters nothing out: each identifier token is '
           'reported; with definitions only, exactly the binding tokens',
    file='jedi/api/helpers.py', qualname='get_module_names.def_ref_filter',
    params={'name': _PN}, free={'definitions': BOOL, 'references': BOOL}, families=['PNode'], ret=BOOL,
    ensures=['implies(definitions and references, result == True)',
             'implies(definitions and not references, result == name.is_definition())',
             'implies(not definitions and references, result == (not name.is_definition()))'],
)
_side = Contract(
    id='C17.is_side_effect', prop='C17', clause='no internal exception; side effect = attribute definition',
    file='jedi/api/classes.py', qualname='BaseName.is_side_effect', params={'self': Obj('BN')},
    families=['BN', 'NM', 'PNode'], ret=BOOL,
    requires=['implies(self._name.tree_name is not None, self._name.tree_name.parent is not None)'],
    ensures=['implies(self._name.tree_name is None, result == False)'],
)

def _replay_check_fs(inp):
    """a project file in a legacy encoding with a PEP 263 coding line, found by the text search only"""
    from pyvc.replay import run_real
    import re
    import tempfile
    import shutil
    import jedi
    from parso import python_bytes_to_unicode
    from jedi.file_io import FileIO
    from jedi.inference.references import _check_fs
    d = tempfile.mkdtemp(prefix='c17_', dir='/var/tmp')
    try:
        text = '# -*- coding: %s -*-\nlabel = "%s"; wanted_name = 1\n' % (inp['encoding'], inp['text'])
        raw = text.encode(inp['encoding'])
        path = os.path.join(d, 'legacy.py')
        with open(path, 'wb') as f:
            f.write(raw)
        state = jedi.Script('', path=os.path.join(d, 'main.py'), project=jedi.Project(d))._inference_state
        got = []
        out = run_real(lambda: got.append(_check_fs(state, FileIO(path), re.compile(r'\bwanted_name\b'))))
        ctx = got[0] if got else None
        parsed = ''.join(ctx.code_lines) if ctx is not None else None
        return {'PARSED_TEXT': parsed, 'EXPECTED_TEXT': python_bytes_to_unicode(raw, errors='replace'),
                'REAL_TEXT': text}, out
    finally:
        shutil.rmtree(d, ignore_errors=True)


_check_fs = Contract(
    id='C17._check_fs', prop='C17',
    clause='a project file found by the text search is parsed from its bytes decoded the way Python decodes source '
           '(PEP 263 coding line, BOM; parso.python_bytes_to_unicode): positions and get_line_code() of references '
           'in it refer to the real text',
    file='jedi/inference/references.py', qualname='_check_fs',
    params={'inference_state': ANY, 'file_io': Obj('FIO17'), 'regex': Obj('Regex17')},
    families=['FIO17', 'Regex17', 'KFIO17', 'Mod17'], ret=Opt(ANY),
    ensures=['implies(result is not None, result == load_module_from_path(inference_state, KnownContentFileIO('
             'file_io.path, python_bytes_to_unicode(raw_of(file_io), errors="replace"))).as_context())',
             'implies(result is not None, regex.search(python_bytes_to_unicode(raw_of(file_io), errors="replace")))',
             # (C19) completeness of the pre-filter: an existing file whose DECODED text matches is never skipped
             'implies(fio_exists(file_io) and regex.search(python_bytes_to_unicode(raw_of(file_io), errors="replace")) '
             'and not load_module_from_path(inference_state, KnownContentFileIO(file_io.path, '
             'python_bytes_to_unicode(raw_of(file_io), errors="replace"))).is_compiled(), result is not None)'],
    witness={}, replay=_replay_check_fs, concrete_only=True,
    witness_library=[{'encoding': 'gbk', 'text': '\u4e2d\u6587\u6807\u7b7e'}, {'encoding': 'latin-1', 'text': 'caf\xe9 \xfcber'},
                     {'encoding': 'utf-8', 'text': '\u4e2d\u6587'},
                     # characters that Unicode normalisation would change: the text must stay as it is in the file
                     {'encoding': 'utf-8', 'text': '\ufb01le e\u0301 \u2026 \u00a0x \uff58 \u212b'},
                     {'encoding': 'latin-1', 'text': 'a\xa0b \xb5 \xbd'}],
    concrete_ensures=['PARSED_TEXT == EXPECTED_TEXT', 'PARSED_TEXT == REAL_TEXT'],
)

from contracts import load as _loading
CONTRACTS = [_line, _column, _tree_start, _tree_string, _def_start, _def_end, _line_code, _def_ref, _side, _check_fs,
             _loading.load_python_module, _loading.parse_and_get_code]


def register(reg):
    _leaf_axioms(reg)
    reg.add_family(Family('FIO17', attrs={'path': ANY}, methods={
        'read': FnSpec('FileIO.read', ret=ANY, raises=[('FileNotFoundError', 'not fio_exists(self)')],
                       ensures=['result == raw_of(self)', 'fio_exists(self)'],
                       assumed=True, note='the bytes of the file; FileNotFoundError iff it does not exist')}))
    reg.names['fio_exists'] = FnSpec('fio_exists', params=[('file_io', Obj('FIO17'))], ret=BOOL, pure=True, assumed=True,
                                     note='ghost: the file exists at the time of the call')
    reg.add_family(Family('Regex17', methods={'search': FnSpec('Pattern.search', params=[('s', STR)], ret=BOOL,
                                                               pure=True, assumed=True)}))
    reg.add_family(Family('KFIO17', attrs={'path': ANY, '_content': STR}))
    reg.add_family(Family('Mod17', methods={
        'is_compiled': FnSpec('ModuleValue.is_compiled', ret=BOOL, pure=True, assumed=True),
        'as_context': FnSpec('ModuleValue.as_context', ret=ANY, pure=True, assumed=True)}))
    reg.names['raw_of'] = FnSpec('raw_of', params=[('file_io', Obj('FIO17'))], ret=ANY, pure=True, assumed=True,
                                 note='ghost: the bytes currently stored in the file')
    reg.names['python_bytes_to_unicode'] = FnSpec(
        'python_bytes_to_unicode', params=[('source', ANY), ('encoding', STR), ('errors', STR)],
        defaults={'encoding': 'utf-8', 'errors': 'strict'}, ret=STR, pure=True, assumed=True,
        note='parso: decoding per PEP 263 / BOM')
    reg.names['KnownContentFileIO'] = FnSpec('KnownContentFileIO', params=[('path', ANY), ('content', STR)],
                                             ret=Obj('KFIO17'), pure=True, assumed=True)
    reg.names['load_module_from_path'] = FnSpec(
        'load_module_from_path', params=[('inference_state', ANY), ('file_io', Obj('KFIO17'))], ret=Obj('Mod17'),
        pure=True, assumed=True, note='parses the given content (C09/C12 contracts)')


def structural_names(repo):
    """Script._names: every name leaf once (chain of get_used_names values), sorted by position"""
    out = []
    try:
        t = ast.parse(open(os.path.join(repo, 'jedi/api/helpers.py'), encoding='utf-8').read())
        from pyvc.verify import find_function
        fn = find_function(t, 'get_module_names')
        src = ast.unparse(fn) if fn else ''
        ok = fn is not None and 'names = list(chain.from_iterable(module.get_used_names().values()))' in src \
            and 'return filter(def_ref_filter, names)' in src
        out.append({'id': 'names-source', 'kind': 'post', 'ok': ok,
                    'label': 'get_module_names starts from every used name of the module exactly once '
                             '(chain of get_used_names().values()) and applies only def_ref_filter (and the '
                             'module-scope filter when all_scopes is off)'})
        t2 = ast.parse(open(os.path.join(repo, 'jedi/api/__init__.py'), encoding='utf-8').read())
        fn2 = find_function(t2, 'Script._names')
        src2 = ast.unparse(fn2) if fn2 else ''
        ok2 = fn2 is not None and 'sorted(defs, key=lambda x: x.start_pos)' in src2 \
            and 'helpers.get_module_names(self._module_node, all_scopes=all_scopes, definitions=definitions, ' \
                'references=references)' in src2
        out.append({'id': 'names-sorted', 'kind': 'post', 'ok': ok2,
                    'label': 'Script._names maps each module name to one Name and sorts by position'})
    except (OSError, SyntaxError) as e:
        out.append({'id': 'names-source', 'kind': 'post', 'ok': None, 'label': 'cannot parse: %s' % e})
    return out


from contracts.common import structural_signature_key as _sigkey
def _source_bytes(repo):
    """reported columns and get_line_code() refer to the text as it is on disk (\\r\\n and \\r kept): shared with C07"""
    from contracts import c07
    return c07.structural_source_read_as_bytes(repo)


def _own_tree(repo):
    """the tree whose positions are reported and the code lines they are looked up in belong to the same text: a Script
    parses its own buffer without consulting parso's per-path cache (shared with C08)"""
    from contracts import c08
    return [r for r in c08.structural_state(repo) if r['id'] in ('script-parse-no-path-cache', 'parse-options-pass-through')]


STRUCTURAL = [structural_names, _sigkey, _source_bytes, _own_tree]
def _standin(repo, seed, tier):
    from pyvc.standin import run_standin
    return run_standin('C17', tier, seed, repo)


_standin.tiers = ('quick', 'thorough')
BOUNDED = [_standin]

NOT_DECIDED = ['parso\'s own token positions (assumed tree geometry, audited)',
               'names without tree position (ImportName/ModuleName report (1, 0)): F14 known-by-design, no contract',
               'is_definition() == "binds" (parso, assumed)']
TRUSTED = ['parso tree geometry axioms: ' + ' ; '.join(_GEOM)]
