"""C18 — get_context, parent() and full_name describe the lexical nesting."""
from pyvc.api import *
from pyvc.values import MNONE as MNONE_
from contracts import c03 as _c03

SPEC_IMPORTS = ['contracts.common', 'contracts.c03']
SPEC_FUNCTIONS = ['qualname_spec']

_PN = Obj('PNode')
_NAMES = Seq(STR)


def qualname_spec(parent_is_class, parent_is_module, parent_names, name):
    """Python's __qualname__ for a definition at class or module level: the qualified names of the enclosing
    classes followed by the name; None inside a function (there __qualname__ contains <locals>)"""
    if parent_is_class:
        if parent_names is None:
            return None
        return parent_names + [name]
    if parent_is_module:
        return [name]
    return None


_fq_func = Contract(
    id='C18.FunctionAndClassBase.get_qualified_names', prop='C18',
    clause='qualified names of a function/class: enclosing classes then the name (module level: just the name); '
           'None inside a function',
    file='jedi/inference/value/function.py', qualname='FunctionAndClassBase.get_qualified_names',
    params={'self': Obj('Val18')}, families=['Val18', 'Ctx18'], ret=Opt(_NAMES),
    ensures=['result == qualname_spec(self.parent_context.is_class(), self.parent_context.is_module(), '
             'self.parent_context.get_qualified_names(), self.py__name__())'],
)
_fq_method = Contract(
    id='C18.MethodValue.get_qualified_names', prop='C18',
    clause='a method is qualified by its class (not by the module its value hangs under)',
    file='jedi/inference/value/function.py', qualname='MethodValue.get_qualified_names',
    params={'self': Obj('Val18')}, families=['Val18', 'Ctx18'], ret=Opt(_NAMES),
    ensures=['result == qualname_spec(True, False, self.class_context.get_qualified_names(), self.py__name__())'],
)
_fq_name = Contract(
    id='C18.AbstractNameDefinition.get_qualified_names', prop='C18',
    clause='full qualified names = the module\'s dotted path followed by the qualified names',
    file='jedi/inference/names.py', qualname='AbstractNameDefinition.get_qualified_names',
    params={'self': Obj('Name18'), 'include_module_names': BOOL}, families=['Name18', 'Ctx18'], ret=Opt(_NAMES),
    ensures=['implies(not include_module_names or self._get_qualified_names() is None, '
             'result == self._get_qualified_names())',
             'implies(include_module_names and self._get_qualified_names() is not None '
             'and self.get_root_context().string_names is None, result is None)',
             'implies(include_module_names and self._get_qualified_names() is not None '
             'and self.get_root_context().string_names is not None, '
             'result == self.get_root_context().string_names + self._get_qualified_names())'],
)
_fq_tree = Contract(
    id='C18.AbstractTreeName._get_qualified_names', prop='C18',
    clause='a tree name is qualified by the names of its context followed by its own spelling',
    file='jedi/inference/names.py', qualname='AbstractTreeName._get_qualified_names',
    params={'self': Obj('Name18')}, families=['Name18', 'Ctx18', 'PNode'], ret=Opt(_NAMES),
    requires=['self.tree_name is not None and self.tree_name.is_leaf', 'self.parent_context is not None'],
    ensures=['implies(self.parent_context.get_qualified_names() is None, result is None)',
             'implies(self.parent_context.get_qualified_names() is not None, '
             'result == self.parent_context.get_qualified_names() + [self.tree_name.value])'],
)
_full_name = Contract(
    id='C18.BaseName.full_name', prop='C18',
    clause='full_name is the dotted join of module path and qualified names (first component mapped for '
           'platform modules), None for non-value names',
    file='jedi/api/classes.py', qualname='BaseName.full_name',
    params={'self': Obj('BN18')}, families=['BN18', 'Name18', 'Ctx18'], ret=Opt(STR),
    # a value name that has qualified names at all has at least its module's name
    requires=['implies(self._name.get_qualified_names(True) is not None, '
              'len(self._name.get_qualified_names(True)) > 0)'],
    ensures=['implies(not self._name.is_value_name or self._name.get_qualified_names(True) is None, result is None)',
             'implies(self._name.is_value_name and self._name.get_qualified_names(True) is not None '
             'and len(self._name.get_qualified_names(True)) > 0 '
             'and self._name.get_qualified_names(True)[0] not in self._mapping, '
             'result == ".".join(self._name.get_qualified_names(True)))'],
)


def _parent_contract(k):
    c = Contract(
        id='C18.BaseName.parent[%d]' % k, prop='C18',
        clause='parent() of a function/class/param is the Name of the lexically enclosing funcdef/classdef/module '
               '(search_ancestor), comprehension contexts skipped (%d nameless contexts)' % (k - 1),
        file='jedi/api/classes.py', qualname='BaseName.parent',
        params={'self': Obj('BN18')}, ghost={'CH': Seq(Obj('Ctx18'))},
        families=['BN18', 'Name18', 'Ctx18', 'PNode', 'ModCtx18', 'Val18'], ret=Opt(Obj('BN18')), tier='SB',
        bounds={'nameless contexts': k - 1},
        requires=[
            'implies(self.type in ("function", "class", "param") and self._name.tree_name is not None, '
            'self._name.tree_name.get_definition() is not None and CH[0] == self._get_module_context().create_value('
            'self._name.tree_name.get_definition().search_ancestor("funcdef", "classdef", "file_input")).as_context())',
            'implies(not (self.type in ("function", "class", "param") and self._name.tree_name is not None), '
            'self._name.parent_context == CH[0])',
            'all(CH[i].parent_context == CH[i + 1] for i in range(0, len(CH) - 1))',
            'all(CH[i].name is None for i in range(0, len(CH) - 1))',
            'CH[len(CH) - 1].name is not None',
        ],
        unroll={0: k},
        ensures=['implies(not self._name.is_value_name, result is None)',
                 'implies(self._name.is_value_name, result == Name(self._inference_state, CH[len(CH) - 1].name))'],
    )
    c.shape = {'CH': k}
    return c


PARENT = [_parent_contract(k) for k in (1, 2, 3)]

FAMILIES = [
    Family('Ctx18', attrs={'parent_context': Opt(Obj('Ctx18')), 'name': Opt(Obj('Name18')),
                           'string_names': Opt(_NAMES)},
           methods={'is_class': FnSpec('Context.is_class', ret=BOOL, pure=True),
                    'is_module': FnSpec('Context.is_module', ret=BOOL, pure=True),
                    'get_qualified_names': FnSpec('Context.get_qualified_names', ret=Opt(_NAMES), pure=True)}),
    Family('Val18', attrs={'parent_context': Obj('Ctx18'), 'class_context': Obj('Ctx18')},
           methods={'py__name__': FnSpec('Value.py__name__', ret=STR, pure=True),
                    'as_context': FnSpec('Value.as_context', ret=Obj('Ctx18'), pure=True)}),
    Family('Name18', attrs={'parent_context': Opt(Obj('Ctx18')), 'tree_name': Opt(_PN), 'is_value_name': BOOL},
           methods={'_get_qualified_names': FnSpec('Name._get_qualified_names', ret=Opt(_NAMES), pure=True),
                    'get_qualified_names': FnSpec('Name.get_qualified_names', params=[('include_module_names', BOOL)],
                                                  defaults={'include_module_names': False}, ret=Opt(_NAMES),
                                                  pure=True),
                    'get_root_context': FnSpec('Name.get_root_context', ret=Obj('Ctx18'), pure=True)}),
    Family('BN18', attrs={'_name': Obj('Name18'), 'type': STR, '_mapping': DictT(STR, STR),
                          '_inference_state': ANY},
           methods={'_get_module_context': FnSpec('BaseName._get_module_context', ret=Obj('ModCtx18'), pure=True)}),
    Family('ModCtx18', methods={'create_value': FnSpec('ModuleContext.create_value', params=[('node', _PN)],
                                                       ret=Obj('Val18'), pure=True)}),
]

# ------------------------------------------------------------------ self.x definitions: context of the place of assignment
def _anc(k):
    e = 'node'
    for _ in range(k):
        e = e + '.search_ancestor("funcdef", "classdef")'
    return e


def _replay_instance_ctx(inp):
    """instance attributes assigned in a method, in a closure inside a method and in a method of a nested class: the
    parent() chain of the definition must name every enclosing function and class"""
    from pyvc.replay import run_real
    import jedi
    code = ('class Panel:\n'
            '    def __init__(self):\n'
            '        self.direct = 1\n'
            '    def bind(self):\n'
            '        def on_event():\n'
            '            self.last_event = 2\n'
            '            def later():\n'
            '                self.done = 3\n'
            '        return on_event\n'
            'p = Panel()\n'
            'p.%s\n' % inp['attr'])

    def run():
        s = jedi.Script(code)
        d = s.goto(11, 3)[0]
        chain = []
        while d is not None:
            chain.append(d.name)
            d = d.parent()
        return chain
    out = run_real(run)
    return {'EXPECTED': inp['chain']}, out


def _instance_ctx_contract(d):
    c = Contract(
        id='C18.create_instance_context[%d]' % d, prop='C18',
        clause='parent() of an instance attribute definition (self.x = ...) starts at the function the assignment '
               'textually sits in: the context is that of the enclosing METHOD, refined to the innermost scope around the '
               'assignment (closures and nested classes inside the method are not skipped) - %d scope(s) between the '
               'assignment and the class body' % d,
        file='jedi/inference/value/instance.py', qualname='_BaseTreeInstance.create_instance_context',
        params={'self': Obj('Inst18'), 'class_context': Obj('ICtx18'), 'node': Obj('INode')},
        families=['Inst18', 'ICtx18', 'INode', 'FV18', 'BM18'], ret=Obj('ICtx18'), tier='SB',
        bounds={'scopes between the assignment and the class': d}, unroll={0: d + 1},
        requires=['all(class_context.tree_node is not a for a in [%s])' % ', '.join(_anc(k) for k in range(1, d)) if d > 1
                  else 'True',
                  'class_context.tree_node is %s' % _anc(d), '%s.name.is_leaf' % _anc(d - 1)],
        ensures=['result == BoundMethod(self, class_context, FunctionValue.from_context(class_context, %s))'
                 '.as_context(method_arguments(self, %s.name.value)).create_context(node)' % (_anc(d - 1), _anc(d - 1))],
        witness={}, replay=_replay_instance_ctx, concrete_only=True,
        witness_library=[{'attr': 'direct', 'chain': ['direct', '__init__', 'Panel', '__main__']},
                         {'attr': 'last_event', 'chain': ['last_event', 'on_event', 'bind', 'Panel', '__main__']},
                         {'attr': 'done', 'chain': ['done', 'later', 'on_event', 'bind', 'Panel', '__main__']}],
        concrete_ensures=['result == EXPECTED'],
    )
    return c


INSTANCE_CTX = [_instance_ctx_contract(d) for d in (1, 2, 3)]

# ------------------------------------------------------------------ the value (and with it the context) of a function node
def _replay_from_context(inp):
    """get_context / parent() inside the implementation that follows @overload declarations of the same name"""
    from pyvc.replay import run_real
    import jedi
    code = ('from typing import overload\n'
            '@overload\ndef scale(x: int) -> int: ...\n'
            '@overload\ndef scale(x: str) -> str: ...\n'
            'def scale(x):\n    found = x\n    return found\n'
            'class Box:\n    @overload\n    def get(self, k: int) -> int: ...\n'
            '    def get(self, k):\n        inner = k\n        return inner\n')

    def run():
        s = jedi.Script(code)
        a = s.get_context(7, 6)
        b = s.get_context(13, 10)
        return [(a.name, a.line), (b.name, b.line), (b.parent().name, b.parent().line)]
    out = run_real(run)
    return {}, out


def _from_context_contract(depth):
    skip = 'context' + '.parent_context' * depth
    c = Contract(
        id='C18.FunctionValue.from_context[%d]' % depth, prop='C18',
        clause='the value - and with it the context get_context()/parent() report - of a function node is built for THAT '
               'node, also when same-named @overload declarations precede it (they only ride along); its parent context is '
               'the nearest enclosing context that is neither a class nor an instance (%d skipped)' % depth,
        file='jedi/inference/value/function.py', qualname='FunctionValue.from_context',
        params={'cls': FnSpec('cls', params=[('inference_state', ANY), ('parent_context', Obj('FCtx')), ('tree_node', Obj('INode'))],
                              ret=Obj('FV18'), pure=True, assumed=True, note='FunctionValue(...) constructor'),
                'context': Obj('FCtx'), 'tree_node': Obj('INode')},
        families=['FCtx', 'INode', 'FV18'], ret=Obj('FV18'), tier='SB',
        bounds={'class / instance contexts skipped': depth}, unroll={0: depth + 1},
        requires=['all(c.is_class() or c.is_instance() for c in [%s])' % ', '.join('context' + '.parent_context' * k for k in range(depth))
                  if depth else 'True',
                  'not (%s.is_class() or %s.is_instance())' % (skip, skip)],
        ensures=[
            'implies(len(_find_overload_functions(context, tree_node)) == 0 and context.is_class(), '
            'result == MethodValue(context.inference_state, context, %s, tree_node))' % skip,
            'implies(len(_find_overload_functions(context, tree_node)) == 0 and not context.is_class(), '
            'result == cls(context.inference_state, %s, tree_node))' % skip,
            'implies(len(_find_overload_functions(context, tree_node)) > 0 and context.is_class(), '
            'wrapped_function(result) == MethodValue(context.inference_state, context, %s, tree_node))' % skip,
            'implies(len(_find_overload_functions(context, tree_node)) > 0 and not context.is_class(), '
            'wrapped_function(result) == cls(context.inference_state, %s, tree_node))' % skip,
        ],
        inline=['create'],
        witness={}, replay=_replay_from_context, concrete_only=True, witness_library=[{}],
        concrete_ensures=['result == [("scale", 6), ("get", 12), ("Box", 9)]'],
    )
    return c


FROM_CONTEXT = [_from_context_contract(d) for d in (0, 1)]

CONTRACTS = FROM_CONTEXT + INSTANCE_CTX + [_fq_func, _fq_method, _fq_name, _fq_tree, _full_name] + PARENT + _c03.PARENT_SCOPE + [_c03._is_scope]


def _method_arguments(V, st, self_val, args, kwargs, node):
    """spec helper: the arguments the bound method's context is created with: the instance's own for __init__"""
    import z3
    from pyvc.values import SV
    from pyvc.types import sort_of
    inst, name = args
    t = Opt(ANY)
    srt = sort_of(t)
    a = V.get_attr(st, inst, '_arguments', node)
    some = getattr(srt, 'some_' + srt.name())(a.z) if False else None
    from pyvc.values import pack
    return SV(t, z3.If(name.z == z3.StringVal('__init__'), pack(a, t), pack(MNONE_, t)))


def register(reg):
    _IN = Obj('INode')
    reg.add_family(Family('INode', attrs={'name': _IN, 'value': STR, 'is_leaf': BOOL},
                          attr_requires={'value': 'o.is_leaf'},
                          methods={'search_ancestor': FnSpec('Node.search_ancestor', params=[('a', STR), ('b', STR)],
                                                             ret=_IN, pure=True, assumed=True,
                                                             note='nearest enclosing def/class (the class of the '
                                                                  'instance is among them: precondition)')}))
    reg.add_family(Family('Inst18', attrs={'_arguments': ANY}))
    reg.add_family(Family('FV18'))
    reg.add_family(Family('ICtx18', attrs={'tree_node': _IN},
                          methods={'create_context': FnSpec('Context.create_context', params=[('node', _IN)],
                                                            ret=Obj('ICtx18'), pure=True, assumed=False,
                                                            note='C01/C18: leaf -> innermost context')}))
    reg.add_family(Family('BM18', methods={'as_context': FnSpec('BoundMethod.as_context', params=[('arguments', Opt(ANY))],
                                                                defaults={'arguments': None}, ret=Obj('ICtx18'),
                                                                pure=True, assumed=True)}))
    from pyvc.values import MNS, MFn
    _fc = FnSpec('FunctionValue.from_context', params=[('context', Obj('ICtx18')), ('tree_node', _IN)], ret=Obj('FV18'),
                 pure=True, assumed=True)
    reg.names['FunctionValue'] = MNS('FunctionValue', {'from_context': MFn('spec', 'FunctionValue.from_context', spec=_fc)})
    reg.names['BoundMethod'] = FnSpec('BoundMethod', params=[('instance', Obj('Inst18')), ('class_context', Obj('ICtx18')),
                                                             ('function', Obj('FV18'))], ret=Obj('BM18'), pure=True,
                                      assumed=True)
    reg.names['method_arguments'] = FnSpec('method_arguments', impl=_method_arguments)
    reg.add_family(Family('FCtx', attrs={'parent_context': Obj('FCtx'), 'inference_state': ANY}, methods={
        'is_class': FnSpec('Context.is_class', ret=BOOL, pure=True), 'is_instance': FnSpec('Context.is_instance', ret=BOOL, pure=True)}))
    reg.names['MethodValue'] = FnSpec('MethodValue', params=[('inference_state', ANY), ('class_context', Obj('FCtx')),
                                                            ('parent_context', Obj('FCtx')), ('tree_node', _IN)],
                                      ret=Obj('FV18'), pure=True, assumed=True)
    reg.names['_find_overload_functions'] = FnSpec('_find_overload_functions', params=[('context', Obj('FCtx')), ('tree_node', _IN)],
                                                   ret=Seq(_IN), pure=True, assumed=True,
                                                   note='the preceding same-named @overload declarations (generator)')
    reg.names['wrapped_function'] = FnSpec('wrapped_function', params=[('v', Obj('FV18'))], ret=Obj('FV18'), pure=True, assumed=True,
                                           note='ghost: the function value an OverloadedFunctionValue wraps')
    reg.names['OverloadedFunctionValue'] = FnSpec('OverloadedFunctionValue', params=[('function', Obj('FV18')), ('overloaded_functions', Seq(Obj('FV18')))],
                                                  ret=Obj('FV18'), pure=True, assumed=True,
                                                  ensures=['wrapped_function(result) == function'],
                                                  note='ValueWrapper around `function`')
    pn = reg.families['PNode']
    pn.methods['search_ancestor'] = FnSpec('PNode.search_ancestor', params=[('a', STR), ('b', STR), ('c', STR)],
                                           ret=_PN, pure=True, assumed=True,
                                           note='nearest ancestor of one of the given types (file_input always exists)')
    reg.names['Name'] = FnSpec('classes.Name', params=[('inference_state', ANY), ('definition', Obj('Name18'))],
                               ret=Obj('BN18'), pure=True, assumed=False)


def structural_get_context(repo):
    import ast
    import os
    rel = 'jedi/api/__init__.py'
    try:
        tree = ast.parse(open(os.path.join(repo, rel), encoding='utf-8').read())
    except (OSError, SyntaxError) as e:
        return [{'id': 'get_context', 'kind': 'post', 'ok': None, 'label': 'cannot parse: %s' % e}]
    from pyvc.verify import find_function
    fn = find_function(tree, 'Script.get_context')
    src = ast.unparse(fn) if fn else ''
    ok = fn is not None and "leaf.search_ancestor('funcdef', 'classdef')" in src \
        and 'n is not None and n.start_pos < pos <= n.children[-1].start_pos' in src \
        and 'context = module_context.create_value(n).as_context()' in src \
        and 'context = module_context.create_context(leaf)' in src \
        and 'while context.name is None:' in src and 'definition = definition.parent()' in src \
        and 'scope.start_pos[1] < column' in src
    return [{'id': 'get_context-shape', 'kind': 'post', 'ok': ok,
             'label': 'Script.get_context = context of the leaf under the cursor (create_context, i.e. the parent-scope '
                      'walk proved above), header positions of a def/class resolved to that definition, then climbing '
                      'parent() while the definition is indented at or right of the cursor column'}]


def structural_module_name(repo):
    """full_name of everything defined in the analysed file starts with the dotted name of that file, which is
    derived from the search path WITHOUT the buffer's ancestor directories (those entries exist to resolve imports of
    siblings; as roots of the dotted name they would swallow namespace folders: c18ns.tools.helpers -> helpers)"""
    import ast
    import os
    from pyvc.verify import find_function
    rel = 'jedi/api/__init__.py'
    try:
        t = ast.parse(open(os.path.join(repo, rel), encoding='utf-8').read())
    except (OSError, SyntaxError) as e:
        return [{'id': 'module-name-roots', 'definite': True, 'kind': 'call-pre', 'ok': None, 'label': 'cannot parse %s: %s' % (rel, e)}]
    fn = find_function(t, 'Script._get_module')
    ok = None
    detail = ''
    if fn is not None:
        calls = [n for n in ast.walk(fn) if isinstance(n, ast.Call) and ast.unparse(n.func) == 'transform_path_to_dotted']
        if len(calls) == 1 and calls[0].args:
            a0 = ' '.join(ast.unparse(calls[0].args[0]).split())
            detail = a0
            if a0 == 'self._inference_state.get_sys_path(add_parent_paths=False)':
                ok = True
            elif a0.startswith('self._inference_state.get_sys_path('):
                ok = False
    return [{'id': 'module-name-roots', 'definite': True, 'kind': 'call-pre', 'ok': ok, 'detail': detail,
             'label': 'Script._get_module derives the dotted name of the buffer from get_sys_path(add_parent_paths=False): '
                      'plain folders between the project root and the file stay part of the dotted name'}]


STRUCTURAL = [structural_get_context, structural_module_name]
def _standin(repo, seed, tier):
    from pyvc.standin import run_standin
    return run_standin('C18', tier, seed, repo)


_standin.tiers = ('quick', 'thorough')
BOUNDED = [_standin]

NOT_DECIDED = ['positions in a definition header (statement and upstream tests disagree; left unspecified)',
               'create_context / create_value composition (tree depth); run-time __qualname__ of decorated or re-bound objects',
               'import-name special cases of AbstractTreeName.get_qualified_names']
TRUSTED = ['Name objects/contexts abstract (pure methods)', 'parso search_ancestor']
