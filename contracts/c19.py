"""C19 — Project search finds every definition and honours ignore rules."""
import ast
import os
from pyvc.api import *
from pyvc.spec import callee_of

SPEC_IMPORTS = ['contracts.common', 'contracts.c04', 'contracts.c17']
SPEC_FUNCTIONS = ['applies_below', 'search_matches']


def applies_below(folder, curr):
    """a relative .gitignore entry from `folder` applies in `curr` iff curr is that folder or lies below it
    (path components: /p/a does not contain /p/ab)"""
    return curr == folder or curr.startswith(folder + '/') or (folder.endswith('/') and curr.startswith(folder))


def search_matches(string_name, query, complete, fuzzy):
    """a name is a hit iff its lower-cased spelling equals the lower-cased query (search) or
    matches it as a prefix / subsequence (complete_search)"""
    if complete:
        return match_spec(string_name.lower(), query.lower(), fuzzy)
    return string_name.lower() == query.lower()


def _replay_expand(inp):
    from pyvc.replay import run_real
    from jedi.inference.references import expand_relative_ignore_paths

    class F:
        path = inp['curr']
    rel = [tuple(x) for x in inp['relative_paths']]
    out = run_real(lambda: expand_relative_ignore_paths(F(), set(rel)))
    return {'folder_io': F(), 'relative_paths': rel, 'y': inp.get('y', ''), 'os': os}, out


_expand = Contract(
    id='C19.expand_relative_ignore_paths', prop='C19',
    clause='a relative .gitignore entry prunes <dir>/<entry> exactly in the directory of its .gitignore and '
           'below it (never in a sibling sharing a name prefix), so nothing outside ignored places is lost',
    file='jedi/inference/references.py', qualname='expand_relative_ignore_paths',
    params={'folder_io': Obj('FolderIO'), 'relative_paths': Seq(Tup(STR, STR))},
    ghost={'y': STR}, families=['FolderIO'], ret=SetT(STR),
    requires=['all(len(p[0]) > 0 for p in relative_paths)'],
    ensures=[
        'all(implies(applies_below(p[0], folder_io.path), os.path.join(folder_io.path, p[1]) in result) '
        'for p in relative_paths)',
        # nothing else: any member comes from an entry that applies here  (y is universally quantified)
        'implies(y in result, any(applies_below(p[0], folder_io.path) and y == os.path.join(folder_io.path, p[1]) '
        'for p in relative_paths))',
    ],
    concrete_ensures=['result == {os.path.join(folder_io.path, p[1]) for p in relative_paths '
                      'if folder_io.path == p[0] or folder_io.path.startswith(p[0].rstrip("/") + "/")}'],
    witness={'curr': 'folder_io.path', 'relative_paths': 'relative_paths', 'y': 'y'},
    replay=_replay_expand,
    witness_library=[{'curr': '/p/ab', 'relative_paths': [('/p/a', 'build')]},
                     {'curr': '/p/a/sub', 'relative_paths': [('/p/a', 'build')]},
                     {'curr': '/p/a', 'relative_paths': [('/p/a', 'build'), ('/p', 'dist')]}],
    notes='the set of (folder, entry) pairs is iterated as some sequence of its elements',
)


def _replay_split(inp):
    from pyvc.replay import run_real
    from jedi.api.helpers import split_search_string
    out = run_real(lambda: split_search_string(inp['name']))
    return {'name': inp['name']}, out


_split = Contract(
    id='C19.split_search_string', prop='C19',
    clause='a search string is "<type> <dotted.name>": the part after the last blank is split at dots and joins '
           'back to it; "def" means function',
    file='jedi/api/helpers.py', qualname='split_search_string',
    params={'name': STR}, ret=Tup(STR, Seq(STR)),
    ensures=[
        'implies(" " not in name, result[0] == "" and ".".join(result[1]) == name)',
        'implies(" " in name, name.endswith(" " + ".".join(result[1])) and " " not in ".".join(result[1]))',
        'len(result[1]) >= 1', 'result[0] != "def"',
    ],
    witness={'name': 'name'}, replay=_replay_split,
    witness_library=[{'name': 'def foo.bar'}, {'name': 'class A'}, {'name': 'x'}, {'name': 'a b c.d'}],
)

def _replay_skip(inp):
    from pyvc.replay import run_real
    from jedi.api.project import _try_to_skip_duplicates

    class N:
        def __init__(self, tree_name):
            self.tree_name = tree_name

    class D:
        def __init__(self, spec):
            tn, typ, mp = spec
            self._name = N(tn)
            self.type = typ
            self.module_path = mp
            self.spec = tuple(spec)

        def __repr__(self):
            return 'D%r' % (self.spec,)
    defs = [D(x) for x in inp['defs']]
    out = run_real(lambda: list(_try_to_skip_duplicates(lambda: iter(defs))()))
    return {'search_results': lambda: defs}, out


_skip_dups = Contract(
    id='C19._try_to_skip_duplicates.wrapper', prop='C19',
    clause='duplicate filtering removes only repeats: a hit is dropped only if the same tree name or the same '
           'module path was already reported',
    file='jedi/api/project.py', qualname='_try_to_skip_duplicates.wrapper',
    params={'args': ANY, 'kwargs': ANY},
    free={'func': FnSpec('func', impl=lambda V, st, sv, a, k, n: _call_search(V, st, n), assumed=False)},
    families=['DefAPI', 'NameW', 'PNode'], yields=Obj('DefAPI'),
    locals={'found_tree_nodes': Seq(Opt(Obj('PNode'))), 'found_modules': Seq(PATH)},
    invariants={0: [
        # every definition seen so far was yielded, or repeats something recorded
        'all(d in YIELDED or (d._name.tree_name is not None and d._name.tree_name in found_tree_nodes) or '
        '(d.type == "module" and d.module_path is not None and d.module_path in found_modules) for d in DONE)',
        'all(y in SEQ for y in YIELDED)',
    ]},
    ensures=['all(y in search_results() for y in result)',
             'all(d in result or (d._name.tree_name is not None) or (d.type == "module" and d.module_path is not None) '
             'for d in search_results())'],
    notes='func(*args, **kwargs) is the wrapped search generator, abstract: search_results()',
    replay=_replay_skip,
    witness={},
    witness_library=[
        {'defs': [(None, 'function', None), (None, 'class', None), ('t1', 'function', None), ('t1', 'function', None)]},
        {'defs': [(None, 'module', '/a.py'), (None, 'module', '/a.py'), (None, 'module', '/b.py'), (None, 'module', None),
                  (None, 'module', None)]},
    ],
)


def _call_search(V, st, node):
    from pyvc.calls import call_spec
    return call_spec(V, _search_results, None, [], {}, st, node)


_search_results = FnSpec('search_results', params=[], ret=Seq(Obj('DefAPI')), pure=True, assumed=False,
                         note='the sequence produced by the wrapped search function')

# ------------------------------------------------------------------ FolderIO.walk: in-place pruning handed on to os.walk
def _region_walk_prune(func):
    """the statements of FolderIO.walk's loop body AFTER the yield: they copy what the consumer removed from the yielded
    folder list into os.walk's own `dirs` list"""
    import ast
    for s_ in ast.walk(func):
        if isinstance(s_, ast.For) and 'os.walk' in ast.unparse(s_.iter):
            for k, b in enumerate(s_.body):
                if isinstance(b, ast.Expr) and isinstance(b.value, ast.Yield):
                    return s_.body[k + 1:]
    return None


def _replay_walk(inp):
    """a real directory with sub-folders; the consumer removes the folders of the mask from the yielded list: which
    folders does the walk still descend into?"""
    from pyvc.replay import run_real
    import tempfile
    import shutil
    import os as _os
    from jedi.file_io import FolderIO
    d = tempfile.mkdtemp(prefix='c19walk_', dir='/var/tmp')
    try:
        names = ['d%d' % k for k in range(inp['n'])]
        for nm in names:
            _os.makedirs(_os.path.join(d, nm, 'inner'))
        # a second level that is pruned too (state must not leak from one directory to the next)
        drop = set(inp['drop'])

        def run():
            visited = []
            for root, folders, files in FolderIO(d).walk():
                visited.append(_os.path.relpath(root.path, d))
                folders[:] = [f for f in folders if _os.path.basename(f.path) not in drop]
            return visited
        out = run_real(run)
        # oracle: os.walk itself, pruned the documented way - same folders in the same (directory listing) order
        exp = []
        for root, dirs, files in _os.walk(d):
            exp.append(_os.path.relpath(root, d))
            dirs[:] = [x for x in dirs if x not in drop]
        return {'EXPECTED': exp}, out
    finally:
        shutil.rmtree(d, ignore_errors=True)


def _walk_contract(n, mask):
    kept = [k for k in range(n) if mask[k]]
    c = Contract(
        id='C19.FolderIO.walk.prune[%d:%s]' % (n, ''.join('1' if m else '0' for m in mask)), prop='C19',
        clause='directory walk with in-place pruning: after the consumer removed folders from the yielded list, exactly '
               'the entries of os.walk\'s own list that belong to removed folders are deleted (the others stay, in '
               'order) - so ignored folders are never descended into and no other folder is lost '
               '(%d sub-folders, kept: %s)' % (n, kept),
        file='jedi/file_io.py', qualname='FolderIO.walk', region=_region_walk_prune,
        params={'self': Obj('FolderIO')},
        free={'original_folder_ios': Seq(Obj('FolderIO')), 'modified_folder_ios': Seq(Obj('FolderIO')),
              'dirs': Seq(STR), 'root': STR, 'files': Seq(STR), 'root_folder_io': Obj('FolderIO')},
        families=['FolderIO'], tier='SB', bounds={'sub-folders of one directory': n}, merge=False,
        requires=(['all(original_folder_ios[i] is not original_folder_ios[j] for i in range(%d) for j in range(i))' % n]
                  if n > 1 else []) +
                 ['modified_folder_ios[%d] is original_folder_ios[%d]' % (a, b) for a, b in enumerate(kept)],
        ensures=['NEW_dirs == [%s]' % ', '.join('dirs[%d]' % k for k in kept)],
        witness={}, replay=_replay_walk, concrete_only=True, concrete_ensures=['result == EXPECTED'],
        witness_library=[{'n': 3, 'drop': dr} for dr in ([], ['d0'], ['d1'], ['d2'], ['d0', 'd2'], ['d0', 'd1', 'd2'],
                                                         ['inner'], ['d1', 'inner'])],
    )
    c.shape = {'original_folder_ios': n, 'modified_folder_ios': len(kept), 'dirs': n}
    return c


import itertools as _it
WALK = [_walk_contract(n, mask) for n in range(0, 4) for mask in _it.product((True, False), repeat=n)]

# ------------------------------------------------------------------ file scan with limits
def _replay_scan(inp):
    """the real search_in_file_ios over n files of which some match: how many are opened, which are yielded"""
    from pyvc.replay import run_real
    from jedi.inference import references as ref
    opened = []
    real = ref._check_fs

    def fake_check(inference_state, file_io, regex):
        opened.append(file_io)
        return ('module', file_io) if file_io in inp['matching'] else None
    ref._check_fs = fake_check
    try:
        out = run_real(lambda: list(ref.search_in_file_ios(None, iter(range(inp['n'])), 'name',
                                                           limit_reduction=inp['reduction'])))
    finally:
        ref._check_fs = real
    parse_limit = ref._PARSED_FILE_LIMIT / inp['reduction']
    open_limit = ref._OPENED_FILE_LIMIT / inp['reduction']
    exp, n_open = [], 0
    for f in range(inp['n']):
        n_open += 1
        if f in inp['matching']:
            exp.append(('module', f))
            if len(exp) >= parse_limit:
                break
        if n_open >= open_limit:
            break
    return {'EXPECTED': exp, 'OPENED': list(opened), 'EXPECTED_OPENED': list(range(n_open))}, out


_scan = Contract(
    id='C19.search_in_file_ios', prop='C19',
    clause='the file scan reports, in scan order, exactly the files that pass the text pre-filter and load as python '
           'modules - every one of them until a limit is hit, and nothing else',
    file='jedi/inference/references.py', qualname='search_in_file_ios',
    params={'inference_state': ANY, 'file_io_iterator': Seq(ANY), 'name': STR, 'limit_reduction': INT, 'complete': BOOL},
    families=[], yields=ANY, locals={'file_io_count': INT, 'parsed_file_count': INT}, drop_calls=['dbg'],
    requires=['limit_reduction >= 1'],
    yield_each_local=['c == the(_check_fs(inference_state, file_io, regex))',
                      '_check_fs(inference_state, file_io, regex) is not None'],
    invariants={0: [
        'file_io_count == len(DONE)', 'parsed_file_count == len(YIELDED)', 'parsed_file_count <= file_io_count',
        # completeness up to here: every scanned file that passes is among the yielded ones
        'all(implies(_check_fs(inference_state, f, regex) is not None, '
        'the(_check_fs(inference_state, f, regex)) in YIELDED) for f in DONE)',
    ]},
    ensures=['all(implies(_check_fs(inference_state, f, re.compile("\\\\b" + re.escape(name) + ("" if complete else "\\\\b"))) is not None, '
             'the(_check_fs(inference_state, f, re.compile("\\\\b" + re.escape(name) + ("" if complete else "\\\\b")))) in result) for f in file_io_iterator) or '
             'len(result) * limit_reduction >= 30 or len(file_io_iterator) * limit_reduction >= 2000'],
    witness={}, replay=_replay_scan, concrete_only=True,
    concrete_ensures=['result == EXPECTED', 'OPENED == EXPECTED_OPENED'],
    witness_library=[{'n': 50, 'matching': list(range(0, 50, 3)), 'reduction': 1},
                     {'n': 50, 'matching': list(range(50)), 'reduction': 1},
                     {'n': 50, 'matching': list(range(50)), 'reduction': 10},
                     {'n': 2100, 'matching': [5, 2050], 'reduction': 1},
                     {'n': 300, 'matching': [250], 'reduction': 10}],
    notes='the limits (30 parsed / 2000 opened files, divided by limit_reduction) are jedi\'s documented give-up; the '
          'pre-filter + load (_check_fs, under contract for C17) is an abstract pure callee',
)

_search_in_module_last = None

FAMILIES = [
    Family('FolderIO', attrs={'path': STR}),
    Family('DefAPI', attrs={'_name': Obj('NameW'), 'type': STR, 'module_path': Opt(PATH)}),
]

CONTRACTS = [_expand, _split, _skip_dups, _scan] + WALK


def register(reg):
    reg.names['search_results'] = _search_results
    from pyvc.values import MNS as _NS, MFn as _MF
    _rx = FnSpec('re.compile', params=[('pattern', STR)], ret=ANY, pure=True, assumed=True)
    _esc = FnSpec('re.escape', params=[('s', STR)], ret=STR, pure=True, assumed=True)
    if isinstance(reg.names.get('re'), _NS):
        reg.names['re'].members.update({'compile': _MF('spec', 're.compile', spec=_rx),
                                        'escape': _MF('spec', 're.escape', spec=_esc)})
    else:
        reg.names['re'] = _NS('re', {'compile': _MF('spec', 're.compile', spec=_rx),
                                     'escape': _MF('spec', 're.escape', spec=_esc)})
    reg.names['_check_fs'] = FnSpec('_check_fs', params=[('inference_state', ANY), ('file_io', ANY), ('regex', ANY)],
                                    ret=Opt(ANY), pure=True, assumed=False, note='C17._check_fs')


IGNORED_BY_PROPERTY = ['venv', '.venv', '.tox', '.mypy_cache', '__pycache__']


def structural_ignore(repo):
    out = []
    rel = 'jedi/inference/references.py'
    try:
        src = open(os.path.join(repo, rel), encoding='utf-8').read()
        tree = ast.parse(src)
    except (OSError, SyntaxError) as e:
        return [{'id': 'ignore-folders', 'definite': True, 'kind': 'post', 'ok': None, 'label': 'cannot parse %s: %s' % (rel, e)}]
    val = None
    for s in tree.body:
        if isinstance(s, ast.Assign) and isinstance(s.targets[0], ast.Name) and s.targets[0].id == '_IGNORE_FOLDERS':
            try:
                val = ast.literal_eval(s.value)
            except Exception:
                val = None
    ok = val is not None and all(n in val for n in IGNORED_BY_PROPERTY)
    out.append({'id': 'ignore-folders', 'definite': True, 'kind': 'post', 'ok': ok,
                'label': 'the ignored folder names contain venv, .venv, .tox, .mypy_cache, __pycache__',
                'detail': repr(val)})
    from pyvc.verify import find_function
    fn = find_function(tree, 'recurse_find_python_folders_and_files')
    fsrc = ast.unparse(fn) if fn else ''
    # the pruning filter: a folder survives iff it is in none of the three ignore sets; survivors are assigned
    # in place (folder_ios[:] = ...) so that walk() does not descend into pruned folders
    need = ["folder_ios[:] = [folder_io for folder_io in folder_ios if folder_io.path not in except_paths and "
            "folder_io.path not in except_paths_relative_expanded and (folder_io.get_base_name() not in "
            "_IGNORE_FOLDERS)]"]
    ok2 = fn is not None and all(n in fsrc for n in need)
    out.append({'id': 'prune-filter', 'kind': 'post', 'ok': ok2,
                'label': 'recurse_find_python_folders_and_files prunes in place exactly the folders in the absolute '
                         'ignore set, the expanded relative set or with an ignored base name',
                'detail': ''})
    ok3 = fn is not None and "if path.suffix in ('.py', '.pyi'):" in fsrc and 'if path not in except_paths:' in fsrc \
        and 'yield (None, file_io)' in fsrc
    out.append({'id': 'file-filter', 'kind': 'post', 'ok': ok3,
                'label': 'every .py/.pyi file not explicitly excepted is yielded'})
    fn2 = find_function(tree, 'search_in_file_ios')
    s2 = ast.unparse(fn2) if fn2 else ''
    ok4 = fn2 is not None and 'parse_limit = _PARSED_FILE_LIMIT / limit_reduction' in s2 \
        and 'open_limit = _OPENED_FILE_LIMIT / limit_reduction' in s2 \
        and 'if parsed_file_count >= parse_limit:' in s2 and 'if file_io_count >= open_limit:' in s2
    out.append({'id': 'limits', 'kind': 'post', 'ok': ok4,
                'label': 'search stops only at the documented opened/parsed file limits'})
    return out


_SEARCH_MODULES = ('jedi/inference/references.py', 'jedi/file_io.py', 'jedi/api/project.py')


def structural_search_stateless(repo):
    """every search walks the directory and reads each .gitignore itself: the modules on the way from
    Project.search to the file list hold no process-global mutable store (a memo of ignore rules or of a file list
    would make a later search honour the rules / the files of an earlier one)"""
    from pyvc import inventory as inv
    from contracts import c08 as _c08
    found = [f for f in inv.global_mutable_state(repo) if f[0] in _SEARCH_MODULES]
    reg = {k for k in _c08.REGISTERED_GLOBAL_STATE if k[0] in _SEARCH_MODULES}
    return inv.compare(found, reg, lambda x: (x[0], x[1], x[2]), 'frame', 'search-global-state',
                       'the ignore rules and the file list of a project search are recomputed from the disk on every '
                       'search: no process-global mutable store in %s' % ', '.join(_SEARCH_MODULES),
                       'registered global state still exists')


STRUCTURAL = [structural_ignore, structural_search_stateless]


def _standin(repo, seed, tier):
    from pyvc.standin import run_standin
    return run_standin('C19', tier, seed, repo)


_standin.tiers = ('quick', 'thorough')
BOUNDED = [_standin]
NOT_DECIDED = ['FolderIO.walk in-place pruning loop and gitignored_paths parsing: contracts pending (bounded stand-in planned)',
               'a .gitignore entry naming a FILE does not hide it (entries are compared str vs Path): reading question F11(i)',
               'regex prefilter vs parso tokenisation; inference behind dotted searches',
               'search_in_module match predicate: contract pending']
TRUSTED = ['os.path.join / os.path.sep POSIX semantics', 'str.rpartition / split / join contracts']


def dynamic_contracts(repo):
    """the text pre-filter of the project-wide search never skips a file whose decoded text matches (shared with C17)"""
    from contracts import c17
    return [c17._check_fs]
