"""C20 — Project settings round-trip and shape sys.path as documented."""
import ast
import os
from pyvc.api import *
from pyvc.spec import callee_of

SPEC_IMPORTS = ['contracts.common', 'contracts.c12']
SPEC_FUNCTIONS = []


def _replay_dedup(inp):
    from pyvc.replay import run_real
    from jedi.api.project import _remove_duplicates_from_path
    path = list(inp['path'])
    out = run_real(lambda: list(_remove_duplicates_from_path(path)))
    return {'path': path}, out


_dedup = Contract(
    id='C20._remove_duplicates_from_path', prop='C20',
    clause='the effective search path contains no duplicates; de-duplication keeps every entry once, '
           'keeps first occurrences (the first entry stays first) and adds nothing',
    file='jedi/api/project.py', qualname='_remove_duplicates_from_path',
    params={'path': Seq(STR)}, yields=STR, locals={'used': SetT(STR)},
    yield_each=['c in path'],                 # nothing is invented
    yield_key='c',                            # => pairwise distinct (no duplicates)
    invariants={0: [
        'subset(YKEYS, used)', 'subset(used, YKEYS)',
        'all(x in YKEYS for x in DONE)',      # every entry seen so far has been yielded
        'implies(len(DONE) > 0, len(YIELDED) > 0 and YIELDED[0] == DONE[0])',
        'implies(len(DONE) == 0, len(YIELDED) == 0)', 'all(u in YIELDED for u in used_items(used))' if False else 'used_from(used, YIELDED)',
    ]},
    ensures=['all(x in YKEYS for x in path)',  # every entry of the input appears in the result
             'implies(len(path) > 0, len(result) > 0 and result[0] == path[0])'],
    concrete_ensures=['len(set(result)) == len(result)', 'set(result) == set(path)',
                      'result == sorted(set(path), key=path.index)'],
    witness={'path': 'path'}, replay=_replay_dedup,
    witness_library=[{'path': ['a', 'b', 'a', 'c', 'b']}, {'path': []}, {'path': ['x', 'x']}],
)

_dedup_callee = FnSpec(
    '_remove_duplicates_from_path', params=[('path', Seq(STR))], ret=Seq(STR), pure=True, assumed=False,
    ensures=['implies(len(path) > 0, len(result) > 0 and result[0] == path[0])',
             'all(x in path for x in result)', 'all(x in result for x in path)'],
    note='postconditions proved by C20._remove_duplicates_from_path (generator rule)')

def _replay_base(inp):
    """the real Project._get_base_sys_path for a Script whose inference state runs in ANOTHER environment than the
    project's default one (Script(..., environment=...))"""
    from pyvc.replay import run_real
    from jedi.api.project import Project

    class Env:
        def __init__(self, entries):
            self.entries = entries

        def get_sys_path(self):
            return list(self.entries)

    class State:
        def __init__(self):
            self.memoize_cache = {}
            self.environment = Env(inp['script_env'])
    pr = Project('/proj')
    pr._environment = Env(inp['project_env'])
    out = run_real(lambda: pr._get_base_sys_path(State()))
    exp = list(inp['script_env'])
    if '' in exp:
        exp.remove('')
    return {'EXPECTED': exp}, out


_base = Contract(
    id='C20.Project._get_base_sys_path', prop='C20',
    clause='the base path is the environment\'s sys.path without the "" (cwd) entry, order kept',
    file='jedi/api/project.py', qualname='Project._get_base_sys_path',
    params={'self': Obj('Project20'), 'inference_state': Obj('InfState20')},
    families=['Project20', 'InfState20', 'Env20'], ret=Seq(STR),
    ensures=[
        'implies("" not in inference_state.environment.get_sys_path(), '
        'result == inference_state.environment.get_sys_path())',
        'all(x in inference_state.environment.get_sys_path() for x in result)',
        'len(result) >= len(inference_state.environment.get_sys_path()) - 1',
    ],
    notes='list.remove removes the first "" only (CPython semantics); decorator '
          'inference_state_as_method_param_cache memoises per inference state (assumed transparent)',
    witness={}, replay=_replay_base, concrete_only=True, concrete_ensures=['result == EXPECTED'],
    witness_library=[{'script_env': ['', '/envA/lib', '/envA/site'], 'project_env': ['', '/envB/lib']},
                     {'script_env': ['/envA/lib'], 'project_env': ['/envA/lib']}],
)

def _replay_get_sys_path(inp):
    from pyvc.replay import run_real
    from pathlib import Path
    from jedi.api.project import Project

    class FakeEnv:
        def get_sys_path(self):
            return list(inp['env_sys_path'])

    class FakeState:
        def __init__(self):
            self.memoize_cache = {}
            self.environment = FakeEnv()
            self.script_path = None if inp['script_path'] is None else Path(inp['script_path'])
    pr = Project(Path(inp['path']), sys_path=inp['sys_path'], added_sys_path=list(inp['added']),
                 smart_sys_path=inp['smart'])
    st = FakeState()
    import jedi.api.project as pm
    old = pm.discover_buildout_paths
    pm.discover_buildout_paths = lambda inference_state, script_path: []
    try:
        out = run_real(lambda: pr._get_sys_path(st, add_parent_paths=inp.get('add_parent_paths', True),
                                                add_init_paths=inp.get('add_init_paths', True)))
    finally:
        pm.discover_buildout_paths = old
    try:
        base_after = list(pr._get_base_sys_path(st))
    except Exception as e:
        base_after = repr(e)
    env = {'self': pr, 'inference_state': st, 'add_parent_paths': True, 'add_init_paths': True, 'Path': Path,
           'BASE_AFTER': base_after, 'BASE_EXPECTED': [p for p in inp['env_sys_path'] if p != ''] if '' in inp['env_sys_path']
           else list(inp['env_sys_path']),
           'ADDED_BEFORE': list(inp['added']), 'SYS_PATH_BEFORE': None if inp['sys_path'] is None else list(inp['sys_path'])}
    return env, out


_get_sys_path = Contract(
    id='C20.Project._get_sys_path', prop='C20',
    clause='effective path = dedup(project dir (when smart) ++ base-or-explicit sys_path ++ added_sys_path ++ '
           'buildout ++ script ancestors inside the project, nearest last): project directory first when '
           'smart_sys_path is on; nothing but these sources',
    file='jedi/api/project.py', qualname='Project._get_sys_path',
    params={'self': Obj('Project20'), 'inference_state': Obj('InfState20'), 'add_parent_paths': BOOL,
            'add_init_paths': BOOL},
    families=['Project20', 'InfState20', 'Env20'], ret=Seq(STR),
    names={'_remove_duplicates_from_path': _dedup_callee},
    locals={'traversed': Seq(STR)},
    invariants={0: ['all(self._path in Path(t).parents for t in traversed)']},
    ensures=[
        'implies(self._smart_sys_path, len(result) > 0 and result[0] == str(self._path))',
        'implies(not self._smart_sys_path and not self._django and self._sys_path is not None '
        'and len(self._sys_path) > 0, result[0] == self._sys_path[0])',
        'all(x in result for x in self.added_sys_path)',
        'implies(self._sys_path is not None, all(x in result for x in self._sys_path))',
        'implies(self._sys_path is None, all(x in result for x in self._get_base_sys_path(inference_state)))',
    ],
    notes='Path.parents iteration modelled as an uninterpreted sequence of proper ancestors',
    witness={'path': 'self._path', 'sys_path': 'self._sys_path', 'added': 'self.added_sys_path',
             'smart': 'self._smart_sys_path', 'env_sys_path': 'inference_state.environment.get_sys_path()',
             'script_path': 'inference_state.script_path'},
    replay=_replay_get_sys_path,
    witness_library=[
        {'path': '/proj', 'sys_path': None, 'added': ['/add1', '/add2'], 'smart': True,
         'env_sys_path': ['', '/env/lib', '/env/site'], 'script_path': '/proj/pkg/sub/mod.py'},
        {'path': '/proj', 'sys_path': ['/x', '/y', '/x'], 'added': ['/y', '/add'], 'smart': False,
         'env_sys_path': ['/env/lib'], 'script_path': None},
        {'path': '/proj', 'sys_path': ['/x', '/proj'], 'added': [], 'smart': True,
         'env_sys_path': ['/env/lib'], 'script_path': '/elsewhere/mod.py'},
        # script outside the project, in a sibling directory whose NAME extends the project directory's name
        {'path': '/t/app', 'sys_path': None, 'added': [], 'smart': True,
         'env_sys_path': ['/env/lib'], 'script_path': '/t/app_tests/unit/test_x.py'},
        {'path': '/t/app', 'sys_path': ['/s'], 'added': [], 'smart': True,
         'env_sys_path': ['/env/lib'], 'script_path': '/t/app/pkg/deep/mod.py'},
    ],
    concrete_ensures=[
        # nothing but the documented sources: every entry is the project dir, an explicit/base/added entry, or a
        # directory inside the project
        'all(x == str(self._path) or x in (self._sys_path if self._sys_path is not None else '
        'inference_state.environment.get_sys_path()) or x in self.added_sys_path or self._path in Path(x).parents '
        'for x in result)',
        'len(set(result)) == len(result)',
        # computing the effective path changes nothing in the project's configuration (a second Script with the same
        # Project gets the same path)
        'list(self.added_sys_path) == ADDED_BEFORE',
        # ... nor the (memoised) base path, which is also the whitelist for importing compiled modules (C12)
        'BASE_AFTER == BASE_EXPECTED',
        '(None if self._sys_path is None else list(self._sys_path)) == SYS_PATH_BEFORE',
    ],
)

def _replay_swm(inp):
    """the real Importer._sys_path_with_modifications twice on an inference state whose get_sys_path hands out ONE list
    object per flag (as the memoised Project._get_sys_path does): the second answer must equal the first"""
    from pyvc.replay import run_real
    from jedi.inference import imports as imp
    memo = {}

    class IS:
        def get_sys_path(self, add_init_paths=False, **kw):
            return memo.setdefault(add_init_paths, ['/env/lib', '/proj'])
    real = imp.sys_path.check_sys_path_modifications
    imp.sys_path.check_sys_path_modifications = lambda ctx: ['/proj/vendor']
    try:
        im = imp.Importer.__new__(imp.Importer)
        im._inference_state = IS()
        im._module_context = object()
        im._fixed_sys_path = inp.get('fixed')

        def run():
            a = list(im._sys_path_with_modifications(is_completion=inp['completion']))
            b = list(im._sys_path_with_modifications(is_completion=inp['completion']))
            return {'first': a, 'second': b, 'memo': {k: list(v) for k, v in memo.items()}}
        out = run_real(run)
    finally:
        imp.sys_path.check_sys_path_modifications = real
    exp = inp['fixed'] if inp.get('fixed') is not None else ['/env/lib', '/proj', '/proj/vendor']
    return {'EXPECTED': exp}, out


_swm = Contract(
    id='C20.Importer._sys_path_with_modifications', prop='C20',
    clause='import resolution uses the effective path of the project (+ the sys.path edits detected in the importing '
           'module, appended for THIS lookup only): the memoised effective path itself is never changed, so every '
           'module of a Script is resolved against the same documented path',
    file='jedi/inference/imports.py', qualname='Importer._sys_path_with_modifications',
    params={'self': Obj('Importer20'), 'is_completion': BOOL}, families=['Importer20', 'IS20b', 'ModCtx20'],
    ret=Seq(STR),
    ensures=[
        'implies(self._fixed_sys_path is not None, result == the(self._fixed_sys_path))',
        # the effective path first, unchanged and in order; then exactly the detected edits, in order
        'implies(self._fixed_sys_path is None, '
        'result[:len(self._inference_state.get_sys_path(add_init_paths=not is_completion))] == '
        'self._inference_state.get_sys_path(add_init_paths=not is_completion))',
        'implies(self._fixed_sys_path is None, len(result) == '
        'len(self._inference_state.get_sys_path(add_init_paths=not is_completion)) + '
        'len(check_sys_path_modifications(self._module_context)))',
        'implies(self._fixed_sys_path is None, all(result[len(self._inference_state.get_sys_path(add_init_paths=not is_completion)) + i] '
        '== str(check_sys_path_modifications(self._module_context)[i]) '
        'for i in range(len(check_sys_path_modifications(self._module_context)))))',
    ],
    witness={}, replay=_replay_swm, concrete_only=True,
    witness_library=[{'completion': False}, {'completion': True}, {'completion': False, 'fixed': ['/fixed']}],
    concrete_ensures=['result["first"] == EXPECTED', 'result["second"] == EXPECTED',
                      'all(v == ["/env/lib", "/proj"] for v in result["memo"].values())'],
    notes='get_sys_path returns the list memoised by Project._get_sys_path by reference (shared_result): an in-place '
          'mutation of it is a failed frame obligation',
)


# ---- Project.__init__: what save() later dumps is exactly what the constructor was given, as JSON-able values ---
def _replay_init(inp):
    """the real constructor, then the real save()/load() pair in a temp dir: the loaded project has the same settings"""
    import tempfile, shutil
    from pathlib import Path
    from pyvc.replay import run_real
    from jedi.api.project import Project
    d = tempfile.mkdtemp(prefix='c20init_', dir='/var/tmp')
    try:
        conv = (lambda x: Path(x)) if inp.get('as_path') else (lambda x: x)
        kw = {}
        if inp.get('sys_path') is not None:
            kw['sys_path'] = [conv(x) for x in inp['sys_path']]
        if inp.get('added') is not None:
            kw['added_sys_path'] = [conv(x) for x in inp['added']]
        if inp.get('env') is not None:
            kw['environment_path'] = conv(inp['env'])
        kw['smart_sys_path'] = inp.get('smart', True)
        kw['load_unsafe_extensions'] = inp.get('unsafe', False)

        def go():
            pr = Project(conv(d), **kw)
            got = {k: getattr(pr, a) for k, a in (('sys_path', '_sys_path'), ('added', 'added_sys_path'),
                                                  ('env', '_environment_path'), ('smart', '_smart_sys_path'),
                                                  ('unsafe', '_load_unsafe_extensions'))}
            got['path'] = str(pr._path)
            got['all_str'] = all(type(x) is str for x in (pr._sys_path or [])) \
                and all(type(x) is str for x in pr.added_sys_path) \
                and (pr._environment_path is None or type(pr._environment_path) is str)
            pr.save()
            ld = Project.load(conv(d))
            got['loaded'] = {k: getattr(ld, a) for k, a in (('sys_path', '_sys_path'), ('added', 'added_sys_path'),
                                                            ('env', '_environment_path'), ('smart', '_smart_sys_path'),
                                                            ('unsafe', '_load_unsafe_extensions'))}
            got['loaded']['path'] = str(ld._path)
            return got
        out = run_real(go)
        exp = {'sys_path': inp.get('sys_path'), 'added': list(inp.get('added') or []), 'env': inp.get('env'),
               'smart': inp.get('smart', True), 'unsafe': inp.get('unsafe', False), 'path': d}
        return {'EXPECTED': exp}, out
    finally:
        shutil.rmtree(d, ignore_errors=True)


_INIT_LIB = [
    {'sys_path': ['/a', '/b', '/a'], 'added': ['/c'], 'env': '/e/bin/python', 'smart': False, 'unsafe': True},
    {'sys_path': ['/a', '/b'], 'added': ['/c', '/c'], 'env': '/e/bin/python', 'as_path': True},
    {'sys_path': [], 'added': []},
    {'sys_path': None, 'added': None, 'env': None, 'smart': True},
    {'sys_path': ['/\u00fc/\u4e2d'], 'added': ['rel/dir'], 'env': 'rel/python', 'as_path': True, 'unsafe': True},
]
_INIT_CONCRETE = [
    'all(result[k] == EXPECTED[k] for k in EXPECTED)', 'result["all_str"]',
    'all(result["loaded"][k] == EXPECTED[k] for k in EXPECTED)',
]


def _init_contract(shape, ptype, seqtype, envtype, addedtype):
    return Contract(
        id='C20.Project.__init__[%s]' % shape, prop='C20',
        clause='the constructor stores every setting it is given - sys_path, added_sys_path (entry by entry, in order, '
               'as str), environment_path (as str), smart_sys_path, load_unsafe_extensions, the path (absolute for a '
               'str) - so that save() has the settings to dump and load() = cls(**data) restores them',
        file='jedi/api/project.py', qualname='Project.__init__',
        params={'self': Obj('ProjectInit20'), 'path': ptype, 'environment_path': Opt(envtype),
                'load_unsafe_extensions': BOOL, 'sys_path': Opt(seqtype), 'added_sys_path': addedtype,
                'smart_sys_path': BOOL},
        families=['ProjectInit20'],
        ensures=[
            'self._path == (Path(path).absolute() if isinstance(path, str) else path)',
            'implies(environment_path is None, self._environment_path is None)',
            'implies(environment_path is not None, self._environment_path is not None and '
            'the(self._environment_path) == str(the(environment_path)))',
            'implies(sys_path is None, self._sys_path is None)',
            'implies(sys_path is not None, self._sys_path is not None and '
            'len(the(self._sys_path)) == len(the(sys_path)) and '
            'all(the(self._sys_path)[i] == str(the(sys_path)[i]) for i in range(len(the(sys_path)))))',
            'len(self.added_sys_path) == len(added_sys_path)',
            'all(self.added_sys_path[i] == str(added_sys_path[i]) for i in range(len(added_sys_path)))',
            'self._smart_sys_path == smart_sys_path',
            'self._load_unsafe_extensions == load_unsafe_extensions',
            'self._django == False',
        ],
        witness={}, replay=_replay_init, concrete_only=True, witness_library=_INIT_LIB,
        concrete_ensures=_INIT_CONCRETE,
        notes='argument shape %s (the value model is monomorphic: one instance per notation of the arguments; a local '
              'that is re-bound from Path to str - sys_path, environment_path given as Path - is outside the subset, '
              'those notations are covered by the replay library and the bounded stand-in only)' % shape,
    )


_init_str = _init_contract('str', STR, Seq(STR), STR, Seq(STR))
_init_path = _init_contract('added_sys_path of Path', STR, Seq(STR), STR, Seq(PATH))

_cfg_folder = Contract(
    id='C20.Project._get_config_folder_path', prop='C20',
    clause='save() and load() address the same place: the configuration folder of a project directory is <dir>/.jedi, a '
           'function of the directory alone (_get_json_path on top of it calls it through the class object, which is '
           'outside the subset: covered by the round trips of the Project.__init__ replay library and the stand-in)',
    file='jedi/api/project.py', qualname='Project._get_config_folder_path',
    params={'base_path': PATH}, ret=PATH,
    ensures=['result == base_path.joinpath(".jedi")'],
)

def _region_script_path(func):
    """Script.__init__ up to and including the statement that binds self.path"""
    body = [s_ for s_ in func.body if not (isinstance(s_, ast.Expr) and isinstance(s_.value, ast.Constant))]
    for i, s_ in enumerate(body):
        if isinstance(s_, ast.Assign) and any(isinstance(t, ast.Attribute) and t.attr == 'path'
                                              and isinstance(t.value, ast.Name) and t.value.id == 'self'
                                              for t in s_.targets):
            return body[:i + 1]
    return None


def _replay_script_path(inp):
    import os, tempfile, shutil
    from pathlib import Path
    from pyvc.replay import run_real
    import jedi
    d = os.path.realpath(tempfile.mkdtemp(prefix='c20sp_', dir='/var/tmp'))
    old = os.getcwd()
    try:
        os.makedirs(os.path.join(d, 'src', 'tools'))
        for n in ('main.py', 'c20helper.py'):
            with open(os.path.join(d, 'src', 'tools', n), 'w') as f:
                f.write('marker = 1\n')
        os.chdir(d)
        rel = os.path.join('src', 'tools', 'main.py')
        arg = rel if inp['relative'] else os.path.join(d, rel)
        arg = Path(arg) if inp['as_path'] else arg

        def go():
            pr = jedi.Project(d, sys_path=[])
            sc = jedi.Script('import c20helper\n', path=arg, project=pr)
            return {'path': str(sc.path), 'abs': sc.path.is_absolute(),
                    'sys_path': list(sc._inference_state.get_sys_path())}
        out = run_real(go)
        return {'EXPECTED': {'path': os.path.join(d, rel), 'abs': True,
                             'sys_path': [d, os.path.join(d, 'src'), os.path.join(d, 'src', 'tools')]}}, out
    finally:
        os.chdir(old)
        shutil.rmtree(d, ignore_errors=True)


def _script_path_contract(shape, ptype):
    return Contract(
        id='C20.Script.__init__.path[%s]' % shape, prop='C20',
        clause='the buffer location a Script hands to the inference state (script_path, whose ancestor directories '
               'inside the project are appended to the search path) is ABSOLUTE in every notation of the path argument '
               '(str or Path, relative or absolute) and None iff no path was given - establishes what '
               'Project._get_sys_path assumes about script_path',
        file='jedi/api/__init__.py', qualname='Script.__init__', region=_region_script_path,
        params={'self': Obj('Script20'), 'code': ANY, 'path': Opt(ptype), 'environment': ANY, 'project': ANY},
        families=['Script20'],
        ensures=['implies(path is None, self.path is None)',
                 'implies(path is not None, self.path is not None and '
                 'the(self.path) == Path(the(path)).absolute())'],
        witness={}, replay=_replay_script_path, concrete_only=True,
        witness_library=[{'relative': r, 'as_path': a} for r in (False, True) for a in (False, True)],
        concrete_ensures=['all(result[k] == EXPECTED[k] for k in EXPECTED)'],
        notes='symbolic for a Path argument; the str notation re-binds the local from str to Path (outside the '
              'monomorphic subset) and is covered by the replay library on the real constructor only',
    )


_script_path_path = _script_path_contract('Path', PATH)

FAMILIES = [
    Family('Script20', fields={'path': Opt(PATH), '_orig_path': ANY}),
    Family('ProjectInit20', fields={'_path': PATH, '_sys_path': Opt(Seq(STR)), '_smart_sys_path': BOOL,
                                     '_django': BOOL, 'added_sys_path': Seq(STR), '_environment_path': Opt(STR),
                                     '_load_unsafe_extensions': BOOL}),
    Family('Project20', attrs={'_path': PATH, '_sys_path': Opt(Seq(STR)), '_smart_sys_path': BOOL,
                               '_django': BOOL, 'added_sys_path': Seq(STR), '_environment_path': Opt(STR),
                               '_load_unsafe_extensions': BOOL},
           methods={'_get_base_sys_path': FnSpec('Project._get_base_sys_path',
                                                 params=[('inference_state', Obj('InfState20'))], ret=Seq(STR),
                                                 pure=True, assumed=False, shared_result=True,
                                                 note='memoised per inference state: the same list on every call'),
                    'get_environment': FnSpec('Project.get_environment', ret=Obj('Env20'), pure=True, assumed=True,
                                              note='the PROJECT\'s default environment - not necessarily the one the '
                                                   'Script runs in')}),
    Family('InfState20', attrs={'environment': Obj('Env20'), 'script_path': Opt(PATH)}),
    Family('Env20', methods={'get_sys_path': FnSpec('Environment.get_sys_path', ret=Seq(STR), pure=True,
                                                    assumed=True, shared_result=True,
                                                    note='memoised on the environment: the same list on every call')}),
]

CONTRACTS = [_dedup, _base, _get_sys_path, _swm, _init_str, _init_path, _cfg_folder, _script_path_path]


def register(reg):
    reg.add_family(Family('Importer20', attrs={'_inference_state': Obj('IS20b'), '_module_context': Obj('ModCtx20'),
                                               '_fixed_sys_path': Opt(Seq(STR))}))
    reg.add_family(Family('ModCtx20'))
    reg.add_family(Family('IS20b', methods={'get_sys_path': FnSpec(
        'InferenceState.get_sys_path', params=[('add_init_paths', BOOL)], defaults={'add_init_paths': False},
        ret=Seq(STR), pure=True, assumed=False, shared_result=True,
        note='forwards to the memoised Project._get_sys_path: the SAME list object on every call')}))
    from pyvc.values import MNS, MFn
    _csm = FnSpec('check_sys_path_modifications', params=[('module_context', Obj('ModCtx20'))], ret=Seq(PATH),
                  pure=True, assumed=True, note='sys.path edits found statically in the importing module')
    reg.names['check_sys_path_modifications'] = _csm
    reg.names['sys_path'] = MNS('sys_path', {'check_sys_path_modifications': MFn('spec', 'check_sys_path_modifications',
                                                                                 spec=_csm)})
    reg.names['discover_buildout_paths'] = FnSpec(
        'discover_buildout_paths', params=[('inference_state', Obj('InfState20')), ('script_path', PATH)],
        ret=Seq(PATH), pure=True, assumed=True, note='buildout discovery (inference); content not decided')


# ---- structural: save()/load() round trip over exactly the constructor's keyword names -----------
def structural_save_load(repo):
    rel = 'jedi/api/project.py'
    out = []
    try:
        tree = ast.parse(open(os.path.join(repo, rel), encoding='utf-8').read())
    except (OSError, SyntaxError) as e:
        return [{'id': 'save-load', 'kind': 'post', 'ok': None, 'label': 'cannot parse %s: %s' % (rel, e)}]
    cls = [n for n in tree.body if isinstance(n, ast.ClassDef) and n.name == 'Project'][0]
    fns = {f.name: f for f in cls.body if isinstance(f, ast.FunctionDef)}
    init, save, load = fns.get('__init__'), fns.get('save'), fns.get('load')
    if not (init and save and load):
        return [{'id': 'save-load', 'kind': 'post', 'ok': None, 'label': 'Project.__init__/save/load not found'}]
    params = [a.arg for a in init.args.args[1:]] + [a.arg for a in init.args.kwonlyargs]
    # attributes assigned on self in __init__
    attrs = []
    for n in ast.walk(init):
        if isinstance(n, ast.Assign):
            for t in n.targets:
                if isinstance(t, ast.Attribute) and isinstance(t.value, ast.Name) and t.value.id == 'self':
                    attrs.append(t.attr)
    popped = []
    for n in ast.walk(save):
        if isinstance(n, ast.Call) and isinstance(n.func, ast.Attribute) and n.func.attr == 'pop' \
                and n.args and isinstance(n.args[0], ast.Constant):
            popped.append(n.args[0].value)
    saved_keys = sorted({a.lstrip('_') for a in attrs if a not in popped})
    ok = saved_keys == sorted(params)
    out.append({'id': 'save-keys', 'definite': True, 'kind': 'post', 'ok': ok,
                'label': 'save() dumps exactly the constructor\'s parameters (each setting saved and restorable)',
                'detail': 'saved keys %r vs constructor parameters %r (popped %r)' % (saved_keys, sorted(params), popped)})
    # data = dict(self.__dict__) ... {k.lstrip('_'): v} ; data['path'] = str(data['path'])
    src_save = ast.unparse(save)
    ok2 = "dict(self.__dict__)" in src_save and "k.lstrip('_')" in src_save and "str(data['path'])" in src_save \
        and '_SERIALIZER_VERSION' in src_save and 'json.dump' in src_save
    out.append({'id': 'save-shape', 'kind': 'post', 'ok': ok2,
                'label': 'save() writes (version, {name without underscore: value}) with path as str via json.dump',
                'detail': ''})
    src_load = ast.unparse(load)
    ok3 = 'json.load' in src_load and 'cls(**data)' in src_load and 'WrongVersion' in src_load \
        and 'version == 1' in src_load
    out.append({'id': 'load-shape', 'kind': 'post', 'ok': ok3,
                'label': 'load() = cls(**data) for version 1, WrongVersion otherwise',
                'detail': ''})
    # every stored value is JSON-able: each constructor argument that may be a Path is mapped to str
    src_init = ast.unparse(init)
    need = {'sys_path': 'list(map(str, sys_path))', 'added_sys_path': 'list(map(str, added_sys_path))',
            'environment_path': 'str(environment_path)'}
    miss = [k for k, v in need.items() if v not in src_init]
    out.append({'id': 'init-jsonable', 'definite': True, 'kind': 'post', 'ok': not miss,
                'label': 'constructor maps str/Path valued settings (sys_path, added_sys_path, environment_path) '
                         'to str, so save() cannot fail on Path values',
                'detail': 'not mapped: %r' % miss, 'contract': 'C20.Project.__init__'})
    return out


STRUCTURAL = [structural_save_load]
NOT_DECIDED = ['discover_buildout_paths content (inference)', 'file-system predicates (is_file)',
               'order of the middle segment beyond first element / membership (dedup order lemma pending)',
               'consumers (InferenceState.get_sys_path, Importer) use this path: contracts pending']
TRUSTED = ['json.load(json.dump(x)) == x on JSON-able values (tuples read back as lists)',
           'pathlib.Path as normalised strings; Path.parents as a sequence of proper ancestors',
           'inference_state_as_method_param_cache is a transparent memo per inference state']


def _standin(repo, seed, tier):
    from pyvc.standin import run_standin
    return run_standin('C20', tier, seed, repo)


_standin.tiers = ('quick', 'thorough')
BOUNDED = [_standin]


def dynamic_contracts(repo):
    """the lookup itself runs on the path it was given (contract shared with C12)"""
    from contracts import c12
    return [c12._get_module_info]
