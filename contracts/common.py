"""Shared object families and callee contracts used by several properties."""
import z3
from pyvc.api import *
from pyvc.values import SV, MNS

SPEC_FUNCTIONS = ['is_prefix', 'fold_case', 'valid_path']


def is_prefix(p, s):
    """p is a prefix of s (the property's 'name starts with the fragment')"""
    return s[:len(p)] == p


def fold_case(s, insensitive):
    return s.lower() if insensitive else s


def valid_path(p):
    """str(Path(x)) is normalised: non-empty, no doubled or trailing separator"""
    s = str(p)
    return s != '' and '//' not in s and (s == '/' or not s.endswith('/'))


def settings_ns():
    """jedi.settings: every setting read by a function under contract is a symbolic input"""
    names = {
        'case_insensitive_completion': BOOL,
        'add_bracket_after_function': BOOL,
        'allow_unsafe_interpreter_executions': BOOL,
        'dynamic_params': BOOL,
        'dynamic_array_additions': BOOL,
        'dynamic_params_for_other_modules': BOOL,
        'fast_parser': BOOL,
        'call_signatures_validity': INT,
        'cache_directory': STR,
    }
    from pyvc.types import sort_of
    return MNS('settings', {k: SV(t, z3.Const('settings.' + k, sort_of(t))) for k, t in names.items()})


FAMILIES = [
    Family('NameW', attrs={'string_name': STR, 'tree_name': Opt(Obj('PNode')), 'api_type': STR},
           methods={
               'get_public_name': FnSpec('NameW.get_public_name', ret=STR, pure=True, assumed=True,
                                         note='inference-level name object; public name is a pure function of the name'),
           },
           note='jedi.inference.names.* objects (abstract)'),
]


_P = Obj('PNode')
_pm = lambda name, params=(), ret=None, **kw: FnSpec('PNode.' + name, params=list(params), ret=ret, pure=True, **kw)

PNODE = Family(
    'PNode',
    attrs={'type': STR, 'value': STR, 'start_pos': POS, 'end_pos': POS, 'parent': Opt(_P),
           'children': Seq(_P), 'prefix': STR, 'is_leaf': BOOL, 'line': INT, 'column': INT,
           'name': _P, 'star_count': INT, 'annotation': Opt(_P), 'default': Opt(_P), 'position_index': INT},
    attr_requires={'children': 'not o.is_leaf', 'value': 'o.is_leaf', 'prefix': 'o.is_leaf'},
    methods={
        'get_definition': _pm('get_definition', [('import_name_always', BOOL), ('include_setitem', BOOL)],
                              Opt(_P), defaults={'import_name_always': False, 'include_setitem': False}),
        'is_definition': _pm('is_definition', [('include_setitem', BOOL)], BOOL, defaults={'include_setitem': False}),
        'get_previous_leaf': _pm('get_previous_leaf', [], Opt(_P)),
        'get_next_leaf': _pm('get_next_leaf', [], Opt(_P)),
        'get_first_leaf': _pm('get_first_leaf', [], _P),
        'get_last_leaf': _pm('get_last_leaf', [], _P),
        'get_next_sibling': _pm('get_next_sibling', [], Opt(_P)),
        'get_previous_sibling': _pm('get_previous_sibling', [], Opt(_P)),
        'get_root_node': _pm('get_root_node', [], _P),
        'get_code': _pm('get_code', [('include_prefix', BOOL)], STR, defaults={'include_prefix': True}),
        'get_start_pos_of_prefix': _pm('get_start_pos_of_prefix', [], POS),
        'get_used_names': _pm('get_used_names', [], Obj('UsedNames')),
        'get_doc_node': _pm('get_doc_node', [], Opt(_P), ensures=['result is None or result.is_leaf']),
        'get_leaf_for_position': _pm('get_leaf_for_position', [('position', POS), ('include_prefixes', BOOL)],
                                     Opt(_P), defaults={'include_prefixes': False},
                                     ensures=['result is None or result.is_leaf']),
    },
    eq_str="(o.type == 'operator' or o.type == 'keyword') and o.value == s",
    note='parso tree nodes and leaves: the tree API is an ASSUMED contract (DESIGN 3); Operator/Keyword leaves '
         'compare equal to their text (parso.python.tree._LeafWithoutNewlines.__eq__)',
)
FAMILIES.append(PNODE)


def _os_path_join(V, st, self_val, args, kwargs, node):
    """os.path.join(a, b) on POSIX: b wins if absolute; a separator is inserted unless a is empty or ends in one"""
    import z3
    from pyvc.values import SV, pack
    a = pack(args[0], STR) if args[0].t == STR else args[0].z
    cur = a
    for b in args[1:]:
        bz = b.z
        sep = z3.StringVal('/')
        cur = z3.If(z3.PrefixOf(sep, bz), bz,
                    z3.If(z3.Or(cur == z3.StringVal(''), z3.SuffixOf(sep, cur)), z3.Concat(cur, bz),
                          z3.Concat(cur, sep, bz)))
    return SV(STR, cur)


def _os_path_dirname(V, st, self_val, args, kwargs, node):
    """os.path.dirname: an uninterpreted function of the path text (str or Path-as-text), result of the same kind"""
    import z3
    from pyvc.values import SV, Unsupported
    a = args[0]
    if not (isinstance(a, SV) and a.t in (STR, PATH)):
        raise Unsupported('os.path.dirname of %r' % (a,))
    V.assumed_used.add('os.path.dirname')
    f = V.uf('os.path.dirname', [z3.StringSort()], z3.StringSort())
    return SV(a.t, f(a.z))


def os_ns():
    import z3
    from pyvc.values import SV, MFn
    return MNS('os', {'path': MNS('os.path', {
        'sep': SV(STR, z3.StringVal('/')),
        'join': MFn('spec', 'os.path.join', spec=FnSpec('os.path.join', impl=_os_path_join, assumed=True)),
        'dirname': MFn('spec', 'os.path.dirname', spec=FnSpec('os.path.dirname', params=[('p', PATH)], ret=PATH,
                                                              pure=True, assumed=True, impl=_os_path_dirname)),
    })})


def register(reg):
    reg.names['os'] = os_ns()
    reg.names['settings'] = settings_ns()
    reg.add_exception('RefactoringError', ('Exception',))
    reg.add_exception('InternalError', ('Exception',))
    reg.add_exception('WrongVersion', ('Exception',))
    reg.add_exception('OnErrorLeaf', ('Exception',))
    reg.add_exception('InvalidPythonEnvironment', ('Exception',))
    from pyvc.values import MCls
    reg.names['pickle'] = MNS('pickle', {'UnpicklingError': MCls('UnpicklingError'),
                                         'PicklingError': MCls('PicklingError')})


def structural_signature_key(repo):
    """the time-limited signature cache can never serve a result computed for another buffer version: its key is
    None for path-less buffers and otherwise contains the re.Match object, which compares by identity"""
    import ast
    import os
    from pyvc.verify import find_function
    try:
        t3 = ast.parse(open(os.path.join(repo, 'jedi/api/helpers.py'), encoding='utf-8').read())
    except (OSError, SyntaxError) as e:
        return [{'id': 'signature-key', 'kind': 'post', 'ok': None, 'label': 'cannot parse helpers.py: %s' % e}]
    cs = find_function(t3, 'cache_signatures')
    s3 = ' '.join(ast.unparse(cs).split()) if cs else ''
    n_assign = 0
    if cs is not None:
        for n in ast.walk(cs):
            tgts = n.targets if isinstance(n, ast.Assign) else [n.target] if isinstance(n, (ast.AugAssign, ast.AnnAssign, ast.NamedExpr)) else []
            for t in tgts:
                n_assign += sum(1 for e in ast.walk(t) if isinstance(e, ast.Name) and e.id == 'before_bracket')
    guard_new = 'if module_path is None or before_bracket is None: yield None' in s3
    guard_old = 'if module_path is None: yield None' in s3
    ok3 = cs is not None and n_assign == 1 and 'before_bracket = re.match(' in s3 and ', whole, re.DOTALL)' in s3 \
        and guard_new and 'yield (module_path, before_bracket, bracket_leaf.start_pos)' in s3
    # recognised violations: the Match object replaced by something comparable (assigned twice), or a key that is
    # built although there was no match (None compares equal across buffer versions)
    definite = cs is not None and (n_assign > 1 or (guard_old and not guard_new))
    return [{'id': 'signature-key', 'kind': 'post', 'ok': ok3 if cs else None, 'definite': definite,
             'label': 'the signature cache key is None (no caching) for path-less buffers and when the text before the '
                      'cursor does not contain the bracket, and otherwise contains the re.Match object (compared by '
                      'identity): a key of one call never equals the key of another, so no stale signature '
                      '(parameters, positions, line code) can be served'}]
