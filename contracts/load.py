"""Shared by C09 / C12 / C17: how an imported project file becomes a module value (jedi/inference/imports.py)."""
from pyvc.api import *

SPEC_FUNCTIONS = ['crop']


def crop(text):
    """files beyond the size limit are analysed up to the limit"""
    if len(text) > settings._cropped_file_size:
        return text[:settings._cropped_file_size]
    return text
_IS = Obj('ISLoad')
_FIO = Obj('FIOLoad')


def _replay_load(inp):
    """the real _load_python_module with a recording inference state / ModuleValue / line lookup"""
    from pyvc.replay import run_real
    from jedi.inference import imports as imp
    import jedi.inference.value as valmod
    from jedi import settings
    log = {}

    class FIO:
        path = '/proj/toolmod.py'

    class IS:
        grammar = 'GRAMMAR'

        def parse(self, **kw):
            log['parse'] = kw
            return 'TREE'

        def parse_and_get_code(self, **kw):
            # the text just read from disk - NOT necessarily the text the (possibly cached) tree was built from
            log['parse'] = kw
            return 'TREE', 'text read from disk now\n'

    def fake_lines(grammar, path):
        log['lines_for'] = (grammar, path)
        return ['LINES OF THE CACHE ENTRY']

    class MV:
        def __init__(self, inference_state, module_node, **kw):
            self.args = (module_node, kw)
    real_mv, real_lines = valmod.ModuleValue, imp.__dict__.get('get_cached_code_lines')
    valmod.ModuleValue = MV
    imp.get_cached_code_lines = fake_lines
    fio = FIO()
    try:
        out = run_real(lambda: imp._load_python_module(IS(), fio, import_names=('toolmod',), is_package=False).args)
    finally:
        valmod.ModuleValue = real_mv
        if real_lines is not None:
            imp.get_cached_code_lines = real_lines
        else:
            del imp.get_cached_code_lines
    exp = ('TREE', {'file_io': fio, 'string_names': ('toolmod',), 'code_lines': ['LINES OF THE CACHE ENTRY'],
                    'is_package': False})
    exp_parse = {'file_io': fio, 'cache': True, 'diff_cache': settings.fast_parser, 'cache_path': settings.cache_directory}
    return {'EXPECTED': exp, 'LOG': log, 'EXPECTED_PARSE': exp_parse}, out


load_python_module = Contract(
    id='LOAD._load_python_module', prop=None,
    clause='an imported project file is only read and parsed, through parso\'s cache with the file itself as the source '
           '(so that parso can compare modification times), and the module value gets the tree of that parse together '
           'with the code lines OF THE SAME CACHE ENTRY - tree positions and line text always belong to one version of '
           'the file',
    file='jedi/inference/imports.py', qualname='_load_python_module',
    params={'inference_state': _IS, 'file_io': _FIO, 'import_names': ANY, 'is_package': BOOL},
    families=['ISLoad', 'FIOLoad'], ret=ANY,
    ensures=['result == ModuleValue(inference_state, inference_state.parse(file_io, True, settings.fast_parser, '
             'settings.cache_directory), file_io, import_names, '
             'get_cached_code_lines(inference_state.grammar, file_io.path), is_package)'],
    witness={}, replay=_replay_load, concrete_only=True, witness_library=[{}],
    concrete_ensures=['result[0] == EXPECTED[0] and result[1].get("code_lines") == EXPECTED[1]["code_lines"]',
                      'result[1].get("file_io") is EXPECTED[1]["file_io"] and result[1].get("is_package") is False '
                      'and tuple(result[1].get("string_names")) == ("toolmod",)',
                      # the parse goes through the cache and gets the FILE (so that parso can compare mtimes)
                      'LOG.get("parse", {}).get("file_io") is EXPECTED_PARSE["file_io"] and LOG["parse"].get("cache") is True',
                      'LOG.get("lines_for") == ("GRAMMAR", "/proj/toolmod.py")'],
    notes='parse / ModuleValue / get_cached_code_lines are abstract pure functions of their arguments',
)

def _grammar_parse(V, st, self_val, args, kwargs, node):
    """grammar.parse(code=, path=, file_io=, **kwargs): the tree parso returns - a function of the grammar, the TEXT it
    is given, the path, the file object and the caller's cache options"""
    import z3
    from pyvc.values import SV, box_any, pack
    from pyvc.types import Ref, AnySort
    if args or set(kwargs) != {'code', 'path', 'file_io', '**'}:
        from pyvc.values import Unsupported
        raise Unsupported('grammar.parse called with an unexpected argument shape')
    fio = kwargs['file_io']
    from pyvc.values import MNONE as _N
    fio_z = pack(fio, Opt(Obj('FIOp')))        # one representation whether the local is Optional or not
    zs = [self_val.z, pack(kwargs['code'], STR), box_any(kwargs['path']), fio_z, box_any(kwargs['**'])]
    f = V.uf('Grammar.parse', [z.sort() for z in zs], AnySort)
    V.assumed_used.add('Grammar.parse')
    return SV(ANY, f(*zs))


def _replay_parse(inp):
    """the real parse_and_get_code on a file whose content differs from what parso's cache holds for that path"""
    from pyvc.replay import run_real
    import os
    import tempfile
    import shutil
    import jedi
    from jedi import settings
    from jedi.inference import InferenceState
    d = tempfile.mkdtemp(prefix='loadp_', dir='/var/tmp')
    old_cache = settings.cache_directory
    settings.cache_directory = os.path.join(d, 'cache')
    try:
        p = os.path.join(d, 'mod.py')
        with open(p, 'w', newline='') as f:
            f.write('first = 1\r\n')
        os.utime(p, (1000000000, 1000000000))
        st = InferenceState(jedi.Project(d))
        from jedi.file_io import FileIO
        a = st.parse_and_get_code(file_io=FileIO(p), cache=True, cache_path=settings.cache_directory)[1]
        with open(p, 'w', newline='') as f:
            f.write('second = 2\r\nthird = 3\r\n')
        os.utime(p, (1000000100, 1000000100))
        out = run_real(lambda: (a, st.parse_and_get_code(file_io=FileIO(p), cache=True,
                                                         cache_path=settings.cache_directory)[1],
                                st.parse_and_get_code(path=p, cache=True, cache_path=settings.cache_directory)[0].get_code(),
                                st.parse_and_get_code(code=b'given = 0\n', path=p)[1]))
        return {}, out
    finally:
        settings.cache_directory = old_cache
        shutil.rmtree(d, ignore_errors=True)


parse_and_get_code = Contract(
    id='LOAD.parse_and_get_code', prop=None,
    clause='the text that is parsed (and handed back as the module\'s code) is the text GIVEN by the caller, or else the '
           'bytes of the file as it is NOW (read through the file object), decoded leniently as UTF-8 and cropped at the '
           'size limit - never a text remembered from an earlier parse; tree and text belong together',
    file='jedi/inference/__init__.py', qualname='InferenceState.parse_and_get_code',
    params={'self': Obj('ISParse'), 'code': Opt(ANY), 'path': ANY, 'use_latest_grammar': BOOL, 'file_io': Opt(Obj('FIOp')),
            'kwargs': ANY},
    families=['ISParse', 'GrammarL', 'FIOp'], ret=Tup(ANY, STR),
    requires=['settings._cropped_file_size >= 0'],
    ensures=[
        'implies(code is not None, "read-file" not in EFFECTS and result[1] == crop(decode_lenient(the(code))))',
        'implies(code is None and file_io is not None, EFFECTS == ["read-file"] and '
        'result[1] == crop(decode_lenient(the(file_io).read())))',
        'implies(code is None and file_io is None, EFFECTS == ["read-file"] and '
        'result[1] == crop(decode_lenient(FileIO(path).read())))',
        'result[0] == parse_tree(self.latest_grammar if use_latest_grammar else self.grammar, result[1], path, '
        'file_io if (file_io is not None or code is not None) else FileIO(path), kwargs)',
    ],
    witness={}, replay=_replay_parse, concrete_only=True, witness_library=[{}],
    concrete_ensures=['result[0] == "first = 1\\r\\n"', 'result[1] == "second = 2\\r\\nthird = 3\\r\\n"',
                      'result[2] == "second = 2\\r\\nthird = 3\\r\\n"', 'result[3] == "given = 0\\n"'],
    notes='parso and the file object are abstract; `read-file` is the effect of file_io.read()',
)

FAMILIES = [
    Family('ISLoad', attrs={'grammar': ANY}, methods={'parse': FnSpec(
        'InferenceState.parse', params=[('file_io', _FIO), ('cache', BOOL), ('diff_cache', BOOL), ('cache_path', STR)],
        ret=ANY, pure=True, assumed=True, note='parso parse through its cache (revalidated against the file\'s mtime)')}),
    Family('FIOLoad', attrs={'path': ANY}),
    Family('ISParse', attrs={'grammar': Obj('GrammarL'), 'latest_grammar': Obj('GrammarL')}),
    Family('GrammarL', methods={'parse': FnSpec('Grammar.parse', impl=_grammar_parse, assumed=True)}),
    Family('FIOp', attrs={'path': ANY}, methods={'read': FnSpec('FileIO.read', ret=ANY, pure=True, assumed=True,
                                                               effects=['read-file'],
                                                               note='the bytes of the file at the time of the call')}),
]


def _parse_tree(V, st, self_val, args, kwargs, node):
    """spec form of grammar.parse: the same uninterpreted function"""
    g, code, path, fio, kw = args
    return _grammar_parse(V, st, g, [], {'code': code, 'path': path, 'file_io': fio, '**': kw}, node)


def register(reg):
    import z3
    from pyvc.values import SV, MNS, MFn
    from pyvc.types import sort_of
    reg.names['FileIO'] = FnSpec('FileIO', params=[('path', ANY)], ret=Obj('FIOp'), pure=True, assumed=True)
    _dec = FnSpec('python_bytes_to_unicode', params=[('source', ANY), ('encoding', STR), ('errors', STR)],
                  defaults={'encoding': 'utf-8', 'errors': 'strict'}, ret=STR, pure=True, assumed=True)
    reg.names['parso'] = MNS('parso', {'python_bytes_to_unicode': MFn('spec', 'python_bytes_to_unicode', spec=_dec)})
    reg.names['decode_lenient'] = FnSpec('decode_lenient', impl=lambda V, st, sv, a, k, n: __import__(
        'pyvc.calls', fromlist=['call_spec']).call_spec(V, _dec, None, [a[0], V.lit('utf-8'), V.lit('replace')], {}, st, n))
    reg.names['parse_tree'] = FnSpec('parse_tree', impl=_parse_tree)
    reg.names['settings'].members['_cropped_file_size'] = SV(INT, z3.Int('settings._cropped_file_size'))
    reg.names['ModuleValue'] = FnSpec(
        'ModuleValue', params=[('inference_state', _IS), ('module_node', ANY), ('file_io', _FIO), ('string_names', ANY),
                               ('code_lines', ANY), ('is_package', BOOL)], ret=ANY, pure=True, assumed=True)
    reg.names['get_cached_code_lines'] = FnSpec(
        'get_cached_code_lines', params=[('grammar', ANY), ('path', ANY)], ret=ANY, pure=True, assumed=True,
        note='the lines stored in parso\'s cache entry for this path (written by the parse that produced the tree)')

CONTRACTS = [load_python_module, parse_and_get_code]
