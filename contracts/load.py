"""Shared by C09 / C12 / C17: how an imported project file becomes a module value (jedi/inference/imports.py)."""
from pyvc.api import *

SPEC_FUNCTIONS = []
_IS = Obj('ISLoad')
_FIO = Obj('FIOLoad')


def _replay_load(inp):
    """the real _load_python_module with a recording inference state / ModuleValue / line lookup"""
    from pyvc.replay import run_real
    from jedi.inference import imports as imp
    import jedi.inference.value as valmod
    from jedi import settings
    log = {}

    class FIO:
        path = '/proj/toolmod.py'

    class IS:
        grammar = 'GRAMMAR'

        def parse(self, **kw):
            log['parse'] = kw
            return 'TREE'

        def parse_and_get_code(self, **kw):
            # the text just read from disk - NOT necessarily the text the (possibly cached) tree was built from
            log['parse'] = kw
            return 'TREE', 'text read from disk now\n'

    def fake_lines(grammar, path):
        log['lines_for'] = (grammar, path)
        return ['LINES OF THE CACHE ENTRY']

    class MV:
        def __init__(self, inference_state, module_node, **kw):
            self.args = (module_node, kw)
    real_mv, real_lines = valmod.ModuleValue, imp.__dict__.get('get_cached_code_lines')
    valmod.ModuleValue = MV
    imp.get_cached_code_lines = fake_lines
    fio = FIO()
    try:
        out = run_real(lambda: imp._load_python_module(IS(), fio, import_names=('toolmod',), is_package=False).args)
    finally:
        valmod.ModuleValue = real_mv
        if real_lines is not None:
            imp.get_cached_code_lines = real_lines
        else:
            del imp.get_cached_code_lines
    exp = ('TREE', {'file_io': fio, 'string_names': ('toolmod',), 'code_lines': ['LINES OF THE CACHE ENTRY'],
                    'is_package': False})
    exp_parse = {'file_io': fio, 'cache': True, 'diff_cache': settings.fast_parser, 'cache_path': settings.cache_directory}
    return {'EXPECTED': exp, 'LOG': log, 'EXPECTED_PARSE': exp_parse}, out


load_python_module = Contract(
    id='LOAD._load_python_module', prop=None,
    clause='an imported project file is only read and parsed, through parso\'s cache with the file itself as the source '
           '(so that parso can compare modification times), and the module value gets the tree of that parse together '
           'with the code lines OF THE SAME CACHE ENTRY - tree positions and line text always belong to one version of '
           'the file',
    file='jedi/inference/imports.py', qualname='_load_python_module',
    params={'inference_state': _IS, 'file_io': _FIO, 'import_names': ANY, 'is_package': BOOL},
    families=['ISLoad', 'FIOLoad'], ret=ANY,
    ensures=['result == ModuleValue(inference_state, inference_state.parse(file_io, True, settings.fast_parser, '
             'settings.cache_directory), file_io, import_names, '
             'get_cached_code_lines(inference_state.grammar, file_io.path), is_package)'],
    witness={}, replay=_replay_load, concrete_only=True, witness_library=[{}],
    concrete_ensures=['result[0] == EXPECTED[0] and result[1].get("code_lines") == EXPECTED[1]["code_lines"]',
                      'result[1].get("file_io") is EXPECTED[1]["file_io"] and result[1].get("is_package") is False '
                      'and tuple(result[1].get("string_names")) == ("toolmod",)',
                      # the parse goes through the cache and gets the FILE (so that parso can compare mtimes)
                      'LOG.get("parse", {}).get("file_io") is EXPECTED_PARSE["file_io"] and LOG["parse"].get("cache") is True',
                      'LOG.get("lines_for") == ("GRAMMAR", "/proj/toolmod.py")'],
    notes='parse / ModuleValue / get_cached_code_lines are abstract pure functions of their arguments',
)

FAMILIES = [
    Family('ISLoad', attrs={'grammar': ANY}, methods={'parse': FnSpec(
        'InferenceState.parse', params=[('file_io', _FIO), ('cache', BOOL), ('diff_cache', BOOL), ('cache_path', STR)],
        ret=ANY, pure=True, assumed=True, note='parso parse through its cache (revalidated against the file\'s mtime)')}),
    Family('FIOLoad', attrs={'path': ANY}),
]


def register(reg):
    reg.names['ModuleValue'] = FnSpec(
        'ModuleValue', params=[('inference_state', _IS), ('module_node', ANY), ('file_io', _FIO), ('string_names', ANY),
                               ('code_lines', ANY), ('is_package', BOOL)], ret=ANY, pure=True, assumed=True)
    reg.names['get_cached_code_lines'] = FnSpec(
        'get_cached_code_lines', params=[('grammar', ANY), ('path', ANY)], ret=ANY, pure=True, assumed=True,
        note='the lines stored in parso\'s cache entry for this path (written by the parse that produced the tree)')

CONTRACTS = [load_python_module]
