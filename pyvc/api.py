"""names a sidecar contract module needs"""
from .types import PATH
from .types import INT, BOOL, STR, ANY, NONE, Opt, OptT, Tup, TupT, Seq, SeqT, SetT, DictT, Obj, ObjT, POS
from .spec import FnSpec, Family, Contract
