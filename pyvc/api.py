"""names a sidecar contract module needs"""
from .types import PATH
from .types import INT, BOOL, STR, ANY, NONE, Opt, OptT, Tup, TupT, Seq, SeqT, SetT, DictT, Obj, ObjT, POS
from .spec import FnSpec, Family, Contract


def implies(a, b):
    """concrete meaning of the spec connective (symbolically: z3 Implies)"""
    return (not a) or bool(b)


def iff(a, b):
    return bool(a) == bool(b)


def the(x):
    """payload of an Optional (concrete meaning: identity)"""
    return x
