"""Models of the builtins and stdlib names used by the functions under contract."""
import z3

from .types import PATH
from .types import (INT, BOOL, STR, ANY, NONE, OptT, TupT, SeqT, SetT, DictT, ObjT,
                    sort_of, opt_none, opt_some, opt_is_none, opt_val, Ref)
from .values import simp
from .values import (Unsupported, SV, MNONE, MTup, MList, MFn, MCls, MNS, MU, MExc,
                     fresh, fresh_name, type_of, unify_types, pack, as_sv, tuple_items, truthy,
                     strip_opt, py_eq, py_lt, ite, is_none)
from .engine import MFrozen, MDictV, MEnum, MRev, MZip, MRange, EXC_BASES


def _b(name):
    def deco(f):
        _BUILTINS[name] = MFn('builtin', name, impl=f)
        return f
    return deco


_BUILTINS = {}

PARAMETER = None


def parameter_ns(V):
    # inspect.Parameter kinds: _ParameterKind is an IntEnum 0..4
    return MNS('Parameter', {
        'POSITIONAL_ONLY': SV(INT, z3.IntVal(0)),
        'POSITIONAL_OR_KEYWORD': SV(INT, z3.IntVal(1)),
        'VAR_POSITIONAL': SV(INT, z3.IntVal(2)),
        'KEYWORD_ONLY': SV(INT, z3.IntVal(3)),
        'VAR_KEYWORD': SV(INT, z3.IntVal(4)),
    })


def lookup(V, name):
    if name in _BUILTINS:
        return _BUILTINS[name]
    if name in EXC_BASES:
        return MCls(name)
    if name in V.reg.exceptions:
        return MCls(name)
    if name == 'Parameter':
        return parameter_ns(V)
    if name == 'object':
        return MCls('object')
    if name in ('bytes', 'bytearray', 'memoryview'):
        return MCls(name)
    if name in ('T_INT', 'T_STR', 'T_BOOL', 'T_ANY', 'T_PATH'):
        from .calls import MType
        return MType({'T_INT': INT, 'T_STR': STR, 'T_BOOL': BOOL, 'T_ANY': ANY, 'T_PATH': PATH}[name])
    if name == 'T_OBJ':
        from .calls import MType

        def mk(V_, st, args, kwargs, node):
            nm = simp(args[0].z)
            return MType(ObjT(nm.as_string()))
        return MFn('builtin', 'T_OBJ', impl=mk)
    if name == 'True':
        return SV(BOOL, z3.BoolVal(True))
    if name == 'False':
        return SV(BOOL, z3.BoolVal(False))
    if name == 'None':
        return MNONE
    return None


@_b('len')
def b_len(V, st, args, kwargs, node):
    v = args[0]
    if V.is_live(v):
        V.live_effect(st, 'user:len', v, node)
        return fresh(INT, 'len')
    if isinstance(v, (MList, MTup, MFrozen)):
        return SV(INT, z3.IntVal(len(v.items)))
    if isinstance(v, SV):
        if isinstance(v.t, OptT):
            V.may_raise(st, z3.Not(opt_is_none(v.t, v.z)), 'TypeError', 'len(None)', node)
            v = strip_opt(v)
        if v.t == STR or isinstance(v.t, SeqT):
            return SV(INT, z3.Length(v.z))
        if isinstance(v.t, TupT):
            return SV(INT, z3.IntVal(len(v.t.items)))
        if isinstance(v.t, (SetT, DictT)):
            card = V.ghost_card(st, v)
            if card is not None:
                return card
    raise Unsupported('len of %r' % (v,))


@_b('max')
def b_max(V, st, args, kwargs, node):
    if len(args) == 2:
        a, b = pack(args[0], INT), pack(args[1], INT)
        return SV(INT, z3.If(a >= b, a, b))
    raise Unsupported('max arity')


@_b('min')
def b_min(V, st, args, kwargs, node):
    if len(args) == 2:
        a, b = pack(args[0], INT), pack(args[1], INT)
        return SV(INT, z3.If(a <= b, a, b))
    raise Unsupported('min arity')


@_b('abs')
def b_abs(V, st, args, kwargs, node):
    a = pack(args[0], INT)
    return SV(INT, z3.If(a >= 0, a, -a))


@_b('bool')
def b_bool(V, st, args, kwargs, node):
    return SV(BOOL, V.truth_test(st, args[0], node))


@_b('str')
def b_str(V, st, args, kwargs, node):
    if not args:
        return SV(STR, z3.StringVal(''))
    v = args[0]
    if V.spec_mode:
        v = V.nn(st, v, node)
    if isinstance(v, SV) and isinstance(v.t, OptT):
        inner = b_str(V, st, [strip_opt(v)], kwargs, node)      # str(None) == 'None'
        return SV(STR, z3.If(opt_is_none(v.t, v.z), z3.StringVal('None'), inner.z))
    if isinstance(v, SV):
        if v.t == STR:
            return v
        if v.t == PATH:
            return SV(STR, v.z)
        if v.t == INT:
            f = V.uf('int.__str__', [z3.IntSort()], z3.StringSort())
            return SV(STR, f(v.z))
        if isinstance(v.t, ObjT):
            fam = V.family(v.t.family)
            if '__str__' in fam.attrs:
                return V.get_attr(st, v, '__str__', node)
    raise Unsupported('str() of %r' % (v,))


@_b('Path')
def b_Path(V, st, args, kwargs, node):
    v = V.nn(st, args[0], node, 'Path() argument')
    if isinstance(v, SV) and v.t in (PATH, STR):
        return SV(PATH, v.z)       # assumption: the string is a normalised path
    raise Unsupported('Path() of %r' % (v,))


@_b('repr')
def b_repr(V, st, args, kwargs, node):
    return fresh(STR, 'repr')


@_b('int')
def b_int(V, st, args, kwargs, node):
    v = args[0]
    if isinstance(v, SV) and v.t in (INT, BOOL):
        return SV(INT, pack(v, INT))
    if isinstance(v, SV) and v.t == ANY:
        # int() of an opaque value (a float, say): some integer, functionally determined by the argument; nothing
        # relates it to the argument itself.  It may also raise.
        for cls in ('ValueError', 'TypeError'):
            bad = st.fork()
            if V.feasible(bad.pc):
                V.exc_out.append((bad, MExc(cls, [], origin='int()')))
        return SV(INT, V.uf('int_of_any', [v.z.sort()], z3.IntSort())(v.z))
    raise Unsupported('int() of %r' % (v,))


@_b('isinstance')
def b_isinstance(V, st, args, kwargs, node):
    v, c = args
    from .values import MOpaqueSet
    if isinstance(c, MOpaqueSet):
        # isinstance(x, <tuple of types>): true also for SUBCLASSES - not the exact-type membership test
        if isinstance(v, SV) and isinstance(v.t, (ObjT, OptT)):
            f = V.uf('isinstance_any[%s]' % c.name, [Ref], z3.BoolSort())
            vv = strip_opt(v)
            return SV(BOOL, f(vv.z))
        raise Unsupported('isinstance of %r with %s' % (v, c.name))
    classes = c.items if isinstance(c, MTup) else [c]
    res = []
    for cl in classes:
        if isinstance(cl, MFn) and cl.kind == 'builtin' and cl.name in ('dict', 'list', 'tuple', 'set', 'str', 'int',
                                                                       'bool', 'type'):
            cl = MCls(cl.name)
        if not isinstance(cl, MCls):
            raise Unsupported('isinstance with %r' % (cl,))
        res.append(isinstance_one(V, st, v, cl.name))
    return SV(BOOL, z3.Or(*res) if len(res) > 1 else res[0])


def isinstance_one(V, st, v, clsname):
    if clsname == 'object':
        return z3.BoolVal(True)
    if isinstance(v, MExc):
        from .engine import exc_is_subclass
        return z3.BoolVal(exc_is_subclass(v.cls, clsname))
    if v is MNONE:
        return z3.BoolVal(False)
    if isinstance(v, (MTup,)):
        return z3.BoolVal(clsname == 'tuple')
    if isinstance(v, MList):
        return z3.BoolVal(clsname == 'list')
    if isinstance(v, SV):
        t = v.t
        nn = z3.BoolVal(True)
        if isinstance(t, OptT):
            nn = z3.Not(opt_is_none(t, v.z))
            v = strip_opt(v)
            t = v.t
        prim = {STR: 'str', INT: 'int', BOOL: 'bool', PATH: 'Path'}
        if t in prim:
            return z3.And(nn, z3.BoolVal(prim[t] == clsname or (t == BOOL and clsname == 'int')))
        if isinstance(t, SeqT):
            return z3.And(nn, z3.BoolVal(clsname in ('list',)))
        if isinstance(t, TupT):
            return z3.And(nn, z3.BoolVal(clsname == 'tuple'))
        if isinstance(t, ObjT) and t.family == 'Live':
            f = V.uf('isinstance[%s]' % clsname, [Ref], z3.BoolSort())
            return z3.And(nn, f(v.z))
        if t == ANY:
            # an opaque value: its class is an unknown but fixed fact about it
            f = V.uf('isinstance_any[%s]' % clsname, [v.z.sort()], z3.BoolSort())
            return z3.And(nn, f(v.z))
        if isinstance(t, ObjT):
            if clsname in ('str', 'int', 'bool', 'list', 'tuple', 'dict', 'set'):
                return z3.BoolVal(False)
            f = V.uf('isinstance[%s]' % clsname, [Ref], z3.BoolSort())
            return z3.And(nn, f(v.z))
    raise Unsupported('isinstance of %r' % (v,))


@_b('enumerate')
def b_enumerate(V, st, args, kwargs, node):
    start = 0
    if len(args) > 1:
        z = simp(pack(args[1], INT))
        if not z3.is_int_value(z):
            raise Unsupported('enumerate with symbolic start')
        start = z.as_long()
    v = args[0]
    items = V.iter_items(v, st, node)
    if items is None and V.is_live(v):
        V.live_effect(st, 'user:iter', v, node)
        f = V.uf('Live.items', [Ref], z3.SeqSort(Ref))
        v = SV(SeqT(ObjT('Live')), f(strip_opt(v).z))
    return MEnum(items if items is not None else v, start)


@_b('reversed')
def b_reversed(V, st, args, kwargs, node):
    return MRev(args[0])


@_b('map')
def b_map(V, st, args, kwargs, node):
    from .calls import apply
    if len(args) != 2:
        raise Unsupported('map with several iterables')
    f, seq = args
    items = V.iter_items(seq, st, node)
    if items is not None:
        return MList([apply(V, f, [i], {}, st, node) for i in items])
    if isinstance(seq, SV) and isinstance(seq.t, SeqT):
        i = z3.Int(fresh_name('mi'))
        V.spec_mode += 1
        try:
            elt = apply(V, f, [SV(seq.t.elem, seq.z[i])], {}, st.fork(), node)
        finally:
            V.spec_mode -= 1
        t = type_of(elt)
        r = fresh(SeqT(t), 'map')
        n = z3.Length(seq.z)
        st.fact(z3.Length(r.z) == n)
        st.fact(z3.ForAll([i], z3.Implies(z3.And(i >= 0, i < n), r.z[i] == pack(elt, t))))
        return r
    raise Unsupported('map over %r' % (seq,))


@_b('zip')
def b_zip(V, st, args, kwargs, node):
    return MZip(list(args))


@_b('range')
def b_range(V, st, args, kwargs, node):
    if len(args) == 1:
        return MRange(z3.IntVal(0), pack(args[0], INT))
    if len(args) == 2:
        return MRange(pack(args[0], INT), pack(args[1], INT))
    raise Unsupported('range with step')


@_b('list')
def b_list(V, st, args, kwargs, node):
    if not args:
        return MList([])
    v = V.nn(st, args[0], node, 'list() argument')
    items = V.iter_items(v, st, node)
    if items is not None:
        return MList(items)
    if isinstance(v, SV) and isinstance(v.t, SeqT):
        return SV(v.t, v.z)       # a COPY: not owned by whoever owns v
    from .values import MRev
    if isinstance(v, MRev) and isinstance(v.inner, SV) and isinstance(v.inner.t, SeqT):
        # list(reversed(seq)) of a symbolic sequence: same length, element i is element n-1-i
        inner = v.inner
        r = fresh(inner.t, 'reversed')
        n = z3.Length(inner.z)
        i = z3.Int(fresh_name('ri'))
        st.fact(z3.Length(r.z) == n)
        st.fact(z3.ForAll([i], z3.Implies(z3.And(i >= 0, i < n), r.z[i] == inner.z[n - 1 - i])))
        return r
    raise Unsupported('list() of %r' % (v,))


@_b('tuple')
def b_tuple(V, st, args, kwargs, node):
    if not args:
        return MTup([])
    v = args[0]
    items = V.iter_items(v, st, node)
    if items is not None:
        return MTup(items)
    if isinstance(v, SV) and isinstance(v.t, SeqT):
        return SV(v.t, v.z)
    raise Unsupported('tuple() of %r' % (v,))


@_b('set')
def b_set(V, st, args, kwargs, node):
    if not args:
        return MEmptySet()
    v = args[0]
    items = V.iter_items(v, st, node)
    if items is not None:
        return MFrozen(items)
    if isinstance(v, SV) and isinstance(v.t, SeqT):
        # set(seq): a fresh set constant characterised by membership (no lambda: portable across solvers)
        r = fresh(SetT(v.t.elem), 'setof')
        x = z3.Const(fresh_name('e'), sort_of(v.t.elem))
        st.fact(z3.ForAll([x], z3.Select(r.z, x) == z3.Contains(v.z, z3.Unit(x))))
        return r
    raise Unsupported('set() of %r' % (v,))


class MEmptySet(MFrozen):
    def __init__(self):
        MFrozen.__init__(self, [])


@_b('dict')
def b_dict(V, st, args, kwargs, node):
    if not args:
        return MDictV(dict(kwargs), None, None)
    raise Unsupported('dict() with positional args')


@_b('any')
def b_any(V, st, args, kwargs, node):
    items = V.iter_items(args[0], st, node)
    if items is not None:
        return SV(BOOL, z3.Or(*[truthy(i) for i in items]) if items else z3.BoolVal(False))
    v = args[0]
    if isinstance(v, SV) and isinstance(v.t, SeqT) and v.t.elem == BOOL:
        return SV(BOOL, z3.Contains(v.z, z3.Unit(z3.BoolVal(True))))
    raise Unsupported('any() of %r' % (v,))


@_b('all')
def b_all(V, st, args, kwargs, node):
    items = V.iter_items(args[0], st, node)
    if items is not None:
        return SV(BOOL, z3.And(*[truthy(i) for i in items]) if items else z3.BoolVal(True))
    v = args[0]
    if isinstance(v, SV) and isinstance(v.t, SeqT) and v.t.elem == BOOL:
        return SV(BOOL, z3.Not(z3.Contains(v.z, z3.Unit(z3.BoolVal(False)))))
    if isinstance(v, SV) and isinstance(v.t, SeqT) and v.t.elem == STR:
        return SV(BOOL, z3.Not(z3.Contains(v.z, z3.Unit(z3.StringVal('')))))
    raise Unsupported('all() of %r' % (v,))


@_b('sum')
def b_sum(V, st, args, kwargs, node):
    items = V.iter_items(args[0], st, node)
    if items is not None:
        tot = z3.IntVal(0)
        for i in items:
            tot = tot + pack(i, INT)
        return SV(INT, tot)
    raise Unsupported('sum of symbolic sequence')


@_b('implies')
def b_implies(V, st, args, kwargs, node):
    return SV(BOOL, z3.Implies(truthy(args[0]), truthy(args[1])))


@_b('the')
def b_the(V, st, args, kwargs, node):
    """spec connective: the payload of an Optional that the surrounding formula has established to be present"""
    return strip_opt(args[0])


@_b('iff')
def b_iff(V, st, args, kwargs, node):
    return SV(BOOL, truthy(args[0]) == truthy(args[1]))


@_b('subset')
def b_subset(V, st, args, kwargs, node):
    a, b = args
    if isinstance(a, SV) and isinstance(a.t, SetT) and isinstance(b, SV) and a.t == b.t:
        x = z3.Const(fresh_name('sx'), sort_of(a.t.elem))
        return SV(BOOL, z3.ForAll([x], z3.Implies(z3.Select(a.z, x), z3.Select(b.z, x))))
    if isinstance(a, SV) and isinstance(a.t, SetT):
        return SV(BOOL, z3.ForAll([z3.Const('sx', sort_of(a.t.elem))], True)) if False else \
            _subset_any(V, a, b)
    raise Unsupported('subset() of %r, %r' % (a, b))


def _subset_any(V, a, b):
    bz = pack(b, a.t)
    x = z3.Const(fresh_name('sx'), sort_of(a.t.elem))
    return SV(BOOL, z3.ForAll([x], z3.Implies(z3.Select(a.z, x), z3.Select(bz, x))))


@_b('used_from')
def b_used_from(V, st, args, kwargs, node):
    """spec: every member of the set occurs in the sequence"""
    a, seq = args
    x = z3.Const(fresh_name('ux'), sort_of(a.t.elem))
    return SV(BOOL, z3.ForAll([x], z3.Implies(z3.Select(a.z, x), z3.Contains(seq.z, z3.Unit(x)))))


@_b('callable')
def b_callable(V, st, args, kwargs, node):
    v = args[0]
    if isinstance(v, MFn):
        return SV(BOOL, z3.BoolVal(True))
    if v is MNONE:
        return SV(BOOL, z3.BoolVal(False))
    if isinstance(v, SV) and v.t == ANY:
        return SV(BOOL, V.uf('callable', [sort_of(ANY)], z3.BoolSort())(v.z))
    if isinstance(v, SV) and isinstance(v.t, OptT) and v.t.inner == ANY:
        inner = strip_opt(v)
        return SV(BOOL, z3.And(z3.Not(opt_is_none(v.t, v.z)),
                               V.uf('callable', [sort_of(ANY)], z3.BoolSort())(inner.z)))
    raise Unsupported('callable() of %r' % (v,))


@_b('getattr')
def b_getattr(V, st, args, kwargs, node):
    if V.is_live(args[0]):
        nm = simp(args[1].z) if isinstance(args[1], SV) and args[1].t == STR else None
        label = 'user:getattr:' + nm.as_string() if nm is not None and z3.is_string_value(nm) else 'user:getattr'
        V.live_effect(st, label, args[0], node)
        V.may_raise(st, fresh(BOOL, 'hasattr').z, 'AttributeError', 'getattr on live object', node) \
            if len(args) < 3 else None
        return V.fresh_live()
    if len(args) >= 2 and isinstance(args[1], SV):
        nm = simp(args[1].z)
        if z3.is_string_value(nm):
            try:
                return V.get_attr(st, args[0], nm.as_string(), node)
            except Unsupported:
                if len(args) == 3:
                    return args[2]
                raise
    raise Unsupported('getattr with symbolic name')


@_b('sorted')
def b_sorted(V, st, args, kwargs, node):
    from . import sorting
    return sorting.model_sorted(V, st, args, kwargs, node)


@_b('next')
def b_next(V, st, args, kwargs, node):
    from .values import MIter
    if len(args) == 2 and isinstance(args[0], MIter):
        import ast as _ast
        it = args[0]
        a0 = node.args[0] if isinstance(node, _ast.Call) and node.args else None
        if not isinstance(a0, _ast.Name) or st.env.get(a0.id) is not it:
            raise Unsupported('next() on an iterator that is not a plain local')
        if it.pos < len(it.items):
            st.env[a0.id] = MIter(it.items, it.pos + 1)
            return it.items[it.pos]
        return args[1]
    # next(iterable, default) on a sequence value: its first element, or the default
    if len(args) == 2 and isinstance(args[0], SV) and isinstance(args[0].t, SeqT):
        s = args[0]
        first = SV(s.t.elem, s.z[0])
        r = ite(z3.Length(s.z) > 0, first, args[1])
        if r is None:
            raise Unsupported('next() default of incompatible type')
        return r
    raise Unsupported('next()')


@_b('iter')
def b_iter(V, st, args, kwargs, node):
    from .values import MIter
    if not V.is_live(args[0]):
        items = V.iter_items(args[0], st, node)
        if items is not None:
            return MIter(items, 0)
    if V.is_live(args[0]):
        V.live_effect(st, 'user:iter', args[0], node)
        V.may_raise(st, fresh(BOOL, 'iterable').z, 'TypeError', 'object is not iterable', node)
        return V.fresh_live()
    raise Unsupported('iter()')


@_b('type')
def b_type(V, st, args, kwargs, node):
    v = args[0]
    if isinstance(v, SV) and isinstance(v.t, ObjT):
        f = V.uf('typeof', [Ref], Ref)
        return SV(ObjT('Type'), f(v.z))
    raise Unsupported('type() of %r' % (v,))


@_b('hasattr')
def b_hasattr(V, st, args, kwargs, node):
    if V.is_live(args[0]):
        V.live_effect(st, 'user:getattr', args[0], node)
        return fresh(BOOL, 'hasattr')
    raise Unsupported('hasattr')
