"""Calls: callee contracts, inlined helpers, builtin models, method models."""
import ast
import z3

from .types import (INT, BOOL, STR, ANY, NONE, OptT, TupT, SeqT, SetT, DictT, ObjT,
                    sort_of, opt_none, opt_some, opt_is_none, opt_val, tup_mk, tup_get, Ref)
from .values import simp
from .values import (Unsupported, SV, MNONE, MTup, MList, MDict, MFn, MCls, MNS, MU, MExc,
                     fresh, fresh_name, type_of, unify_types, pack, as_sv, tuple_items, truthy,
                     is_none, strip_opt, py_eq, py_lt, ite)
from .spec import FnSpec
from .engine import (Outcome, NORMAL, RETURN, RAISE, BREAK, CONTINUE, MFrozen, MDictV, MEnum,
                     MRev, MZip, MRange, State, exc_is_subclass)

MUTATORS = {'append', 'add', 'insert', 'pop', 'remove', 'extend', 'setdefault', 'update',
            'clear', 'sort', 'discard', 'reverse'}


def assigned_names(nodes):
    out = set()

    class V(ast.NodeVisitor):
        def visit_Name(self, n):
            if isinstance(n.ctx, (ast.Store, ast.Del)):
                out.add(n.id)

        def visit_FunctionDef(self, n):
            out.add(n.name)

        def visit_Lambda(self, n):
            pass

        def visit_ListComp(self, n):
            pass

        visit_GeneratorExp = visit_SetComp = visit_DictComp = visit_ListComp

        def visit_ExceptHandler(self, n):
            if n.name:
                out.add(n.name)
            self.generic_visit(n)

        def visit_Call(self, n):
            f = n.func
            if isinstance(f, ast.Attribute) and f.attr in MUTATORS and isinstance(f.value, ast.Name):
                out.add(f.value.id)
            self.generic_visit(n)

        def visit_Subscript(self, n):
            if isinstance(n.ctx, (ast.Store, ast.Del)) and isinstance(n.value, ast.Name):
                out.add(n.value.id)
            self.generic_visit(n)

        def visit_AugAssign(self, n):
            t = n.target
            if isinstance(t, ast.Subscript) and isinstance(t.value, ast.Name):
                out.add(t.value.id)
            self.generic_visit(n)
    for nd in nodes:
        V().visit(nd)
    return out


def contains_yield(fnode):
    for n in ast.walk(fnode):
        if isinstance(n, (ast.Yield, ast.YieldFrom)):
            return True
    return False


# --------------------------------------------------------------------- entry
def eval_call(V, node, st):
    f = node.func
    # quantifier forms: all(... for x in <symbolic seq or range>) / any(...)
    if isinstance(f, ast.Name) and f.id in ('all', 'any') and len(node.args) == 1 \
            and isinstance(node.args[0], (ast.GeneratorExp, ast.ListComp)) and f.id not in st.env:
        r = quantified(V, f.id, node.args[0], st)
        if r is not None:
            return r
    if isinstance(f, ast.Name) and f.id == 'str' and 'str' not in st.env and len(node.args) == 1 \
            and isinstance(node.args[0], ast.BoolOp) and isinstance(node.args[0].op, ast.Or) \
            and len(node.args[0].values) == 2 and not node.keywords:
        # str(a or b) == str(a) if a else str(b): the operands may be of different types (Path or '')
        a = V.ev(node.args[0].values[0], st)
        ca = simp(truthy(a))
        from . import builtins_model
        sub = st.fork()
        sub.assume(ca)
        sa = builtins_model.b_str(V, sub, [V.nn(sub, a, node)], {}, node) if not z3.is_false(ca) else None
        sub2 = st.fork()
        sub2.assume(z3.Not(ca))
        b = V.ev(node.args[0].values[1], sub2)
        sb = builtins_model.b_str(V, sub2, [b], {}, node)
        if sa is None:
            return sb
        return SV(STR, z3.If(ca, sa.z, sb.z))
    if isinstance(f, ast.Name) and f.id in ('forall', 'exists') and V.spec_mode and len(node.args) == 1 \
            and isinstance(node.args[0], ast.Lambda):
        # forall(lambda c=T_ANY, k=T_STR: body): quantification over all values of the given types
        lam = node.args[0]
        names = [a.arg for a in lam.args.args]
        tys = [V.ev(d, st) for d in lam.args.defaults]
        if len(names) != len(tys) or not all(isinstance(t, MType) for t in tys):
            raise Unsupported('forall needs one type default per bound variable')
        sub = st.fork()
        bound = []
        for nm, t in zip(names, tys):
            v = SV(t.t, z3.Const(fresh_name('qa_' + nm), sort_of(t.t)))
            sub.env[nm] = v
            bound.append(v.z)
        n0 = len(sub.pc)
        body = truthy(V.ev(lam.body, sub))
        extra = sub.pc[n0:]
        if f.id == 'forall':
            if extra:
                body = z3.Implies(z3.And(*extra), body)
            return SV(BOOL, z3.ForAll(bound, body))
        if extra:
            body = z3.And(body, *extra)
        return SV(BOOL, z3.Exists(bound, body))
    if isinstance(f, ast.Name) and f.id == 'old' and V.spec_mode:
        if not V.old_stack:
            raise Unsupported('old() outside a postcondition')
        pre = V.old_stack[-1]
        mode = 'entry'
        if isinstance(pre, tuple):
            pre, mode = pre
        sub = pre.fork()
        if mode == 'call':
            # callee postcondition: names are the callee's parameters, heap is the pre-call heap
            sub.env = dict(st.env)
        else:
            for k, v in st.env.items():
                if k not in sub.env:
                    sub.env[k] = v
        return V.ev(node.args[0], sub)
    # drop list: debug.* calls have no effect on analysed state
    if isinstance(f, ast.Attribute) and isinstance(f.value, ast.Name) and f.value.id == 'debug' \
            and 'debug' not in st.env:
        V.dropped_calls.append('debug.%s@%d' % (f.attr, node.lineno))
        for a in node.args:
            pass
        return MNONE
    if isinstance(f, ast.Name) and f.id in V.c.drop_calls and f.id not in st.env:
        # contract-declared drop (e.g. `from jedi.debug import dbg`): listed in the evidence like the debug.* calls
        V.dropped_calls.append('%s@%d' % (f.id, node.lineno))
        return MNONE
    # mutating method on a named container / field: compute and write back
    if isinstance(f, ast.Attribute) and f.attr in MUTATORS:
        recv = V.ev(f.value, st)
        if is_container(recv):
            args = [V.ev(a, st) for a in node.args]
            kwargs = {k.arg: V.ev(k.value, st) for k in node.keywords}
            from . import methods
            newv, res = methods.mutate(V, recv, f.attr, args, kwargs, st, node)
            V.bind_target(_as_store(f.value), newv, st, node, mutation=True)
            return res
    fn = V.ev(f, st)
    args = []
    for a in node.args:
        if isinstance(a, ast.Starred):
            v = V.ev(a.value, st)
            if isinstance(v, (MTup, MList)):
                args.extend(v.items)
            elif isinstance(v, SV) and v.t == ANY:
                args.append(StarAny(v))
            else:
                raise Unsupported('*args of %r' % (v,))
        else:
            args.append(V.ev(a, st))
    kwargs = {}
    for k in node.keywords:
        if k.arg is None:
            v = V.ev(k.value, st)
            if isinstance(v, MDictV):
                kwargs.update(v.items)
            elif isinstance(v, SV) and v.t == ANY:
                kwargs['**'] = v
            else:
                raise Unsupported('**kwargs of %r' % (v,))
        else:
            kwargs[k.arg] = V.ev(k.value, st)
    return apply(V, fn, args, kwargs, st, node)


class MType:
    """a type descriptor used as a value in quantifier forms"""
    def __init__(self, t):
        self.t = t


class StarAny:
    def __init__(self, v):
        self.v = v


def _as_store(expr):
    return expr


def is_container(v):
    if isinstance(v, (MList, MFrozen, MDictV)):
        return True
    if isinstance(v, SV) and isinstance(v.t, (SeqT, SetT, DictT)):
        return True
    return False


def apply(V, fn, args, kwargs, st, node):
    if isinstance(fn, MU):
        fn = V.check_bound(st, fn, node)
    if isinstance(fn, MFn):
        k = fn.kind
        if k == 'builtin':
            return fn.impl(V, st, args, kwargs, node)
        if k == 'spec':
            return call_spec(V, fn.spec, None, args, kwargs, st, node)
        if k == 'bound':
            return call_spec(V, fn.spec, fn.self_val, args, kwargs, st, node)
        if k == 'method':
            from . import methods
            return methods.call_method(V, fn.self_val, fn.name, args, kwargs, st, node)
        if k in ('inline', 'lambda'):
            return inline_call(V, fn, args, kwargs, st, node)
        if k == 'rec':
            return call_rec(V, fn, args, kwargs, st, node)
    if isinstance(fn, SV) and V.is_live(fn):
        V.live_effect(st, 'user:call', fn, node)
        return V.fresh_live()
    if isinstance(fn, MCls):
        if fn.name in V.reg.constructors:
            return call_spec(V, V.reg.constructors[fn.name], None, args, kwargs, st, node)
        return MExc(fn.name, args)
    raise Unsupported('call of %r' % (fn,))


# ------------------------------------------------------------ contract calls
def bind_params(V, spec, args, kwargs, st):
    names = [p[0] for p in spec.params]
    bound = {}
    extra = []
    pos = list(args)
    for i, a in enumerate(pos):
        if isinstance(a, StarAny):
            bound['*'] = a.v
            continue
        if i < len(names):
            bound[names[i]] = a
        elif spec.varargs:
            extra.append(a)
        else:
            raise Unsupported('too many arguments for %s' % spec.name)
    for k, v in kwargs.items():
        if k == '**':
            bound['**'] = v
            continue
        if k in names:
            if k in bound:
                raise Unsupported('duplicate argument %s' % k)
            bound[k] = v
        elif spec.varargs:
            extra.append(v)
        else:
            raise Unsupported('unexpected keyword %s for %s' % (k, spec.name))
    out = {}
    for (n, t) in spec.params:
        if n in bound:
            v = bound[n]
        elif n in spec.defaults:
            v = V.wrap_name(n, spec.defaults[n])
        else:
            raise Unsupported('missing argument %s for %s' % (n, spec.name))
        if t is None:
            out[n] = v
        else:
            if isinstance(v, SV) and isinstance(v.t, OptT) and not isinstance(t, OptT) and t != ANY:
                # an Optional passed where the callee's contract wants a value: None must be excluded
                V.may_raise(st, z3.Not(opt_is_none(v.t, v.z)), 'TypeError',
                            'argument %s of %s may be None' % (n, spec.name), None)
                v = strip_opt(v)
            out[n] = as_sv(v, t) if t != NONE else MNONE
    return out, bound


def call_spec(V, spec, self_val, args, kwargs, st, node):
    if spec.impl is not None:
        return spec.impl(V, st, self_val, args, kwargs, node)
    env, bound = bind_params(V, spec, args, kwargs, st)
    if self_val is not None:
        env['self'] = self_val
    if spec.assumed:
        V.assumed_used.add(spec.name)
    # call-pre
    for r in spec.requires:
        g = V.eval_spec_bool(r, st, env)
        V.oblige(st, g, 'call-pre', '%s requires %s' % (spec.name, r), node)
    dec = getattr(spec, 'decreases', None)
    if dec and isinstance(V.c.decreases, str) and not V.spec_mode:
        # recursive call: the measure strictly decreases and is bounded below
        m_call = pack(V.eval_spec(dec, st, env), INT)
        m_entry = pack(V.eval_spec(V.c.decreases, V.entry.fork()), INT)
        V.oblige(st, z3.And(m_call >= 0, m_call < m_entry), 'decreases',
                 'recursive call to %s decreases %s' % (spec.name, dec), node)
    pre = st.fork()
    # effects
    for e in spec.effects:
        add_effect(V, st, e, node)
    # heap havoc
    for key in spec.modifies:
        fam, field = key
        t = V.family(fam).fields[field]
        st.heap[key] = z3.Const(fresh_name('heap_%s_%s' % key), z3.ArraySort(Ref, sort_of(t)))
    # exceptional exits
    for cls in spec.raises:
        if isinstance(cls, tuple):
            cls, cond = cls
        else:
            cond = None
        bad = st.fork()
        if cond is not None:
            bad.assume(V.eval_spec_bool(cond, bad, env))
        if V.feasible(bad.pc):
            V.exc_out.append((bad, MExc(cls, [], origin=spec.name)))
    # result
    if spec.ret is None or spec.ret == NONE:
        res = MNONE
    elif spec.pure:
        zargs = []
        for (n, t) in spec.params:
            v = env[n]
            if not isinstance(v, SV):
                raise Unsupported('pure callee %s with non-symbolic argument %s' % (spec.name, n))
            zargs.append(v.z)
        if self_val is not None:
            sv = self_val
            zargs.insert(0, sv.z)
        for key in spec.reads:
            zargs.append(V.heap_get(pre, *key))
        f = V.uf(spec.name, [a.sort() for a in zargs], sort_of(spec.ret))
        res = SV(spec.ret, f(*zargs))
    else:
        res = fresh(spec.ret, 'r_' + spec.name.replace('.', '_'))
    if getattr(spec, 'shared_result', False) and isinstance(res, SV):
        res.shared = spec.name
    env2 = dict(env)
    env2['result'] = res
    V.old_stack.append((pre, 'call'))
    try:
        for e in spec.ensures:
            st.fact(V.eval_spec_bool(e, st, env2))
    finally:
        V.old_stack.pop()
    return res


def add_effect(V, st, label, node, operand=None):
    cur = st.ghost.get('effects')
    if cur is None:
        cur = SV(SeqT(STR), z3.Empty(sort_of(SeqT(STR))))
    st.ghost['effects'] = SV(SeqT(STR), z3.Concat(cur.z, z3.Unit(z3.StringVal(label))))
    log = st.ghost.get('effect_log', ())
    st.ghost['effect_log'] = log + ((label, getattr(node, 'lineno', 0)),)
    # effect obligations: a forbidden effect must be unreachable (or guarded)
    allowed = V.c.effects_allowed
    if allowed is not None and not V.spec_mode:
        ok = any(label == a or (a.endswith('*') and label.startswith(a[:-1])) for a in allowed)
        if not ok:
            guard = z3.BoolVal(False)
            eg = V.c.effect_guard
            if isinstance(eg, dict):
                eg = eg.get(label) or eg.get(label.split(':')[0] + ':*') or eg.get('*')
            if eg:
                guard = V.eval_spec_bool(eg, st, {'OPERAND': operand} if operand is not None else None)
            V.oblige(st, guard, 'effect', 'effect %s not allowed here unless %s' % (label, eg or 'never'), node,
                     assume=False)


# ------------------------------------------------------------------- inline
def inline_call(V, fn, args, kwargs, st, node):
    if V.inline_depth > 12:
        raise Unsupported('inline recursion too deep in %s' % fn.name)
    fnode = fn.node
    a = fnode.args
    if a.vararg or a.kwarg:
        raise Unsupported('inline callee with *args/**kwargs')
    params = [p.arg for p in a.posonlyargs + a.args]
    kwonly = [p.arg for p in a.kwonlyargs]
    defaults = dict(zip(params[len(params) - len(a.defaults):], a.defaults))
    for p, d in zip(a.kwonlyargs, a.kw_defaults):
        if d is not None:
            defaults[p.arg] = d
    bound = {}
    if len(args) > len(params):
        raise Unsupported('too many args in inline call %s' % fn.name)
    for n, v in zip(params, args):
        bound[n] = v
    for k, v in kwargs.items():
        if k not in params + kwonly or k in bound:
            raise Unsupported('bad keyword %s in inline call %s' % (k, fn.name))
        bound[k] = v
    for n in params + kwonly:
        if n not in bound:
            if n in defaults:
                bound[n] = V.ev(defaults[n], st)
            else:
                raise Unsupported('missing arg %s in inline call %s' % (n, fn.name))
    saved_env = st.env
    closure = dict(saved_env) if getattr(fn, 'frame', None) is not None else {}
    sub = st.fork()
    sub.env = dict(bound)
    V.frames.append(closure)
    V.inline_depth += 1
    is_spec_fn = getattr(fn, 'is_spec', False)
    if is_spec_fn:
        V.spec_mode += 1
    saved_exc = V.exc_out
    V.exc_out = []
    saved_try = V.try_stack
    try:
        if isinstance(fnode, ast.Lambda):
            V.local_names = V.local_names + [set()]
            try:
                val = V.ev(fnode.body, sub)
            finally:
                V.local_names = V.local_names[:-1]
            inner_exc = V.exc_out
            V.exc_out = saved_exc
            for (s, e) in inner_exc:
                s.env = dict(saved_env)
                V.exc_out.append((s, e))
            sub.env = saved_env
            st.become(sub)
            return val
        V.local_names = V.local_names + [assigned_names(fnode.body) | set(bound)]
        gen = contains_yield(fnode)
        V.yield_stack = V.yield_stack + [[] if gen else None]
        try:
            outs = V.exec_block(fnode.body, sub)
            yields = V.yield_stack[-1]
        finally:
            V.local_names = V.local_names[:-1]
            V.yield_stack = V.yield_stack[:-1]
    finally:
        V.frames.pop()
        V.inline_depth -= 1
        if is_spec_fn:
            V.spec_mode -= 1
        inner = V.exc_out
        V.exc_out = saved_exc
    rets = []
    for o in outs:
        if o.kind == RAISE:
            o.st.env = dict(saved_env)
            V.exc_out.append((o.st, o.val))
        elif o.kind == RETURN:
            o.st.env = {'__ret__': o.val}
            rets.append(o.st)
        elif o.kind == NORMAL:
            o.st.env = {'__ret__': MNONE}
            rets.append(o.st)
        else:
            raise Unsupported('break/continue escaping inline function')
    if not rets:
        # every path raises: the current path dies
        st.assume(z3.BoolVal(False))
        return MNONE
    if gen:
        if len(rets) != 1:
            raise Unsupported('generator helper with several exits')
        final_pc = rets[0].pc
        items = []
        for pc, val in yields:
            if len(pc) > len(final_pc) or any(not z3.eq(x, y) for x, y in zip(pc, final_pc)):
                raise Unsupported('conditional yield in inlined generator')
            items.append(val)
        rets[0].env = saved_env
        st.become(rets[0])
        return MList(items)
    m = V.merge_states(rets) if len(rets) > 1 else rets[0]
    if m is None:
        raise Unsupported('cannot merge return values of inlined %s' % fn.name)
    val = m.env['__ret__']
    m.env = saved_env
    st.become(m)
    return val


def call_rec(V, fn, args, kwargs, st, node):
    """recursive spec function declared with z3 RecFunction"""
    zs = [pack(a, t) for a, (n, t) in zip(args, fn.params)]
    return SV(fn.ret, fn.zfn(*zs))


# --------------------------------------------------------------- quantifiers
def quantified(V, which, gen, st, gi=0, sub=None):
    """all(...)/any(...) over a symbolic range or sequence -> ForAll / Exists"""
    g = gen.generators[gi]
    if sub is None:
        sub = st.fork()
    it = V.nn(sub, V.ev(g.iter, sub), gen, 'iterable')
    if gi == 0 and len(gen.generators) == 1 and V.iter_items(it, sub, gen) is not None:
        return None     # static: handled by the plain comprehension
    i = z3.Int(fresh_name('q'))
    items = V.iter_items(it, sub, gen)
    if isinstance(it, MRange):
        dom = z3.And(i >= it.lo, i < it.hi)
        V.bind_target(g.target, SV(INT, i), sub, gen)
    elif isinstance(it, SV) and isinstance(it.t, SeqT) and _concat_parts(it.z) is not None:
        # all(P(x) for x in a ++ [b] ++ c)  ==  all over a, P(b), all over c   (meta-level split:
        # solvers are weak on seq.nth over concatenations under quantifiers)
        parts = []
        for part in _concat_parts(it.z):
            kind = part[0]
            s2 = sub.fork()
            guard = None
            if kind in ('cunit', 'cseq'):
                guard, term = part[1], part[2]
            else:
                term = part[1]
            if kind in ('unit', 'cunit'):
                V.bind_target(g.target, SV(it.t.elem, term), s2, gen)
                b = _quant_body(V, which, gen, st, gi, s2, None, None)
            else:
                j = z3.Int(fresh_name('q'))
                V.bind_target(g.target, SV(it.t.elem, term[j]), s2, gen)
                b = _quant_body(V, which, gen, st, gi, s2, j, z3.And(j >= 0, j < z3.Length(term)))
            if guard is not None:
                b = z3.Implies(guard, b) if which == 'all' else z3.And(guard, b)
            parts.append(b)
        if not parts:
            return SV(BOOL, z3.BoolVal(which == 'all'))
        if len(parts) == 1:
            return SV(BOOL, parts[0])
        if which == 'all':
            return SV(BOOL, z3.And(*parts))
        return SV(BOOL, z3.Or(*parts))
    elif isinstance(it, SV) and isinstance(it.t, SeqT):
        dom = z3.And(i >= 0, i < z3.Length(it.z))
        V.bind_target(g.target, SV(it.t.elem, it.z[i]), sub, gen)
    elif isinstance(it, MEnum) and isinstance(it.items, SV) and isinstance(it.items.t, SeqT):
        dom = z3.And(i >= 0, i < z3.Length(it.items.z))
        V.bind_target(g.target, MTup([SV(INT, i + it.start), SV(it.items.t.elem, it.items.z[i])]), sub, gen)
    elif items is not None:
        # static inner iterable: expand
        parts = []
        for item in items:
            s2 = sub.fork()
            V.bind_target(g.target, item, s2, gen)
            parts.append(_quant_body(V, which, gen, st, gi, s2, None, None))
        if which == 'all':
            return SV(BOOL, z3.And(*parts) if parts else z3.BoolVal(True))
        return SV(BOOL, z3.Or(*parts) if parts else z3.BoolVal(False))
    else:
        return None
    return SV(BOOL, _quant_body(V, which, gen, st, gi, sub, i, dom))


def _concat_parts(z):
    """[(kind, term)] if z is syntactically a concatenation / unit / empty, else None"""
    k = z.decl().kind() if z3.is_app(z) else None
    if k == z3.Z3_OP_SEQ_CONCAT:
        out = []
        for ch in z.children():
            sub = _concat_parts(ch)
            out.extend(sub if sub is not None else [('seq', ch)])
        return out
    if k == z3.Z3_OP_SEQ_UNIT:
        return [('unit', z.arg(0))]
    if k == z3.Z3_OP_SEQ_EMPTY:
        return []
    if k == z3.Z3_OP_ITE:
        # If(c, [x], []) : an element present under condition c (filter over a concrete-length list)
        c, a, b = z.arg(0), z.arg(1), z.arg(2)
        pa, pb = _concat_parts(a), _concat_parts(b)
        if pa is not None and pb is not None:
            out = []
            for kind, *rest in pa:
                out.append(_guard(kind, rest, c))
            for kind, *rest in pb:
                out.append(_guard(kind, rest, z3.Not(c)))
            return out
    return None


def _guard(kind, rest, c):
    if kind == 'unit':
        return ('cunit', c, rest[0])
    if kind == 'cunit':
        return ('cunit', z3.And(c, rest[0]), rest[1])
    return ('cseq', c, rest[-1]) if kind == 'seq' else ('cseq', z3.And(c, rest[0]), rest[1])


def _quant_body(V, which, gen, st, gi, sub, i, dom):
    g = gen.generators[gi]
    n0 = len(sub.pc)
    V.spec_mode += 1
    try:
        c = z3.BoolVal(True)
        for f in g.ifs:
            c = z3.And(c, truthy(V.ev(f, sub)))
        if gi + 1 < len(gen.generators):
            inner = quantified(V, which, gen, st, gi + 1, sub)
            if inner is None:
                raise Unsupported('inner generator of a quantified expression')
            body = inner.z
        else:
            body = truthy(V.ev(gen.elt, sub))
    finally:
        V.spec_mode -= 1
    extra = sub.pc[n0:]
    del sub.pc[n0:]
    if extra:
        body = z3.Implies(z3.And(*extra), body) if which == 'all' else z3.And(body, *extra)
    if i is None:
        return z3.Implies(c, body) if which == 'all' else z3.And(c, body)
    if which == 'all':
        return z3.ForAll([i], z3.Implies(z3.And(dom, c), body))
    return z3.Exists([i], z3.And(dom, c, body))


# -------------------------------------------------------------- subscripts
def assign_subscript(V, tgt, val, st, node):
    base = V.ev(tgt.value, st)
    sl = tgt.slice
    if isinstance(sl, ast.Slice):
        lo = V.ev(sl.lower, st) if sl.lower is not None else None
        hi = V.ev(sl.upper, st) if sl.upper is not None else None
        if isinstance(base, MList) and isinstance(val, (MList, MTup)):
            def c(v):
                if v is None:
                    return None
                z = simp(pack(v, INT))
                if not z3.is_int_value(z):
                    raise Unsupported('symbolic slice assignment bound')
                return z.as_long()
            items = list(base.items)
            items[c(lo):c(hi)] = val.items
            V.bind_target(tgt.value, MList(items), st, node)
            return
        if isinstance(base, SV) and isinstance(base.t, SeqT):
            pre = V.slice(base, None, lo, None, st, node)
            post = V.slice(base, hi, None, None, st, node) if hi is not None else \
                SV(base.t, z3.Empty(sort_of(base.t)))
            new = SV(base.t, z3.Concat(pre.z, pack(val, base.t), post.z))
            V.bind_target(tgt.value, new, st, node)
            return
        if isinstance(base, MList):
            t = type_of(base) or type_of(val)
            b = as_sv(base, t)
            return assign_subscript_sv(V, tgt, b, lo, hi, val, st, node)
        raise Unsupported('slice assignment')
    idx = V.ev(sl, st)
    if isinstance(base, MList):
        iz = simp(pack(idx, INT))
        if z3.is_int_value(iz):
            i = iz.as_long()
            if not (-len(base.items) <= i < len(base.items)):
                V.may_raise(st, z3.BoolVal(False), 'IndexError', 'list assignment index', node)
                raise Unsupported('constant index out of range')
            items = list(base.items)
            items[i] = val
            V.bind_target(tgt.value, MList(items), st, node, mutation=True)
            return
        raise Unsupported('symbolic index assignment into concrete list')
    if isinstance(base, SV) and isinstance(base.t, SeqT):
        i = pack(idx, INT)
        n = z3.Length(base.z)
        V.may_raise(st, z3.And(i >= -n, i < n), 'IndexError', 'list assignment index out of range', node)
        j = simp(z3.If(i < 0, n + i, i))
        new = z3.Concat(z3.SubSeq(base.z, 0, j), z3.Unit(pack(val, base.t.elem)),
                        z3.SubSeq(base.z, j + 1, n - j - 1))
        V.bind_target(tgt.value, SV(base.t, new), st, node, mutation=True)
        return
    if isinstance(base, SV) and isinstance(base.t, DictT):
        srt = sort_of(base.t)
        k = pack(idx, base.t.k)
        new = srt.mk(z3.Store(srt.dom(base.z), k, True), z3.Store(srt.vals(base.z), k, pack(val, base.t.v)))
        nv = SV(base.t, new)
        track_dict_keys(V, st, tgt.value, base, idx)
        V.bind_target(tgt.value, nv, st, node, mutation=True)
        return
    if isinstance(base, MDictV):
        raise Unsupported('item assignment on untyped dict (declare a DictT local)')
    raise Unsupported('subscript assignment on %r' % (base,))


def assign_subscript_sv(V, tgt, b, lo, hi, val, st, node):
    pre = V.slice(b, None, lo, None, st, node)
    post = V.slice(b, hi, None, None, st, node) if hi is not None else SV(b.t, z3.Empty(sort_of(b.t)))
    new = SV(b.t, z3.Concat(pre.z, pack(val, b.t), post.z))
    V.bind_target(tgt.value, new, st, node)


def track_dict_keys(V, st, target_expr, base, idx):
    pass


def delete_subscript(V, t, st, node):
    base = V.ev(t.value, st)
    idx = V.ev(t.slice, st)
    if isinstance(base, SV) and isinstance(base.t, DictT):
        srt = sort_of(base.t)
        k = pack(idx, base.t.k)
        V.may_raise(st, z3.Select(srt.dom(base.z), k), 'KeyError', 'del of missing key', node)
        new = srt.mk(z3.Store(srt.dom(base.z), k, False), srt.vals(base.z))
        V.bind_target(t.value, SV(base.t, new), st, node, mutation=True)
        return
    if isinstance(base, MList):
        iz = simp(pack(idx, INT))
        if z3.is_int_value(iz):
            i = iz.as_long()
            if not (-len(base.items) <= i < len(base.items)):
                V.may_raise(st, z3.BoolVal(False), 'IndexError', 'list deletion index out of range', node)
                raise Unsupported('constant deletion index out of range')
            items = list(base.items)
            del items[i]
            V.bind_target(t.value, MList(items), st, node, mutation=True)
            return
        raise Unsupported('symbolic index deletion from a concrete list')
    if isinstance(base, SV) and isinstance(base.t, SeqT):
        i = pack(idx, INT)
        n = z3.Length(base.z)
        V.may_raise(st, z3.And(i >= -n, i < n), 'IndexError', 'list deletion index out of range', node)
        j = z3.If(i < 0, i + n, i)
        new = z3.Concat(z3.Extract(base.z, z3.IntVal(0), j), z3.Extract(base.z, j + 1, n - j - 1))
        V.bind_target(t.value, SV(base.t, new), st, node, mutation=True)
        return
    raise Unsupported('del subscript on %r' % (base,))


# --------------------------------------------------------------------- with
def exec_with(V, s, st):
    if len(s.items) != 1:
        raise Unsupported('with several items')
    item = s.items[0]
    ce = item.context_expr
    cm = None
    if isinstance(ce, ast.Call):
        fn = V.ev(ce.func, st)
        if isinstance(fn, MFn) and fn.kind in ('spec', 'bound') and getattr(fn.spec, 'cm', None):
            cm = fn.spec.cm
            args = [V.ev(a, st) for a in ce.args]
            kwargs = {k.arg: V.ev(k.value, st) for k in ce.keywords}
            selfv = getattr(fn, 'self_val', None)
            enter_val = call_spec(V, cm['enter'], selfv, args, kwargs, st, s)
            outs = []
            V.drain_exc(outs)
            if item.optional_vars is not None:
                V.bind_target(item.optional_vars, enter_val, st, s)
            body_outs = V.exec_block(s.body, st)
            for o in body_outs:
                # __exit__ runs on every exit
                call_spec(V, cm['exit'], selfv, args, kwargs, o.st, s)
                V.drain_exc(outs)
                outs.append(o)
            return outs
    raise Unsupported('with statement on a context manager without contract')
