"""./check <property> [--tier quick|thorough] [--replay file]

Generates every obligation of the property's contracts from /repo's current
source, discharges them (z3, then cvc5), replays counter-models against the
real code, writes /verif/evidence/<id>.json and decides the exit code:
  0 held (KNOWN-FINDING lines allowed)   1 VIOLATION   2 undecided   3 checker failure
"""
import argparse
import importlib
import json
import os
import subprocess
import sys
import time
import traceback

HERE = os.path.dirname(os.path.dirname(os.path.abspath(__file__)))
REPO = os.environ.get('JEDI_REPO', '/repo')
# /verif/evidence describes /repo and nothing else: a run on another tree (JEDI_REPO=<scratch copy with a deliberately
# broken body>) writes its evidence next to that tree unless told otherwise, so it can never replace the committed
# record of the unchanged tree (this happened once: DESIGN.md A.10)
EVIDENCE_DIR = os.environ.get('VERIF_EVIDENCE_DIR') or (
    os.path.join(HERE, 'evidence') if os.path.realpath(REPO) == '/repo' else os.path.join(REPO, '_evidence'))


def tree_identity():
    """which source tree the obligations of this run were generated from (path, commit, uncommitted changes)"""
    def git(*a):
        try:
            return subprocess.run(('git', '-C', REPO) + a, capture_output=True, text=True, timeout=30).stdout.strip()
        except Exception:
            return ''
    return {'path': os.path.realpath(REPO), 'head': git('rev-parse', '--short', 'HEAD'),
            'modified_files': [l[3:] for l in git('status', '--porcelain', '--', 'jedi').splitlines()][:20]}


def load_property(prop):
    from .verify import Registry
    reg = Registry()
    m = importlib.import_module('contracts.' + prop.lower())
    for dep in getattr(m, 'SPEC_IMPORTS', []):
        dm = importlib.import_module(dep)
        reg.add_spec_module(dm)
        for f in getattr(dm, 'FAMILIES', []):
            reg.add_family(f)
        if hasattr(dm, 'register'):
            dm.register(reg)
    for f in getattr(m, 'FAMILIES', []):
        reg.add_family(f)
    reg.add_spec_module(m)
    if hasattr(m, 'register'):
        m.register(reg)
    return reg, m


def load_known():
    p = os.path.join(HERE, 'known_findings.json')
    if not os.path.exists(p):
        return []
    return json.load(open(p))


def match_known(known, prop, cid, kind, label, inp=None, observed=None, vkind=None):
    import re as _re
    for k in known:
        if k.get('status') != 'known' or k.get('property') != prop:
            continue
        if k.get('contract') and k['contract'] != cid:
            continue
        if k.get('kind') and k['kind'] != kind:
            continue
        if k.get('label_contains') and k['label_contains'] not in label:
            continue
        if k.get('input_regex') and (inp is None or not _re.search(k['input_regex'], inp)):
            continue
        if k.get('observed_regex') and (observed is None or not _re.search(k['observed_regex'], observed, _re.S)):
            continue
        if k.get('kind_regex') and (vkind is None or not _re.search(k['kind_regex'], vkind)):
            continue
        return k
    return None


class Item:
    """one obligation of any back end, with its verdict"""
    def __init__(self, oid, cid, kind, label, tier='P', level='property', lineno=0, func=''):
        self.id = oid
        self.cid = cid
        self.kind = kind
        self.label = label
        self.tier = tier
        self.level = level
        self.lineno = lineno
        self.func = func
        self.result = None      # unsat | sat | unknown
        self.backend = ''
        self.time = 0.0
        self.reason = ''
        self.detail = ''
        self.values = None
        self.smt_head = ''
        self.ob = None
        self.fr = None
        self.expect = 'unsat'   # cover jobs expect sat


def run_check(prop, tier, seed):
    import z3
    from .verify import verify_function
    from .smt import obligation_smt2, discharge
    from .values import Unsupported
    t_start = time.time()
    timeout = 10 if tier == 'quick' else 60
    reg, m = load_property(prop)
    known = load_known()
    items = []
    jobs = []
    job_items = []
    ob_axioms = {}
    functions = []
    undecided = []
    unsupported_frs = []
    assumptions = set(getattr(m, 'TRUSTED', []))
    bounded_notes = []
    dropped = []
    covers = []
    failures = []
    contracts = list(m.CONTRACTS)
    if hasattr(m, 'dynamic_contracts'):
        # contracts instantiated per definition found in the current tree (e.g. every override of a method)
        contracts += list(m.dynamic_contracts(REPO))
    for c in contracts:
        if c.tier == 'thorough-only' and tier != 'thorough':
            continue
        try:
            fr = verify_function(c, reg, REPO)
        except Exception:
            failures.append('engine crash on %s: %s' % (c.id, traceback.format_exc(limit=8)))
            continue
        functions.append({'contract': c.id, 'file': c.file, 'qualname': c.qualname,
                          'sha256': fr.sha256, 'span': list(fr.span), 'status': fr.status,
                          'tier': c.tier, 'obligations': len(fr.obligations),
                          'paths': fr.paths if hasattr(fr, 'paths') else 0,
                          'generation_s': round(fr.gen_s, 3), 'clause': c.clause})
        if fr.status != 'ok':
            undecided.append('%s: %s' % (c.id, fr.reason))
            unsupported_frs.append((fr, c))
        for a in fr.assumed:
            assumptions.add('assumed callee contract: ' + a)
        for a in c.assumes:
            assumptions.add(a)
        dropped.extend(fr.dropped)
        bounded_notes.extend(fr.bounded)
        if fr.status == 'ok' and not fr.obligations:
            failures.append('%s generated zero obligations' % c.id)
        if c.expect_obligations is not None and fr.status == 'ok' and len(fr.obligations) < c.expect_obligations:
            undecided.append('%s: only %d obligations generated (registered minimum %d) - function shape changed'
                             % (c.id, len(fr.obligations), c.expect_obligations))
        V = fr.verifier
        terms = {}
        extras = []
        if V is not None and c.replay is not None and V.entry is not None:
            for name, expr in (c.witness or {}).items():
                try:
                    est = V.entry.fork()
                    n0 = len(est.pc)
                    v = V.eval_spec(expr, est)
                    if not hasattr(v, 'z'):
                        from .values import type_of, as_sv
                        v = as_sv(v, type_of(v))
                    terms[name] = v
                    extras.extend(est.pc[n0:])
                except Unsupported:
                    pass
        fr.terms = terms
        for o in fr.obligations:
            it = Item(o.id, c.id, o.kind, o.label, tier=('SB' if fr.bounded else c.tier),
                      level=o.level, lineno=o.lineno, func=c.qualname)
            it.ob = o
            it.fr = fr
            items.append(it)
            smt2 = obligation_smt2(fr.axioms + extras, o, {k: v.z for k, v in terms.items()})
            ob_axioms[o.id] = fr.axioms + extras
            it.smt_head = smt2[:600]
            jobs.append(smt2)
            job_items.append(it)
        # vacuity covers: some normal exit and each declared exceptional exit must be reachable
        if V is not None and fr.status == 'ok' and c.cover:
            seen = set()
            for kind, st, val in V.exits:
                if kind in seen:
                    continue
                seen.add(kind)
                it = Item('%s/cover:%s' % (c.id, kind), c.id, 'cover', 'exit %s reachable under requires+axioms' % kind)
                it.expect = 'sat'
                it.fr = fr
                covers.append(it)
                from .smt import exprs_to_smt2
                jobs.append(exprs_to_smt2(list(fr.axioms) + list(st.pc)))
                job_items.append(it)
            if not V.exits:
                failures.append('%s: no exit path at all (vacuous)' % c.id)
    # lemmas
    for lem in getattr(m, 'LEMMAS', []):
        try:
            for (lid, label, axioms, pc, goal) in lem(reg):
                it = Item('%s/lemma:%s' % (prop, lid), prop + '.lemma', 'lemma', label)
                items.append(it)
                from .smt import exprs_to_smt2
                smt2 = exprs_to_smt2(list(axioms) + list(pc) + [z3.Not(goal)])
                it.smt_head = smt2[:600]
                jobs.append(smt2)
                job_items.append(it)
        except Exception:
            failures.append('lemma generator crashed: %s' % traceback.format_exc(limit=5))
    # structural (inventory) obligations: decided on the AST of the current tree
    for sfn in getattr(m, 'STRUCTURAL', []):
        try:
            for r in sfn(REPO):
                it = Item('%s/%s' % (prop, r['id']), r.get('contract', prop + '.inventory'),
                          r.get('kind', 'inventory'), r['label'])
                it.backend = 'ast'
                ok = r['ok']
                if ok is False and not r.get('definite', False):
                    # the expected text was not found, but no recognised violating pattern either: the shape of the
                    # anchored code changed (a renamed local, an added statement ...) -> undecided, never an alarm
                    ok = None
                    it.reason = 'shape of the anchored code changed: expected form not found, no recognised violation'
                it.result = {True: 'unsat', False: 'sat', None: 'unknown'}[ok]
                it.detail = r.get('detail', '')
                it.structural = True
                items.append(it)
        except Exception:
            failures.append('structural check crashed: %s' % traceback.format_exc(limit=5))
    # discharge
    t_solve = time.time()
    if tier == 'thorough':
        os.environ['PYVC_CROSSCHECK'] = '1'     # every `unsat` is re-submitted to the other solvers
    results = discharge(jobs, timeout_s=timeout)
    cross = {'unsat_rechecked': 0, 'confirmed_by_second_solver': 0, 'disagreements': 0}
    # a verdict must not flip because the machine is busy: obligations that ran out of time get one more
    # attempt, alone, with four times the budget
    retry = [i for i, r in enumerate(results) if r['result'] == 'unknown' and 'timeout' in (r.get('reason') or '')]
    if retry:
        again = discharge([jobs[i] for i in retry], timeout_s=timeout * 4, procs=min(4, len(retry)))
        for i, r2 in zip(retry, again):
            if r2['result'] != 'unknown':
                r2['idx'] = results[i]['idx']
                r2['time'] += results[i]['time']
                results[i] = r2
    solver_wall = time.time() - t_solve
    solver_cpu = 0.0
    for it, r in zip(job_items, results):
        it.result = r['result']
        it.backend = r['backend']
        it.time = r['time']
        it.reason = r.get('reason', '')
        it.values = r.get('values')
        it.values_sexpr = r.get('values_sexpr')
        solver_cpu += r['time']
        if 'confirmed_by' in r:
            cross['unsat_rechecked'] += 1
            cross['confirmed_by_second_solver'] += 1 if r['confirmed_by'] else 0
            if r.get('disagreement'):
                cross['disagreements'] += 1
                failures.append('%s: %s' % (it.id, r['reason']))
    # hypotheses guard: an `unsat` whose path condition alone is refuted by z3 but not by cvc5 is withdrawn
    from .smt import hypotheses_guard
    unsat_items = [it for it in job_items if it.result == 'unsat' and it.ob is not None]
    withdrawn, hyp_stats = hypotheses_guard(lambda ob: ob_axioms[ob.id], [it.ob for it in unsat_items])
    for it in unsat_items:
        if it.ob.id in withdrawn:
            it.result = 'unknown'
            it.reason = withdrawn[it.ob.id]
    # refutation search for obligations neither solver decided: a candidate input from a
    # weakened query or from the contract's witness library counts only if the real code,
    # run on it, violates the executable contract (replay verdict `confirmed`)
    os.makedirs(os.path.join(HERE, 'replays'), exist_ok=True)
    unknown_items = [it for it in items if it.result == 'unknown' and it.ob is not None
                     and it.fr.contract.replay is not None]
    if unknown_items:
        from .smt import weakened_smt2
        wjobs = [weakened_smt2(it.fr.axioms, it.ob, {k: v.z for k, v in it.fr.terms.items()})
                 for it in unknown_items]
        wres = discharge(wjobs, timeout_s=min(timeout, 10))
        tried_library = set()
        for it, r in zip(unknown_items, wres):
            solver_cpu += r['time']
            cands = []
            if r['result'] == 'sat':
                it2 = Item(it.id, it.cid, it.kind, it.label)
                it2.fr = it.fr
                it2.values = r.get('values')
                it2.values_sexpr = r.get('values_sexpr')
                inp = decode_inputs(it2)
                if inp is not None:
                    cands.append(('weakened-query model', inp))
            if it.cid not in tried_library:
                tried_library.add(it.cid)
                for w in it.fr.contract.witness_library:
                    cands.append(('witness library', w))
            for origin, inp in cands:
                path = os.path.join(HERE, 'replays', 'candidate.json')
                with open(path, 'w') as f:
                    json.dump({'property': prop, 'obligation': it.id, 'contract': it.cid, 'inputs': inp}, f,
                              default=repr)
                res = run_replay(path)
                if res.get('verdict') == 'confirmed':
                    it.result = 'sat'
                    it.backend = 'replay(%s)' % origin
                    it.refuted_by = {'origin': origin, 'inputs': inp, 'replay': res}
                    break
    # bounded refutation: obligations still undecided are re-generated with every sequence-typed input
    # instantiated to a list of 1 and of 2 symbolic elements. Such an instance is an instance of the same
    # verification condition with the quantifiers expanded, so a counter-model of it IS a counter-model of the
    # obligation; finding none proves nothing and the obligation stays undecided.
    still = [it for it in items if it.result == 'unknown' and it.ob is not None]
    by_contract = {}
    for it in still:
        by_contract.setdefault(it.cid, []).append(it)
    for cid, its in by_contract.items():
        c0 = its[0].fr.contract
        if c0.shape:
            continue
        from .types import SeqT as _SeqT, OptT as _OptT
        seqnames = [n for n, t in list(c0.params.items()) + list(c0.ghost.items()) +
                    [(k, v) for k, v in c0.free.items() if isinstance(v, (_SeqT, _OptT))]
                    if isinstance(t, _SeqT) or (isinstance(t, _OptT) and isinstance(t.inner, _SeqT))]
        if not seqnames:
            continue
        import copy as _copy
        for n in (1, 2):
            c2 = _copy.copy(c0)
            c2.shape = {nm: n for nm in seqnames}
            c2.id = c0.id
            try:
                fr2 = verify_function(c2, reg, REPO)
            except Exception:
                continue
            if fr2.status != 'ok':
                continue
            wanted = {(it.kind, it.label) for it in its if it.result == 'unknown'}
            obs = [o for o in fr2.obligations if (o.kind, o.label) in wanted]
            if not obs:
                continue
            rs = discharge([obligation_smt2(fr2.axioms, o) for o in obs], timeout_s=min(timeout, 10))
            for o, r in zip(obs, rs):
                solver_cpu += r['time']
                if r['result'] == 'sat':
                    for it in its:
                        if it.result == 'unknown' and (it.kind, it.label) == (o.kind, o.label):
                            it.result = 'sat'
                            it.backend = '%s (bounded instance, sequences of length %d)' % (r['backend'], n)
                            it.reason += ' | refuted on a bounded instance of the same obligation'
                            it.values = None
                            it.values_sexpr = None
                            break
    # functions whose obligations could not be generated (construct outside the subset, changed shape): no proof and no
    # alarm from the proof side - but the contract's executable form can still be evaluated on the real code over its
    # witness library; an input on which the REAL function violates it is a violation with a replayed failing input
    os.makedirs(os.path.join(HERE, 'replays'), exist_ok=True)
    for fr_, c_ in list(unsupported_frs):
        if c_.replay is None or not c_.witness_library:
            continue
        for w in c_.witness_library:
            path = os.path.join(HERE, 'replays', 'candidate.json')
            with open(path, 'w') as f:
                json.dump({'property': prop, 'obligation': c_.id + '/library', 'contract': c_.id, 'inputs': w}, f,
                          default=repr)
            res = run_replay(path)
            if res.get('verdict') == 'confirmed':
                it = Item(c_.id + '/library', c_.id, 'post',
                          'no verification condition could be generated for this function (%s); on the real code its '
                          'executable contract FAILS for an input of the witness library: %s'
                          % (fr_.reason[:120], '; '.join(res.get('violated', []))[:300]), tier=c_.tier, func=c_.qualname)
                it.fr = fr_
                it.ob = None
                it.result = 'sat'
                it.backend = 'replay(witness library)'
                it.refuted_by = {'origin': 'witness library', 'inputs': w, 'replay': res}
                items.append(it)
                break
    # vacuity
    for it in covers:
        if it.result == 'unsat':
            failures.append('vacuity: %s is unreachable (contradictory requires/axioms?)' % it.id)
    # bounded stand-ins (thorough tier only; never counted as proved)
    bounded = []
    for bfn in getattr(m, 'BOUNDED', []):
        # a stand-in declares the tiers it runs in (attribute `tiers`, default: thorough only)
        if tier not in getattr(bfn, 'tiers', ('thorough',)):
            continue
        try:
            bounded.append(bfn(REPO, seed, tier))
        except Exception:
            failures.append('bounded stand-in crashed: %s' % traceback.format_exc(limit=5))
    # verdicts
    violations = []
    known_lines = []
    n_obl = 0
    n_dis = 0
    known_obls = []
    for it in items:
        if it.result == 'unsat':
            n_obl += 1
            n_dis += 1
            continue
        if it.result == 'sat':
            k = match_known(known, prop, it.cid, it.kind, it.label)
            if k is not None:
                known_obls.append(it.id)
                line = 'KNOWN-FINDING: property=%s %s' % (prop, k['what'])
                if line not in known_lines:
                    known_lines.append(line)
                continue
            n_obl += 1
            violations.append(it)
            continue
        n_obl += 1
        undecided.append('%s: %s (%s)' % (it.id, it.result, it.reason[:160]))
    for b in bounded:
        reported = set()
        n_known = 0
        for v in b.get('violations', []):
            k = match_known(known, prop, b.get('contract', ''), 'bounded', v.get('label', ''), str(v.get('input', '')),
                            str(v.get('observed', '')), str(v.get('kind', '')))
            if k is not None:
                n_known += 1
                line = 'KNOWN-FINDING: property=%s %s' % (prop, k['what'])
                if line not in known_lines:
                    known_lines.append(line)
                continue
            if v.get('label', '') in reported:
                continue            # one VIOLATION line per failure class; all cases are in the evidence
            reported.add(v.get('label', ''))
            it = Item('%s/bounded:%s:%d' % (prop, b['name'], len(reported)), b.get('contract', ''), 'bounded',
                      v.get('label', ''))
            it.result = 'sat'
            it.backend = 'cpython'
            it.concrete = v
            violations.append(it)
        b['violations_matching_known_findings'] = n_known
        b['violations'] = b.get('violations', [])[:12]
    # replay counter-models
    os.makedirs(os.path.join(HERE, 'replays'), exist_ok=True)
    vio_lines = []
    for it in violations:
        path, suffix = write_replay(prop, it, m)
        vio_lines.append('VIOLATION property=%s replay=%s%s' % (prop, path, suffix))
    wall = time.time() - t_start
    # evidence
    by_kind = {}
    by_backend = {}
    for it in items:
        by_kind[it.kind] = by_kind.get(it.kind, 0) + 1
        if it.result == 'unsat':
            by_backend[it.backend] = by_backend.get(it.backend, 0) + 1
    samples = []
    for it in items[:3] + items[len(items) // 2: len(items) // 2 + 2]:
        samples.append({'id': it.id, 'kind': it.kind, 'function': it.func, 'line': it.lineno,
                        'label': it.label, 'result': it.result, 'backend': it.backend,
                        'smt2_head': it.smt_head[:400]})
    trusted = sorted(set(getattr(m, 'TRUSTED', [])) | {
        'CPython semantics as encoded by PyVC (DESIGN.md 2.4); integers mathematical',
        'PyVC itself (engine cross-checked by seeded breakage, selftest)', 'z3 5.1 / cvc5 1.0.3',
        'python ast module',
    })
    ev = {
        'property_id': prop,
        'tier': tier,
        'seed': seed,
        'level': 'proof',
        'coverage': {
            'obligations': n_obl,
            'discharged': n_dis,
            'checker_cmd': './check %s --tier %s' % (prop, tier),
            'tree': tree_identity(),
            'trusted_base': trusted,
            'samples': samples,
            'functions': functions,
            'obligations_by_kind': by_kind,
            'discharged_by_backend': by_backend,
            'solver_cpu_s': round(solver_cpu, 2),
            'solver_wall_s': round(solver_wall, 2),
            'per_query_timeout_s': timeout,
            'solver_cross_check': cross if tier == 'thorough' else 'thorough tier only',
            'hypotheses_guard': hyp_stats,
            'vacuity_covers': {'checked': len(covers), 'reachable': sum(1 for c in covers if c.result == 'sat'),
                               'undecided': sum(1 for c in covers if c.result == 'unknown')},
            'known_finding_obligations': known_obls,
            'bounded': {'symbolic_unroll_bounds': sorted(set(bounded_notes)), 'concrete_stand_ins': bounded,
                        'note': 'bounded items are never counted in obligations/discharged'},
            'dropped_calls': sorted(set(dropped)),
            'undecided': undecided,
            'not_decided': getattr(m, 'NOT_DECIDED', []),
        },
        'assumptions': sorted(assumptions),
        'wall_s': round(wall, 2),
        'violations': len(violations),
    }
    os.makedirs(EVIDENCE_DIR, exist_ok=True)
    with open(os.path.join(EVIDENCE_DIR, prop + '.json'), 'w') as f:
        json.dump(ev, f, indent=1, default=repr)
    for k_ in known:
        # every listed finding is announced on every run; findings that depend on hash seed / heap layout (or whose
        # stand-in only runs in the other tier) may not have been observed this time
        if k_.get('status') == 'known' and k_.get('property') == prop:
            line = 'KNOWN-FINDING: property=%s %s' % (prop, k_['what'])
            if line not in known_lines:
                known_lines.append(line + ' [not observed in this run]')
    for line in known_lines:
        print(line)
    print('%s tier=%s functions=%d obligations=%d discharged=%d violations=%d undecided=%d wall=%.1fs'
          % (prop, tier, len(functions), n_obl, n_dis, len(violations), len(undecided), wall))
    if vio_lines:
        # a violation established by one obligation stands whatever happened to another part of the check
        for v in vio_lines:
            print(v)
        for fl in failures:
            print('CHECKER-FAILURE:', fl)
        return 1
    if failures:
        for fl in failures:
            print('CHECKER-FAILURE:', fl)
        return 3
    if undecided:
        for u in undecided[:20]:
            print('UNDECIDED:', u)
        return 2
    return 0


def decode_inputs(it):
    from .model import parse, decode, Undecodable
    fr = it.fr
    if fr is None or not getattr(fr, 'terms', None):
        return None
    out = {}
    try:
        if it.values:
            for name, sx in it.values.items():
                out[name] = decode(parse(sx)[0], fr.terms[name].t)
        elif getattr(it, 'values_sexpr', None):
            for name, x in it.values_sexpr.items():
                out[name] = decode(x, fr.terms[name].t)
        else:
            return None
    except (Undecodable, KeyError, IndexError) as e:
        it.reason += ' | model not decodable: %s' % e
        return None
    return out


def write_replay(prop, it, module):
    safe = it.id.replace('/', '_').replace('#', '-').replace(':', '-').replace(' ', '_')
    path = os.path.join(HERE, 'replays', '%s.json' % safe)
    data = {'property': prop, 'obligation': it.id, 'contract': it.cid, 'function': it.func,
            'kind': it.kind, 'label': it.label, 'line': it.lineno, 'level': it.level,
            'solver': {'backend': it.backend, 'result': it.result, 'reason': it.reason,
                       'model': it.values or getattr(it, 'values_sexpr', None)},
            'smt2_head': it.smt_head, 'detail': it.detail}
    suffix = ' no-failing-input-found'
    if getattr(it, 'structural', False):
        data['kind_of_check'] = 'structural'
    elif getattr(it, 'concrete', None) is not None:
        data['kind_of_check'] = 'bounded'
        data['concrete'] = it.concrete
        suffix = ''
    elif getattr(it, 'refuted_by', None) is not None:
        data['inputs'] = it.refuted_by['inputs']
        data['found_by'] = it.refuted_by['origin']
    else:
        inputs = decode_inputs(it)
        data['inputs'] = inputs
    with open(path, 'w') as f:
        json.dump(data, f, indent=1, default=repr)
    if data.get('kind_of_check') is None:
        # candidates: the solver's model first, then the contract's witness library; the first input
        # on which the real code violates the executable contract becomes the replay
        cands = []
        if data.get('inputs') is not None:
            cands.append((data.get('found_by', 'solver model'), data['inputs']))
        fr = it.fr
        if fr is not None and fr.contract.replay is not None:
            for w in fr.contract.witness_library:
                cands.append(('witness library', w))
        tried = []
        for origin, inp in cands:
            data['inputs'] = inp
            data['found_by'] = origin
            with open(path, 'w') as f:
                json.dump(data, f, indent=1, default=repr)
            res = run_replay(path)
            tried.append({'origin': origin, 'verdict': res.get('verdict')})
            if res.get('verdict') == 'confirmed':
                data['replay'] = res
                suffix = ''
                break
        else:
            if cands:
                data['inputs'] = cands[0][1]
                data['found_by'] = cands[0][0]
        data['candidates_tried'] = tried
        with open(path, 'w') as f:
            json.dump(data, f, indent=1, default=repr)
    return path, suffix


def run_replay(path):
    env = dict(os.environ)
    env['JEDI_REPO'] = REPO
    env['PYTHONPATH'] = HERE
    try:
        p = subprocess.run([sys.executable, '-m', 'pyvc.replay', path], capture_output=True, text=True,
                           timeout=120, env=env, cwd=HERE)
        line = p.stdout.strip().splitlines()[-1] if p.stdout.strip() else ''
        return json.loads(line) if line else {'verdict': 'error', 'detail': p.stderr[-800:]}
    except Exception as e:
        return {'verdict': 'error', 'detail': str(e)}


def main():
    ap = argparse.ArgumentParser()
    ap.add_argument('prop')
    ap.add_argument('--tier', default=os.environ.get('VERIF_TIER', 'quick'))
    ap.add_argument('--replay')
    a = ap.parse_args()
    seed = int(os.environ.get('VERIF_SEED', '0') or 0)
    if a.replay:
        res = run_replay(a.replay)
        print(json.dumps(res, indent=1))
        return 1 if res.get('verdict') == 'confirmed' else 0
    try:
        return run_check(a.prop.upper(), a.tier, seed)
    except Exception:
        traceback.print_exc()
        return 3


if __name__ == '__main__':
    sys.exit(main())
