"""developer runner: verify contracts of one module and print every obligation"""
import sys, importlib, time
import z3
from .verify import Registry, verify_function
from .smt import obligation_smt2, discharge, get_model

def load(modname):
    from .check import load_property
    return load_property(modname)

def main():
    modname = sys.argv[1]
    only = sys.argv[2] if len(sys.argv) > 2 else None
    reg, m = load(modname)
    for c in m.CONTRACTS:
        if only and only not in c.id:
            continue
        t0 = time.time()
        r = verify_function(c, reg)
        print('==', c.id, r.status, r.reason, 'obligations:', len(r.obligations), 'gen %.2fs' % r.gen_s)
        jobs = [obligation_smt2(r.axioms, o) for o in r.obligations]
        res = discharge(jobs, timeout_s=10)
        for o, x in zip(r.obligations, res):
            print('  %-40s %-8s %-6s %-5s %.2fs L%s %s' % (o.id, o.kind, x['result'], x['backend'], x['time'], o.lineno, o.label[:90]))
            if x['result'] == 'sat':
                mdl = get_model(r.axioms, o)
                if mdl is not None:
                    for k, v in r.verifier.inputs.items():
                        print('       ', k, '=', mdl.eval(v.z, model_completion=True))
        print('   covers', r.covers, 'assumed', r.assumed, 'bounded', r.bounded, 'total %.2fs' % (time.time()-t0))

if __name__ == '__main__':
    main()
