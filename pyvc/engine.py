"""PyVC symbolic executor: Python `ast` of the real function -> proof obligations.

Forward symbolic execution with path splitting at branches, state merging at
joins, contracts at call sites (callee bodies are not inlined unless the
contract lists them under `inline`), loop invariants over the ghost
decomposition  seq == DONE ++ [ITEM] ++ REST, exceptions as outcomes.
See DESIGN.md §2.
"""
import ast
import z3

from .types import PATH
from .types import (Ty, INT, BOOL, STR, ANY, NONE, OptT, TupT, SeqT, SetT, DictT, ObjT, POS,
                    sort_of, opt_none, opt_some, opt_is_none, opt_val, tup_mk, tup_get, Ref)
from .values import simp
from .values import (Unsupported, SV, MNONE, MTup, MList, MDict, MFn, MCls, MNS, MU, MExc,
                     fresh, fresh_name, const, type_of, unify_types, pack, as_sv, unify_values,
                     tuple_items, truthy, is_none, strip_opt, py_eq, py_lt, ite,
                     FAMILY_EQ_STR, FAMILY_EQ)
from .values import MFrozen, MDictV, MEnum, MRev, MZip, MRange, MAlias, MSubAlias
from .spec import FnSpec, Family, Contract

NORMAL, RETURN, RAISE, BREAK, CONTINUE = 'normal', 'return', 'raise', 'break', 'continue'

# exception class hierarchy (name -> bases); repo classes are added by contracts
EXC_BASES = {
    'BaseException': (), 'Exception': ('BaseException',),
    'ArithmeticError': ('Exception',), 'ZeroDivisionError': ('ArithmeticError',),
    'LookupError': ('Exception',), 'IndexError': ('LookupError',), 'KeyError': ('LookupError',),
    'ValueError': ('Exception',), 'TypeError': ('Exception',), 'AttributeError': ('Exception',),
    'AssertionError': ('Exception',), 'StopIteration': ('Exception',),
    'NameError': ('Exception',), 'UnboundLocalError': ('NameError',),
    'OSError': ('Exception',), 'FileNotFoundError': ('OSError',), 'BrokenPipeError': ('OSError',),
    'ConnectionError': ('OSError',), 'PermissionError': ('OSError',), 'NotADirectoryError': ('OSError',),
    'IsADirectoryError': ('OSError',),
    'EOFError': ('Exception',), 'RuntimeError': ('Exception',), 'RecursionError': ('RuntimeError',),
    'NotImplementedError': ('RuntimeError',), 'ImportError': ('Exception',),
    'ModuleNotFoundError': ('ImportError',), 'SystemError': ('Exception',),
    'UnicodeDecodeError': ('ValueError',), 'UnpicklingError': ('Exception',),
    'SyntaxError': ('Exception',), 'KeyboardInterrupt': ('BaseException',),
    'SystemExit': ('BaseException',), 'GeneratorExit': ('BaseException',),
}


def exc_is_subclass(name, base):
    if name == base:
        return True
    seen = set()
    todo = [name]
    while todo:
        n = todo.pop()
        if n in seen:
            continue
        seen.add(n)
        for b in EXC_BASES.get(n, ('Exception',) if n not in ('BaseException',) else ()):
            if b == base:
                return True
            todo.append(b)
    return False


class Outcome:
    __slots__ = ('kind', 'st', 'val')

    def __init__(self, kind, st, val=None):
        self.kind = kind
        self.st = st
        self.val = val


class State:
    def __init__(self):
        self.pc = []
        self.env = {}
        self.heap = {}
        self.ghost = {}
        self.facts = set()      # ids of pc conjuncts that are consequences (definitions of fresh symbols, callee
        #                         postconditions, proved goals), not branch decisions

    def fork(self):
        s = State()
        s.facts = set(self.facts)
        s.pc = list(self.pc)
        s.env = dict(self.env)
        s.heap = dict(self.heap)
        s.ghost = dict(self.ghost)
        return s

    def assume(self, c):
        if z3.is_true(c):
            return
        self.pc.append(c)

    def fact(self, c):
        """assume a consequence: it stays in the path condition (guarded by the decisions before it) but is never
        used as the selector of a merged value, so that quantifiers do not end up in if-then-else conditions"""
        if z3.is_true(c):
            return
        self.pc.append(c)
        self.facts.add(c.get_id())

    def become(self, other):
        self.facts = other.facts
        self.pc = other.pc
        self.env = other.env
        self.heap = other.heap
        self.ghost = other.ghost


class Obligation:
    def __init__(self, oid, kind, label, pc, goal, lineno, func, level):
        self.id = oid
        self.kind = kind
        self.label = label
        self.pc = pc
        self.goal = goal
        self.lineno = lineno
        self.func = func
        self.level = level      # 'property' or 'proof'
        self.tier = 'P'
        self.inputs = {}        # name -> z3 term for model extraction


PROPERTY_KINDS = {'post', 'raises', 'frame', 'effect', 'lemma', 'inventory', 'safety', 'call-pre'}


class Verifier:
    """Verifies one function (one Contract) and collects obligations."""

    def __init__(self, contract, func_ast, module_ast, registry, spec_fns=None, tier_bounds=None):
        self.c = contract
        self.func = func_ast
        self.module = module_ast
        self.reg = registry                 # Registry: families, shared callee specs, spec fns
        self.spec_fns = dict(registry.spec_fns)
        if spec_fns:
            self.spec_fns.update(spec_fns)
        self.obligations = []
        self.axioms = []                   # global assumptions (z3 Bool), incl. quantified
        self.ground_axioms = []            # quantifier-free ones, used for feasibility pruning
        self.exc_out = []
        self.try_stack = []                # list of lists of handler class names
        self.spec_mode = 0
        self.ufs = {}
        self.loop_ordinal = 0
        self.assumed_used = set()
        self.dropped_calls = []
        self.bounded_notes = []
        self.entry = None
        self.inline_depth = 0
        self.frames = []                   # stack of dicts for inline call frames
        self.module_consts = None
        self.covers = {'normal': False, 'raises': {}}
        self.exits = []
        self.old_stack = []
        self._feas_cache = {}
        self.n_paths = 0
        self.quant_vars = []

    # ------------------------------------------------------------------ utils
    def uf(self, name, arg_sorts, ret_sort):
        k = name
        if k not in self.ufs:
            # 'u.' prefix keeps user names clear of SMT-LIB reserved words (match, str.*, ...)
            self.ufs[k] = z3.Function('u.' + name, *(list(arg_sorts) + [ret_sort]))
        return self.ufs[k]

    def feasible(self, pc):
        if not pc:
            return True
        key = tuple(c.get_id() for c in pc)
        if key in self._feas_cache:
            return self._feas_cache[key]
        s = z3.Solver()
        s.set('timeout', 1500)
        for a in self.ground_axioms:
            s.add(a)
        for c in pc:
            s.add(c)
        import threading
        wd = threading.Timer(6.0, z3.main_ctx().interrupt)      # z3's own timeout is not honoured in every phase
        wd.daemon = True
        wd.start()
        try:
            r = s.check()
        except z3.Z3Exception:
            r = z3.unknown
        finally:
            wd.cancel()
        res = r != z3.unsat
        self._feas_cache[key] = res
        return res

    def oblige(self, st, goal, kind, label, node=None, assume=True):
        if self.spec_mode:
            return
        if z3.is_true(goal):
            return
        lineno = getattr(node, 'lineno', 0) if node is not None else 0
        oid = '%s/%s#%d' % (self.c.id, kind, len(self.obligations))
        level = 'property' if kind in PROPERTY_KINDS else 'proof'
        o = Obligation(oid, kind, label, list(st.pc), goal, lineno, self.c.qualname, level)
        self.obligations.append(o)
        if assume:
            st.fact(goal)

    def catchable(self, cls):
        """is an exception of class `cls` caught by an enclosing try, or declared in `raises`?"""
        for handlers in self.try_stack:
            for h in handlers:
                if h is None or exc_is_subclass(cls, h):
                    return True
        if self.inline_depth == 0 or True:
            for r in self.c.raises:
                if exc_is_subclass(cls, r):
                    return True
        return False

    def may_raise(self, st, cond_ok, cls, label, node, args=()):
        """operation is fine iff cond_ok; otherwise raises cls."""
        if self.spec_mode:
            return
        if z3.is_true(cond_ok):
            return
        if self.catchable(cls):
            bad = st.fork()
            bad.assume(z3.Not(cond_ok))
            if self.feasible(bad.pc):
                self.exc_out.append((bad, MExc(cls, args)))
            st.assume(cond_ok)
        else:
            if self.c.safety:
                self.oblige(st, cond_ok, 'safety', '%s: %s' % (cls, label), node)
            else:
                st.assume(cond_ok)

    # --------------------------------------------------------------- live objects (C13)
    def is_live(self, v):
        if isinstance(v, SV):
            t = v.t.inner if isinstance(v.t, OptT) else v.t
            return isinstance(t, ObjT) and t.family == 'Live'
        return False

    def fresh_live(self):
        return fresh(ObjT('Live'), 'live')

    def live_effect(self, st, label, operand, node):
        """an operation on a live Python object that may run user code (a user-defined special method,
        property getter or descriptor): an effect obligation, discharged only under the contract's guard"""
        if self.spec_mode:
            return
        from . import calls
        calls.add_effect(self, st, label, node, operand=strip_opt(operand) if isinstance(operand, SV) else operand)

    def truth_test(self, st, v, node):
        if self.is_live(v):
            self.live_effect(st, 'user:bool', v, node)
        return truthy(v)

    # --------------------------------------------------------------- heap/attrs
    def family(self, name):
        f = self.reg.families.get(name)
        if f is None:
            raise Unsupported('unknown object family %s' % name)
        return f

    def heap_get(self, st, fam, field):
        k = (fam, field)
        if k not in st.heap:
            t = self.family(fam).fields[field]
            st.heap[k] = z3.Const('heap0_%s_%s' % (fam, field), z3.ArraySort(Ref, sort_of(t)))
        return st.heap[k]

    def heap0(self, fam, field):
        t = self.family(fam).fields[field]
        return z3.Const('heap0_%s_%s' % (fam, field), z3.ArraySort(Ref, sort_of(t)))

    def get_attr(self, st, obj, attr, node):
        if isinstance(obj, MU):
            obj = self.check_bound(st, obj, node)
        if isinstance(obj, MNS):
            if attr in obj.members:
                return obj.members[attr]
            raise Unsupported('unknown member %s.%s' % (obj.name, attr))
        if obj is MNONE:
            self.may_raise(st, z3.BoolVal(False), 'AttributeError', 'None.%s' % attr, node)
            raise Unsupported('attribute of None')
        if isinstance(obj, MExc):
            if attr == 'args':
                return MTup(obj.args)
            raise Unsupported('exception attribute %s' % attr)
        if isinstance(obj, SV):
            if isinstance(obj.t, OptT):
                self.may_raise(st, z3.Not(opt_is_none(obj.t, obj.z)), 'AttributeError',
                               'Optional value may be None at .%s' % attr, node)
                obj = strip_opt(obj)
            if isinstance(obj.t, ObjT) and obj.t.family == 'Live':
                fam = self.family('Live')
                if attr in fam.methods:
                    return MFn('bound', attr, self_val=obj, spec=fam.methods[attr])
                self.live_effect(st, 'user:getattr:' + attr, obj, node)
                f = self.uf('Live.getattr:' + attr, [Ref], Ref)
                return SV(ObjT('Live'), f(obj.z))
            if isinstance(obj.t, ObjT):
                fam = self.family(obj.t.family)
                if attr in fam.attr_requires and not self.spec_mode:
                    ok = truthy(self.eval_spec(fam.attr_requires[attr], st, {'o': obj}))
                    self.may_raise(st, ok, 'AttributeError', '%s object may lack .%s' % (fam.name, attr), node)
                if attr in fam.attrs:
                    t = fam.attrs[attr]
                    f = self.uf('%s.%s' % (fam.name, attr), [Ref], sort_of(t))
                    r = SV(t, f(obj.z))
                    if isinstance(t, (SeqT, SetT, DictT)) and not self.spec_mode:
                        # a container the contract declares IMMUTABLE (attribute, not field): it is owned by the object;
                        # mutating it in place through a local alias is a frame violation (copies are fine)
                        r.shared = '%s.%s' % (fam.name, attr)
                    return r
                if attr in fam.fields:
                    t = fam.fields[attr]
                    return SV(t, z3.Select(self.heap_get(st, fam.name, attr), obj.z))
                if attr in fam.methods:
                    return MFn('bound', attr, self_val=obj, spec=fam.methods[attr])
                raise Unsupported('family %s has no attribute %s' % (fam.name, attr))
            if obj.t == PATH:
                from . import paths
                r = paths.path_attr(self, st, obj, attr, node)
                if r is not None:
                    return r
            return MFn('method', attr, self_val=obj)
        if isinstance(obj, (MList, MTup)):
            return MFn('method', attr, self_val=obj)
        if isinstance(obj, MCls):
            raise Unsupported('class attribute %s.%s' % (obj.name, attr))
        raise Unsupported('attribute %s of %r' % (attr, obj))

    def set_attr(self, st, obj, attr, val, node):
        if isinstance(obj, SV) and isinstance(obj.t, OptT):
            self.may_raise(st, z3.Not(opt_is_none(obj.t, obj.z)), 'AttributeError',
                           'Optional value may be None at .%s =' % attr, node)
            obj = strip_opt(obj)
        if isinstance(obj, SV) and isinstance(obj.t, ObjT):
            fam = self.family(obj.t.family)
            if attr in fam.fields:
                t = fam.fields[attr]
                arr = self.heap_get(st, fam.name, attr)
                st.heap[(fam.name, attr)] = z3.Store(arr, obj.z, pack(val, t))
                return
            raise Unsupported('assignment to non-field %s.%s' % (fam.name, attr))
        raise Unsupported('attribute assignment on %r' % (obj,))

    # ------------------------------------------------------------------ names
    def lookup(self, st, name, node):
        if name in st.env:
            v = st.env[name]
            if isinstance(v, MU):
                v = self.check_bound(st, v, node, name)
            if isinstance(v, MAlias):
                return self.get_attr(st, v.obj, v.attr, node)
            if isinstance(v, MSubAlias):
                outer = self.ev(v.outer_expr, st)
                srt = sort_of(outer.t)
                return SV(v.inner_t, z3.Select(srt.vals(outer.z), pack(v.key, outer.t.k)))
            return v
        for fr in reversed(self.frames):
            if name in fr:
                v = fr[name]
                if isinstance(v, MU):
                    v = self.check_bound(st, v, node, name)
                return v
        if self.local_names and name in self.local_names[-1] and not self.spec_mode:
            # assigned somewhere in this function but not on this path
            self.may_raise(st, z3.BoolVal(False), 'UnboundLocalError', 'local %s unbound' % name, node)
            raise Unsupported('use of unbound local %s' % name)
        if name in self.c.names:
            return self.wrap_name(name, self.c.names[name])
        if name in self.spec_fns:
            return self.spec_fns[name]
        mc = self.get_module_consts()
        if name in mc:
            return mc[name]
        if name in self.reg.names:
            return self.wrap_name(name, self.reg.names[name])
        from . import builtins_model
        b = builtins_model.lookup(self, name)
        if b is not None:
            return b
        if name in self.get_module_classes():
            # a class of (or imported into) the module under verification that no contract says anything about: an
            # opaque class of that name (isinstance on object families is an uninterpreted predicate per class name)
            return MCls(name)
        raise Unsupported('unknown name %s' % name)

    def wrap_name(self, name, v):
        if isinstance(v, FnSpec):
            return MFn('spec', name, spec=v)
        from .values import MOpaqueSet
        if isinstance(v, (SV, MFn, MCls, MNS, MTup, MList, MOpaqueSet)) or v is MNONE:
            return v
        if isinstance(v, (int, str, bool)) or v is None:
            return self.lit(v)
        if isinstance(v, tuple):
            return MTup([self.wrap_name(name, i) for i in v])
        raise Unsupported('bad binding for %s' % name)

    def check_bound(self, st, mu, node, name='?'):
        self.may_raise(st, mu.cond, 'UnboundLocalError', 'local %s may be unbound' % name, node)
        return mu.val

    def get_module_classes(self):
        if getattr(self, 'module_classes', None) is None:
            mc = set()
            for s in self.module.body:
                if isinstance(s, ast.ClassDef):
                    mc.add(s.name)
                elif isinstance(s, ast.ImportFrom):
                    for a in s.names:
                        nm = a.asname or a.name
                        if nm[:1].isupper() and not nm.isupper():
                            mc.add(nm)
            self.module_classes = mc
        return self.module_classes

    def get_module_consts(self):
        """module-level simple constants and def's of the file under verification"""
        if self.module_consts is not None:
            return self.module_consts
        mc = {}
        for s in self.module.body:
            if isinstance(s, ast.Assign) and len(s.targets) == 1 and isinstance(s.targets[0], ast.Name):
                try:
                    v = ast.literal_eval(s.value)
                except Exception:
                    continue
                try:
                    mc[s.targets[0].id] = self.lit(v)
                except Unsupported:
                    pass
            elif isinstance(s, ast.FunctionDef):
                if s.name in self.c.inline:
                    mc[s.name] = MFn('inline', s.name, node=s, frame=None)
        self.module_consts = mc
        return mc

    def lit(self, v):
        if v is None:
            return MNONE
        if isinstance(v, bool):
            return SV(BOOL, z3.BoolVal(v))
        if isinstance(v, int):
            return SV(INT, z3.IntVal(v))
        if isinstance(v, str):
            return SV(STR, z3.StringVal(v))
        if isinstance(v, tuple):
            return MTup([self.lit(i) for i in v])
        if isinstance(v, list):
            return MList([self.lit(i) for i in v])
        if isinstance(v, (set, frozenset)):
            return MFrozen([self.lit(i) for i in sorted(v, key=repr)])
        raise Unsupported('literal %r' % (v,))

    def nn(self, st, v, node, what='operand'):
        """unwrap an Optional operand; None there is a TypeError in Python"""
        if isinstance(v, MU):
            v = self.check_bound(st, v, node)
        if isinstance(v, SV) and isinstance(v.t, OptT):
            self.may_raise(st, z3.Not(opt_is_none(v.t, v.z)), 'TypeError', '%s may be None' % what, node)
            return strip_opt(v)
        return v

    def narrow(self, test, st, positive):
        """flow-sensitive narrowing of Optional locals after a None test"""
        if isinstance(test, ast.UnaryOp) and isinstance(test.op, ast.Not):
            return self.narrow(test.operand, st, not positive)
        if isinstance(test, ast.BoolOp):
            if isinstance(test.op, ast.And) and positive:
                for v in test.values:
                    self.narrow(v, st, True)
            if isinstance(test.op, ast.Or) and not positive:
                for v in test.values:
                    self.narrow(v, st, False)
            return
        name = None
        nonnull = None
        if isinstance(test, ast.Compare) and len(test.ops) == 1 and isinstance(test.left, ast.Name) \
                and isinstance(test.comparators[0], ast.Constant) and test.comparators[0].value is None:
            name = test.left.id
            if isinstance(test.ops[0], ast.Is):
                nonnull = not positive
            elif isinstance(test.ops[0], ast.IsNot):
                nonnull = positive
        elif isinstance(test, ast.Name) and positive:
            name = test.id
            nonnull = True
        if name is not None and nonnull:
            v = st.env.get(name)
            if isinstance(v, SV) and isinstance(v.t, OptT):
                st.env[name] = strip_opt(v)

    # ------------------------------------------------------------ expressions
    def ev(self, node, st):
        m = getattr(self, 'ev_' + type(node).__name__, None)
        if m is None:
            raise Unsupported('expression %s' % type(node).__name__)
        return m(node, st)

    def ev_Constant(self, node, st):
        if node.value is Ellipsis or isinstance(node.value, (bytes, float, complex)):
            raise Unsupported('constant %r' % (node.value,))
        return self.lit(node.value)

    def ev_Name(self, node, st):
        return self.lookup(st, node.id, node)

    def ev_Tuple(self, node, st):
        if any(isinstance(e, ast.Starred) for e in node.elts):
            raise Unsupported('starred in tuple')
        return MTup([self.ev(e, st) for e in node.elts])

    def ev_List(self, node, st):
        if any(isinstance(e, ast.Starred) for e in node.elts):
            raise Unsupported('starred in list')
        return MList([self.ev(e, st) for e in node.elts])

    def ev_Set(self, node, st):
        return MFrozen([self.ev(e, st) for e in node.elts])

    def ev_Dict(self, node, st):
        if not node.keys:
            return MDictV({}, None, None)
        raise Unsupported('dict literal')

    def ev_JoinedStr(self, node, st):
        for v in node.values:
            if isinstance(v, ast.FormattedValue):
                self.ev(v.value, st)
        return fresh(STR, 'fstr')

    def ev_Attribute(self, node, st):
        base = self.ev(node.value, st)
        return self.get_attr(st, base, node.attr, node)

    def ev_UnaryOp(self, node, st):
        v = self.ev(node.operand, st)
        if isinstance(node.op, ast.Not):
            return SV(BOOL, z3.Not(self.truth_test(st, v, node)))
        if isinstance(node.op, ast.USub):
            return SV(INT, -pack(v, INT))
        if isinstance(node.op, ast.UAdd):
            return SV(INT, pack(v, INT))
        raise Unsupported('unary op')

    def ev_BoolOp(self, node, st):
        # a and b and c  /  a or b or c  with short circuit; operands pure in the subset
        is_and = isinstance(node.op, ast.And)
        vals = node.values
        first = self.ev(vals[0], st)
        return self._boolop_rest(first, vals[1:], is_and, st, vals[0])

    def _boolop_rest(self, first, rest, is_and, st, prev_node=None):
        if not rest:
            return first
        c = self.truth_test(st, first, prev_node)
        go = c if is_and else z3.Not(c)       # condition under which the rest is evaluated
        go = simp(go)
        if z3.is_false(go):
            return first
        child = st.fork()
        child.assume(go)
        if prev_node is not None:
            self.narrow(prev_node, child, is_and)
        v2 = self.ev(rest[0], child)
        v2 = self._boolop_rest(v2, rest[1:], is_and, child, rest[0])
        if child.heap != st.heap and any(not z3.eq(child.heap[k], st.heap.get(k, child.heap[k])) or k not in st.heap
                                         for k in child.heap):
            other = st.fork()
            other.assume(z3.Not(go))
            m = self.merge_states([child, other])
            if m is None:
                raise Unsupported('side effect in short-circuit operand')
            st.become(m)
        if z3.is_true(go):
            return v2
        if not is_and and isinstance(first, SV) and isinstance(first.t, OptT):
            # `x or default`: when x is kept it is truthy, hence not None
            r0 = ite(go, v2, strip_opt(first))
            if r0 is not None:
                return r0
        r = ite(go, v2, first)
        if r is None:
            # differing types: fall back to Bool if only truthiness could matter
            try:
                return SV(BOOL, z3.If(go, truthy(v2), truthy(first)))
            except Unsupported:
                raise Unsupported('and/or operands of incompatible types')
        return r

    def ev_IfExp(self, node, st):
        c = simp(self.truth_test(st, self.ev(node.test, st), node))
        if z3.is_true(c):
            return self.ev(node.body, st)
        if z3.is_false(c):
            return self.ev(node.orelse, st)
        a_st = st.fork()
        a_st.assume(c)
        self.narrow(node.test, a_st, True)
        a = self.ev(node.body, a_st)
        b_st = st.fork()
        b_st.assume(z3.Not(c))
        self.narrow(node.test, b_st, False)
        b = self.ev(node.orelse, b_st)
        r = ite(c, a, b)
        if r is None:
            raise Unsupported('conditional expression with incompatible branch types')
        return r

    def ev_Compare(self, node, st):
        left = self.ev(node.left, st)
        res = None
        cur = st
        for op, comp in zip(node.ops, node.comparators):
            if res is not None:
                # chained: right operand only evaluated if previous true (pure subset: ok)
                pass
            right = self.ev(comp, cur)
            r = self.compare(op, left, right, cur, node)
            res = r if res is None else z3.And(res, r)
            left = right
        return SV(BOOL, res)

    def compare(self, op, a, b, st, node):
        if isinstance(op, ast.Eq):
            return py_eq(a, b)
        if isinstance(op, ast.NotEq):
            return z3.Not(py_eq(a, b))
        from .values import MRatio
        if isinstance(op, (ast.Lt, ast.LtE, ast.Gt, ast.GtE)) and (isinstance(a, MRatio) or isinstance(b, MRatio)):
            # exact comparison of an integer with a ratio of positive denominator
            if isinstance(a, MRatio) and isinstance(b, SV) and b.t == INT:
                l, r = a.num, b.z * a.den
            elif isinstance(b, MRatio) and isinstance(a, SV) and a.t == INT:
                l, r = a.z * b.den, b.num
            else:
                raise Unsupported('comparison with a ratio')
            return {ast.Lt: l < r, ast.LtE: l <= r, ast.Gt: l > r, ast.GtE: l >= r}[type(op)]
        if isinstance(op, (ast.Lt, ast.LtE, ast.Gt, ast.GtE)):
            a = self.nn(st, a, node, 'comparison operand')
            b = self.nn(st, b, node, 'comparison operand')
        if isinstance(op, ast.Lt):
            return py_lt(a, b, True)
        if isinstance(op, ast.LtE):
            return py_lt(a, b, False)
        if isinstance(op, ast.Gt):
            return py_lt(b, a, True)
        if isinstance(op, ast.GtE):
            return py_lt(b, a, False)
        if isinstance(op, (ast.Is, ast.IsNot)):
            r = self.py_is(a, b)
            return r if isinstance(op, ast.Is) else z3.Not(r)
        if isinstance(op, (ast.In, ast.NotIn)):
            r = self.py_in(a, b, st, node)
            return r if isinstance(op, ast.In) else z3.Not(r)
        raise Unsupported('comparison operator')

    def py_is(self, a, b):
        if a is MNONE or b is MNONE:
            return is_none(b if a is MNONE else a)
        if isinstance(a, SV) and isinstance(b, SV):
            ta = a.t.inner if isinstance(a.t, OptT) else a.t
            tb = b.t.inner if isinstance(b.t, OptT) else b.t
            if isinstance(ta, ObjT) and isinstance(tb, ObjT):
                return py_eq_identity(a, b)
            if ta == BOOL and tb == BOOL:
                return py_eq(a, b)
            if ta == INT and tb == INT:
                return py_eq(a, b)      # enum singletons modelled as small integers
            if ta == ANY and tb == ANY and a.t == ANY and b.t == ANY:
                return a.z == b.z       # opaque values are identities (sentinel tests: x is _NO_DEFAULT)
        if isinstance(a, MCls) and isinstance(b, MCls):
            return z3.BoolVal(a.name == b.name)
        raise Unsupported('`is` between %r and %r' % (a, b))

    def py_in(self, a, b, st, node):
        if isinstance(b, MU):
            b = self.check_bound(st, b, node)
        if isinstance(b, (MTup, MList, MFrozen)):
            if not b.items:
                return z3.BoolVal(False)
            return z3.Or(*[py_eq(a, i) for i in b.items])
        from .values import MOpaqueSet
        if isinstance(b, MOpaqueSet):
            if isinstance(a, SV) and isinstance(a.t, ObjT):
                f = self.uf('member[%s]' % b.name, [Ref], z3.BoolSort())
                return f(a.z)
            raise Unsupported('membership of %r in %s' % (a, b.name))
        from . import paths
        if isinstance(b, paths.MPathParents):
            return paths.is_proper_ancestor(pack(a, PATH), b.p.z) if isinstance(a, SV) and a.t == PATH \
                else z3.BoolVal(False)
        if isinstance(b, SV):
            if isinstance(b.t, OptT):
                self.may_raise(st, z3.Not(opt_is_none(b.t, b.z)), 'TypeError', '`in` on None', node)
                b = strip_opt(b)
            if b.t == STR:
                return z3.Contains(b.z, pack(a, STR))
            if isinstance(b.t, SeqT):
                if isinstance(b.t.elem, ObjT) and b.t.elem.family in FAMILY_EQ:
                    raise Unsupported('`in` over a family with custom __eq__')
                ta = type_of(a)
                if isinstance(ta, OptT) and not isinstance(b.t.elem, OptT) and unify_types(ta.inner, b.t.elem) is not None:
                    # None is never an element of a list of non-optional values
                    return z3.And(z3.Not(opt_is_none(ta, a.z)),
                                  z3.Contains(b.z, z3.Unit(pack(strip_opt(a), b.t.elem))))
                if unify_types(ta, b.t.elem) is None:
                    return z3.BoolVal(False)
                return z3.Contains(b.z, z3.Unit(pack(a, b.t.elem)))
            if isinstance(b.t, (SetT, DictT)):
                kt = b.t.elem if isinstance(b.t, SetT) else b.t.k
                nn_ = z3.BoolVal(True)
                if isinstance(a, SV) and isinstance(a.t, OptT) and not isinstance(kt, OptT):
                    nn_ = z3.Not(opt_is_none(a.t, a.z))     # None is not a key of a map over non-optional keys
                    a = strip_opt(a)
                sel = z3.Select(b.z, pack(a, kt)) if isinstance(b.t, SetT) else \
                    z3.Select(sort_of(b.t).dom(b.z), pack(a, kt))
                return z3.And(nn_, sel) if not z3.is_true(nn_) else sel
            if isinstance(b.t, TupT):
                its = tuple_items(b)
                return z3.Or(*[py_eq(a, i) for i in its]) if its else z3.BoolVal(False)
        raise Unsupported('`in` with container %r' % (b,))

    def ev_BinOp(self, node, st):
        a = self.ev(node.left, st)
        b = self.ev(node.right, st)
        return self.binop(node.op, a, b, st, node)

    def binop(self, op, a, b, st, node):
        a = self.nn(st, a, node, 'left operand')
        b = self.nn(st, b, node, 'right operand')
        if isinstance(b, MRev) and type_of(b) is not None:
            b = as_sv(b, type_of(b))
        ta = a.t if isinstance(a, SV) else None
        tb = b.t if isinstance(b, SV) else None
        if isinstance(op, ast.Add):
            if ta in (INT, BOOL) and tb in (INT, BOOL):
                return SV(INT, pack(a, INT) + pack(b, INT))
            if ta == STR and tb == STR:
                return SV(STR, z3.Concat(a.z, b.z))
            if isinstance(a, MTup) and isinstance(b, MTup):
                return MTup(a.items + b.items)
            if isinstance(a, MList) and isinstance(b, MList):
                return MList(a.items + b.items)
            la = isinstance(a, (MList, MTup)) or isinstance(ta, SeqT)
            lb = isinstance(b, (MList, MTup)) or isinstance(tb, SeqT)
            if isinstance(a, MTup) and isinstance(ta if ta else tb, SeqT):
                a = MList(a.items)
            if isinstance(b, MTup) and isinstance(ta if ta else tb, SeqT):
                b = MList(b.items)
            if la and lb:
                u = unify_types(type_of(a), type_of(b))
                if u is None and SeqT(ANY) in (type_of(a), type_of(b)):
                    u = SeqT(ANY)        # a sequence of opaque values absorbs the other operand's elements (boxed)
                if u is None:
                    raise Unsupported('list + list of different types')
                return SV(u, z3.Concat(pack(a, u), pack(b, u)))
            raise Unsupported('+ between %r and %r' % (a, b))
        if isinstance(op, ast.Sub):
            if ta in (INT, BOOL) and tb in (INT, BOOL):
                return SV(INT, pack(a, INT) - pack(b, INT))
            raise Unsupported('- between %r and %r' % (a, b))
        if isinstance(op, ast.Mult):
            if ta in (INT, BOOL) and tb in (INT, BOOL):
                return SV(INT, pack(a, INT) * pack(b, INT))
            raise Unsupported('* between %r and %r' % (a, b))
        if isinstance(op, ast.FloorDiv):
            if ta == INT and tb == INT:
                self.may_raise(st, b.z != 0, 'ZeroDivisionError', 'division by zero', node)
                return SV(INT, py_floordiv(a.z, b.z))
            raise Unsupported('// operands')
        if isinstance(op, ast.Mod):
            if ta == STR:
                return fresh(STR, 'fmt')       # %-formatting: some string
            if ta == INT and tb == INT:
                self.may_raise(st, b.z != 0, 'ZeroDivisionError', 'modulo by zero', node)
                return SV(INT, a.z - b.z * py_floordiv(a.z, b.z))
            raise Unsupported('% operands')
        if isinstance(op, ast.Div):
            if ta == PATH:
                from . import paths
                return paths.join(a, b)
            if ta == INT and tb == INT:
                from .values import MRatio
                self.may_raise(st, b.z != 0, 'ZeroDivisionError', 'division by zero', node)
                self.oblige(st, b.z > 0, 'call-pre', 'true division is modelled for a positive divisor only', node)
                return MRatio(a.z, b.z)
            raise Unsupported('/ operands')
        if isinstance(op, ast.BitOr):
            if ta == BOOL and tb == BOOL:
                return SV(BOOL, z3.Or(a.z, b.z))
            if isinstance(ta, SetT) and ta == tb:
                return SV(ta, set_union(a.z, b.z))
            raise Unsupported('| operands')
        if isinstance(op, ast.BitAnd):
            if ta == BOOL and tb == BOOL:
                return SV(BOOL, z3.And(a.z, b.z))
            raise Unsupported('& operands')
        raise Unsupported('binary operator %s' % type(op).__name__)

    def ev_Subscript(self, node, st):
        base = self.ev(node.value, st)
        if isinstance(base, MU):
            base = self.check_bound(st, base, node)
        if isinstance(base, SV) and isinstance(base.t, OptT):
            self.may_raise(st, z3.Not(opt_is_none(base.t, base.z)), 'TypeError',
                           'subscript of Optional value that may be None', node)
            base = strip_opt(base)
        sl = node.slice
        if self.is_live(base):
            if not isinstance(sl, ast.Slice):
                self.ev(sl, st)
            self.live_effect(st, 'user:getitem', base, node)
            return self.fresh_live()
        if isinstance(sl, ast.Slice):
            lo = self.ev(sl.lower, st) if sl.lower is not None else None
            hi = self.ev(sl.upper, st) if sl.upper is not None else None
            step = self.ev(sl.step, st) if sl.step is not None else None
            return self.slice(base, lo, hi, step, st, node)
        idx = self.ev(sl, st)
        if not (isinstance(base, SV) and isinstance(base.t, DictT)):
            idx = self.nn(st, idx, node, 'index')
        return self.index(base, idx, st, node)

    def index(self, base, idx, st, node):
        its = None
        if isinstance(base, (MTup, MList)):
            its = base.items
        elif isinstance(base, SV) and isinstance(base.t, TupT):
            its = tuple_items(base)
        if its is not None:
            if isinstance(idx, SV) and idx.t == INT:
                iz = simp(idx.z)
                if z3.is_int_value(iz):
                    i = iz.as_long()
                    if -len(its) <= i < len(its):
                        return its[i]
                    self.may_raise(st, z3.BoolVal(False), 'IndexError', 'index %d out of range' % i, node)
                    raise Unsupported('constant index out of range')
                # symbolic index into a concrete list
                n = len(its)
                self.may_raise(st, z3.And(iz >= -n, iz < n), 'IndexError', 'list index out of range', node)
                if n == 0:
                    raise Unsupported('index into empty list')
                res = its[n - 1]
                for k in reversed(range(n - 1)):
                    r = ite(z3.Or(iz == k, iz == k - n), its[k], res)
                    if r is None:
                        raise Unsupported('heterogeneous items under symbolic index')
                    res = r
                return res
            raise Unsupported('tuple index %r' % (idx,))
        if isinstance(base, SV):
            if base.t == STR:
                i = pack(idx, INT)
                n = z3.Length(base.z)
                self.may_raise(st, z3.And(i >= -n, i < n), 'IndexError', 'string index out of range', node)
                j = simp(z3.If(i < 0, n + i, i))
                return SV(STR, z3.SubString(base.z, j, 1))
            if isinstance(base.t, SeqT):
                i = pack(idx, INT)
                n = z3.Length(base.z)
                self.may_raise(st, z3.And(i >= -n, i < n), 'IndexError', 'list index out of range', node)
                j = simp(z3.If(i < 0, n + i, i))
                return SV(base.t.elem, base.z[j])
            if isinstance(base.t, DictT):
                if isinstance(idx, SV) and isinstance(idx.t, OptT) and not isinstance(base.t.k, OptT):
                    self.may_raise(st, z3.Not(opt_is_none(idx.t, idx.z)), 'KeyError', 'None is not a key', node)
                    idx = strip_opt(idx)
                k = pack(idx, base.t.k)
                srt = sort_of(base.t)
                self.may_raise(st, z3.Select(srt.dom(base.z), k), 'KeyError', 'key may be missing', node)
                return SV(base.t.v, z3.Select(srt.vals(base.z), k))
        raise Unsupported('subscript of %r' % (base,))

    def slice(self, base, lo, hi, step, st, node):
        if step is not None:
            sz = simp(pack(step, INT))
            if isinstance(base, (MList, MTup)) and z3.is_int_value(sz) and lo is None and hi is None:
                its = base.items[::sz.as_long()]
                return MList(its) if isinstance(base, MList) else MTup(its)
            raise Unsupported('slice with step on symbolic sequence')
        if isinstance(base, (MList, MTup)):
            def c(v):
                if v is None:
                    return None
                z = simp(pack(v, INT))
                if not z3.is_int_value(z):
                    raise Unsupported('symbolic slice bound on concrete list')
                return z.as_long()
            its = base.items[c(lo):c(hi)]
            return MList(its) if isinstance(base, MList) else MTup(its)
        if isinstance(base, SV) and (base.t == STR or isinstance(base.t, SeqT)):
            n = z3.Length(base.z)

            def norm(v, default):
                if v is None or v is MNONE:
                    return default
                if isinstance(v, SV) and isinstance(v.t, OptT):
                    i = opt_val(v.t, v.z)
                    return z3.If(opt_is_none(v.t, v.z), default,
                                 z3.If(i < 0, z3.If(n + i < 0, 0, n + i), z3.If(i > n, n, i)))
                i = pack(v, INT)
                return z3.If(i < 0, z3.If(n + i < 0, 0, n + i), z3.If(i > n, n, i))
            l = simp(norm(lo, z3.IntVal(0)))
            h = simp(norm(hi, n))
            ln = simp(z3.If(h - l < 0, 0, h - l))
            return SV(base.t, z3.SubSeq(base.z, l, ln))
        raise Unsupported('slice of %r' % (base,))

    def ev_Lambda(self, node, st):
        return MFn('lambda', '<lambda>', node=node, frame=st)

    def ev_Starred(self, node, st):
        raise Unsupported('starred expression')

    def ev_ListComp(self, node, st):
        return self.comprehension(node, st, 'list')

    def ev_GeneratorExp(self, node, st):
        return self.comprehension(node, st, 'gen')

    def ev_SetComp(self, node, st):
        g = node.generators[0]
        it = self.ev(g.iter, st) if len(node.generators) == 1 else None
        if isinstance(it, SV) and isinstance(it.t, SeqT) and self.iter_items(it, st, node) is None:
            return self.symbolic_setcomp(node, g, it, st)
        r = self.comprehension(node, st, 'set')
        return MFrozen(r.items) if isinstance(r, MList) else r

    def symbolic_setcomp(self, node, g, it, st):
        """{elt for x in seq if cond}: fresh set R with  y in R  <=>  exists i. cond(seq[i]) and y == elt(seq[i])"""
        i = z3.Int(fresh_name('sc'))
        x = SV(it.t.elem, it.z[i])
        sub = st.fork()
        self.spec_mode += 1
        try:
            self.bind_target(g.target, x, sub, node)
            cond = z3.BoolVal(True)
            for f in g.ifs:
                cond = z3.And(cond, truthy(self.ev(f, sub)))
            elt = self.ev(node.elt, sub)
        finally:
            self.spec_mode -= 1
        t = type_of(elt)
        r = fresh(SetT(t), 'setcomp')
        y = z3.Const(fresh_name('sy'), sort_of(t))
        n = z3.Length(it.z)
        dom = z3.And(i >= 0, i < n)
        ez = pack(elt, t)
        st.fact(z3.ForAll([i], z3.Implies(z3.And(dom, cond), z3.Select(r.z, ez))))
        st.fact(z3.ForAll([y], z3.Implies(z3.Select(r.z, y), z3.Exists([i], z3.And(dom, cond, ez == y)))))
        return r

    def flatten_comprehension(self, node, st):
        """[b for a in A for b in F(a)] (no conditions, the element is the inner target) over symbolic sequences: a fresh
        sequence r with the sound, incomplete fact that every element of every F(A[i]) occurs in r (nothing about order,
        multiplicity or other elements)"""
        g0, g1 = node.generators
        if g0.ifs or g1.ifs or g0.is_async or g1.is_async or not isinstance(g1.target, ast.Name) \
                or not isinstance(node.elt, ast.Name) or node.elt.id != g1.target.id or not isinstance(g0.target, ast.Name):
            raise Unsupported('nested comprehension')
        outer = self.ev(g0.iter, st)
        if not (isinstance(outer, SV) and isinstance(outer.t, SeqT)):
            raise Unsupported('nested comprehension over %r' % (outer,))
        i = z3.Int(fresh_name('fi'))
        j = z3.Int(fresh_name('fj'))
        sub = st.fork()
        sub.env = dict(st.env)
        sub.env[g0.target.id] = SV(outer.t.elem, outer.z[i])
        self.spec_mode += 1
        try:
            inner = self.ev(g1.iter, sub)
        finally:
            self.spec_mode -= 1
        if not (isinstance(inner, SV) and isinstance(inner.t, SeqT)):
            raise Unsupported('nested comprehension: inner iterable %r' % (inner,))
        for c in sub.pc[len(st.pc):]:
            # facts assumed while evaluating the inner iterable (callee postconditions) hold for every i in range
            st.fact(z3.ForAll([i], z3.Implies(z3.And(i >= 0, i < z3.Length(outer.z)), c)))
        r = fresh(SeqT(inner.t.elem), 'flat')
        st.fact(z3.ForAll([i, j], z3.Implies(z3.And(i >= 0, i < z3.Length(outer.z), j >= 0, j < z3.Length(inner.z)),
                                             z3.Contains(r.z, z3.Unit(inner.z[j])))))
        return r

    def comprehension(self, node, st, kind):
        if len(node.generators) == 2:
            return self.flatten_comprehension(node, st)
        if len(node.generators) != 1:
            raise Unsupported('nested comprehension')
        g = node.generators[0]
        if g.is_async:
            raise Unsupported('async comprehension')
        it = self.ev(g.iter, st)
        items = self.iter_items(it, st, node)
        if items is not None:
            out = []
            conds = []
            saved = dict(st.env)
            for item in items:
                self.bind_target(g.target, item, st, node)
                c = z3.BoolVal(True)
                for f in g.ifs:
                    c = z3.And(c, truthy(self.ev(f, st)))
                c = simp(c)
                if z3.is_false(c):
                    continue
                sub = st
                if not z3.is_true(c):
                    sub = st.fork()
                    sub.assume(c)
                out.append(self.ev(node.elt, sub))
                conds.append(c)
            st.env = saved
            if all(z3.is_true(c) for c in conds):
                return MList(out)
            # conditional membership -> symbolic sequence
            if not out:
                return MList([])
            t = None
            for o in out:
                t = unify_types(t, type_of(o))
                if t is None:
                    raise Unsupported('heterogeneous comprehension')
            es = z3.SeqSort(sort_of(t))
            parts = [z3.If(c, z3.Unit(pack(o, t)), z3.Empty(es)) for c, o in zip(conds, out)]
            return SV(SeqT(t), parts[0] if len(parts) == 1 else z3.Concat(*parts))
        if isinstance(it, SV) and self.is_live(it):
            # iterating a live object runs its __iter__/__next__: effect obligation; the elements are live objects
            self.live_effect(st, 'user:iter', it, node)
            f = self.uf('Live.items', [Ref], z3.SeqSort(Ref))
            it = SV(SeqT(ObjT('Live')), f(strip_opt(it).z))
        # symbolic sequence: filter/map as an axiomatised fresh sequence
        if isinstance(it, SV) and isinstance(it.t, SeqT):
            return self.symbolic_comprehension(node, g, it, st)
        raise Unsupported('comprehension over %r' % (it,))

    def symbolic_comprehension(self, node, g, it, st):
        """[elt for x in seq if cond] over an unbounded symbolic sequence.

        Encoded as a fresh sequence r with the sound (not complete) facts:
          - map (no ifs):  len(r)==len(seq) and forall i. r[i] == elt(seq[i])
          - filter (elt is the target): r is characterised by membership
            forall y. y in r <-> (y in seq and cond(y)), len(r) <= len(seq),
            and order preservation is NOT asserted.
        """
        elem_t = it.t.elem
        i = z3.Int(fresh_name('ci'))
        x = SV(elem_t, it.z[i])
        saved = dict(st.env)
        sub = st.fork()
        self.spec_mode += 1
        try:
            self.bind_target(g.target, x, sub, node)
            cond = z3.BoolVal(True)
            for f in g.ifs:
                cond = z3.And(cond, truthy(self.ev(f, sub)))
            elt = self.ev(node.elt, sub)
        finally:
            self.spec_mode -= 1
        st.env = saved
        n = z3.Length(it.z)
        if not g.ifs:
            t = type_of(elt)
            r = fresh(SeqT(t), 'map')
            st.fact(z3.Length(r.z) == n)
            st.fact(z3.ForAll([i], z3.Implies(z3.And(i >= 0, i < n), r.z[i] == pack(elt, t))))
            return r
        if isinstance(node.elt, ast.Name) and isinstance(g.target, ast.Name) and node.elt.id == g.target.id:
            # [x for x in seq if cond(x)]: assumed facts (sound for the real filter): membership
            # characterisation and length bound; order/multiplicity are not asserted
            r = fresh(SeqT(elem_t), 'filter')
            xv = z3.Const(fresh_name('fx'), sort_of(elem_t))
            sub2 = st.fork()
            self.spec_mode += 1
            try:
                self.bind_target(g.target, SV(elem_t, xv), sub2, node)
                cx = z3.BoolVal(True)
                for f in g.ifs:
                    cx = z3.And(cx, truthy(self.ev(f, sub2)))
            finally:
                self.spec_mode -= 1
            st.fact(z3.ForAll([xv], z3.Contains(r.z, z3.Unit(xv)) ==
                                z3.And(z3.Contains(it.z, z3.Unit(xv)), cx)))
            st.fact(z3.Length(r.z) <= n)
            return r
        raise Unsupported('filter comprehension over unbounded sequence (use a loop contract or SB)')

    def iter_items(self, it, st, node):
        """items of a statically-sized iterable, else None"""
        if isinstance(it, MU):
            it = self.check_bound(st, it, node)
        if isinstance(it, (MList, MTup, MFrozen)):
            return list(it.items)
        if isinstance(it, SV) and isinstance(it.t, TupT):
            return tuple_items(it)
        if isinstance(it, MEnum):
            if not isinstance(it.items, list):
                return None
            return [MTup([self.lit(k), v]) for k, v in enumerate(it.items, it.start)]
        if isinstance(it, MRev):
            inner = self.iter_items(it.inner, st, node)
            return None if inner is None else list(reversed(inner))
        from . import paths
        if isinstance(it, paths.MPathParents):
            return None
        if isinstance(it, MZip):
            parts = [self.iter_items(p, st, node) for p in it.parts]
            if any(p is None for p in parts):
                return None
            return [MTup(list(x)) for x in zip(*parts)]
        if isinstance(it, MRange):
            lo = simp(it.lo)
            hi = simp(it.hi)
            if z3.is_int_value(lo) and z3.is_int_value(hi):
                return [self.lit(k) for k in range(lo.as_long(), hi.as_long())]
        return None

    def ev_Call(self, node, st):
        from . import calls
        return calls.eval_call(self, node, st)

    def ev_NamedExpr(self, node, st):
        v = self.ev(node.value, st)
        st.env[node.target.id] = v
        return v

    # ------------------------------------------------------------- statements
    def bind_target(self, tgt, val, st, node, mutation=False):
        if isinstance(tgt, ast.Name):
            cur = st.env.get(tgt.id)
            if mutation:
                self.check_not_shared(st, cur, node, 'in-place mutation')
            if mutation and isinstance(cur, MAlias):
                self.set_attr(st, cur.obj, cur.attr, val, node)
                return
            if mutation and isinstance(cur, MSubAlias):
                outer = self.ev(cur.outer_expr, st)
                srt = sort_of(outer.t)
                k = pack(cur.key, outer.t.k)
                new = srt.mk(z3.Store(srt.dom(outer.z), k, True),
                             z3.Store(srt.vals(outer.z), k, pack(val, cur.inner_t)))
                self.bind_target(cur.outer_expr, SV(outer.t, new), st, node, mutation=True)
                return
            lt = self.c.locals.get(tgt.id) if not self.inline_depth else None
            if lt is not None and not isinstance(val, (SV, MU)) and val is not MNONE:
                val = as_sv(val, lt)       # declared local type: literals become typed values
            st.env[tgt.id] = val
            return
        if isinstance(tgt, (ast.Tuple, ast.List)):
            its = tuple_items(val)
            if its is None and isinstance(val, MList):
                its = val.items
            if its is None:
                if isinstance(val, SV) and isinstance(val.t, SeqT):
                    n = len(tgt.elts)
                    self.may_raise(st, z3.Length(val.z) == n, 'ValueError', 'unpacking arity', node)
                    its = [SV(val.t.elem, val.z[k]) for k in range(n)]
                else:
                    raise Unsupported('unpacking of %r' % (val,))
            if len(its) != len(tgt.elts):
                self.may_raise(st, z3.BoolVal(False), 'ValueError', 'unpacking arity mismatch', node)
                raise Unsupported('unpacking arity mismatch')
            for t, v in zip(tgt.elts, its):
                self.bind_target(t, v, st, node)
            return
        if isinstance(tgt, ast.Attribute):
            obj = self.ev(tgt.value, st)
            if not mutation:
                # the field is REBOUND to another object: a local that aliases the old container keeps the old one
                o2 = strip_opt(obj) if isinstance(obj, SV) else obj
                for nm, cur in list(st.env.items()):
                    if isinstance(cur, MAlias) and cur.attr == tgt.attr and isinstance(o2, SV) \
                            and isinstance(cur.obj, SV) and cur.obj.t == o2.t:
                        if z3.eq(cur.obj.z, o2.z):
                            st.env[nm] = self.get_attr(st, cur.obj, cur.attr, node)
                        else:
                            raise Unsupported('field .%s is rebound while local %s may alias it' % (tgt.attr, nm))
            self.set_attr(st, obj, tgt.attr, val, node)
            return
        if isinstance(tgt, ast.Subscript):
            from . import calls
            calls.assign_subscript(self, tgt, val, st, node)
            return
        raise Unsupported('assignment target %s' % type(tgt).__name__)

    def drain_exc(self, outs):
        for (s, e) in self.exc_out:
            outs.append(Outcome(RAISE, s, e))
        self.exc_out = []

    def exec_block(self, stmts, st):
        outs = []
        cur = [st]
        for s in stmts:
            nxt = []
            for c in cur:
                for o in self.exec_stmt(s, c):
                    if o.kind == NORMAL:
                        nxt.append(o.st)
                    else:
                        outs.append(o)
            cur = self.merge_list(nxt)
            if not cur:
                break
        return outs + [Outcome(NORMAL, c) for c in cur]

    def exec_stmt(self, s, st):
        m = getattr(self, 'st_' + type(s).__name__, None)
        if m is None:
            raise Unsupported('statement %s' % type(s).__name__)
        assert not self.exc_out
        outs = m(s, st)
        self.drain_exc(outs)
        return outs

    def st_Pass(self, s, st):
        return [Outcome(NORMAL, st)]

    def st_Global(self, s, st):
        return [Outcome(NORMAL, st)]

    def st_Nonlocal(self, s, st):
        return [Outcome(NORMAL, st)]

    def st_Import(self, s, st):
        raise Unsupported('import inside function')

    def st_ImportFrom(self, s, st):
        # a local `from m import Name`: the names are classes/functions of the repository; they are
        # bound to what the contract says they are, else to an opaque class of that name
        for a in s.names:
            nm = a.asname or a.name
            if nm in self.c.names:
                st.env[nm] = self.wrap_name(nm, self.c.names[nm])
            elif nm in self.reg.names:
                st.env[nm] = self.wrap_name(nm, self.reg.names[nm])
            else:
                st.env[nm] = MCls(a.name)
        return [Outcome(NORMAL, st)]

    def st_Expr(self, s, st):
        v = s.value
        if isinstance(v, ast.Constant):
            return [Outcome(NORMAL, st)]        # docstring
        if isinstance(v, ast.Yield):
            val = self.ev(v.value, st) if v.value is not None else MNONE
            self.do_yield(st, val, s)
            return [Outcome(NORMAL, st)]
        if isinstance(v, ast.YieldFrom):
            seq = self.ev(v.value, st)
            self.do_yield_from(st, seq, s)
            return [Outcome(NORMAL, st)]
        self.ev(v, st)
        return [Outcome(NORMAL, st)]

    def do_yield(self, st, val, node):
        if self.inline_depth and self.yield_stack and self.yield_stack[-1] is not None:
            self.yield_stack[-1].append((list(st.pc), val))
            return
        yt = self.c.yields
        if yt is None:
            raise Unsupported('yield without `yields` type in contract')
        val = self.require_not_none(st, val, yt, node)
        if not self.spec_mode and self.c.yield_each_local and not self.inline_depth:
            cv = as_sv(val, yt)
            for e in self.c.yield_each_local:
                g = self.eval_spec_bool(e, st, {'c': cv})
                self.oblige(st, g, 'post', 'every yielded c (witnesses: locals at the yield): ' + e, node)
        if not self.spec_mode and (self.c.yield_each or self.c.yield_key):
            # generator proof rule: a property of each element that mentions only entry values
            # and the element, proved at every yield, holds for every element of the result;
            # a key proved fresh w.r.t. the ghost set of earlier keys makes keys pairwise distinct
            ent = self.entry.fork()
            ent.pc = st.pc
            ent.heap = st.heap
            ent.env = dict(self.entry.env)
            cv = as_sv(val, yt)
            for e in self.c.yield_each:
                g = self.eval_spec_bool(e, ent, {'c': cv})
                self.oblige(st, g, 'post', 'every yielded c: ' + e, node)
            if self.c.yield_key:
                k = self.eval_spec(self.c.yield_key, ent, {'c': cv})
                kt = type_of(k)
                ks = st.ghost.get('ykeys')
                if ks is None:
                    ks = SV(SetT(kt), z3.K(sort_of(kt), False))
                kz = pack(k, kt)
                self.oblige(st, z3.Not(z3.Select(ks.z, kz)), 'post',
                            'yielded key is new: ' + self.c.yield_key, node)
                st.ghost['ykeys'] = SV(SetT(kt), z3.Store(ks.z, kz, True))
        cur = st.ghost.get('yielded')
        if cur is None:
            cur = SV(SeqT(yt), z3.Empty(sort_of(SeqT(yt))))
        st.ghost['yielded'] = SV(SeqT(yt), z3.Concat(cur.z, z3.Unit(pack(val, yt))))

    def require_not_none(self, st, val, t, node):
        """a value that may be None where the contract's result type requires a value: an obligation (the declared
        type is part of the postcondition), after which the value is unwrapped"""
        inner = t.inner if isinstance(t, OptT) else t
        if isinstance(inner, TupT):
            its = val.items if isinstance(val, MTup) else None
            if its is not None and len(its) == len(inner.items):
                new = []
                for v, ti in zip(its, inner.items):
                    if isinstance(v, SV) and isinstance(v.t, OptT) and not isinstance(ti, OptT) and ti != ANY:
                        self.oblige(st, z3.Not(opt_is_none(v.t, v.z)), 'post',
                                    'a component of the result may be None where the contract requires %s' % ti, node)
                        v = strip_opt(v)
                    if isinstance(v, SV) and isinstance(ti, ObjT) and v.t in (STR, INT, BOOL, PATH):
                        # e.g. a text where the contract requires an object that compares by identity
                        self.oblige(st, z3.BoolVal(False), 'post',
                                    'a component of the result is a %s where the contract requires %s' % (v.t, ti), node)
                        v = fresh(ti, 'mistyped')
                    new.append(v)
                return MTup(new)
        return val

    def do_yield_from(self, st, seq, node):
        yt = self.c.yields
        if yt is None:
            raise Unsupported('yield from without `yields` type')
        cur = st.ghost.get('yielded')
        if cur is None:
            cur = SV(SeqT(yt), z3.Empty(sort_of(SeqT(yt))))
        st.ghost['yielded'] = SV(SeqT(yt), z3.Concat(cur.z, pack(seq, SeqT(yt))))

    def st_Assign(self, s, st):
        val = self.ev(s.value, st)
        if len(s.targets) == 1 and isinstance(s.targets[0], ast.Name) and isinstance(s.value, ast.Attribute) \
                and isinstance(val, SV) and isinstance(val.t, (SeqT, SetT, DictT)):
            # x = obj.field where field is a mutable container on the heap: x aliases it
            obj = self.ev(s.value.value, st)
            o2 = strip_opt(obj) if isinstance(obj, SV) else obj
            if isinstance(o2, SV) and isinstance(o2.t, ObjT) and s.value.attr in self.family(o2.t.family).fields:
                st.env[s.targets[0].id] = MAlias(o2, s.value.attr)
                return [Outcome(NORMAL, st)]
        # x = outer[key]  /  x = outer[key] = {}  where the stored value is itself a dict: x aliases it
        names_t = [t for t in s.targets if isinstance(t, ast.Name)]
        subs_t = [t for t in s.targets if isinstance(t, ast.Subscript)]
        src_sub = s.value if isinstance(s.value, ast.Subscript) and not isinstance(s.value.slice, ast.Slice) else None
        if len(names_t) == 1 and len(s.targets) - 1 == len(subs_t) and (subs_t or src_sub is not None):
            sub_expr = subs_t[0] if subs_t else src_sub
            outer = self.ev(sub_expr.value, st)
            if isinstance(outer, SV) and isinstance(outer.t, DictT) and isinstance(outer.t.v, DictT):
                key = self.ev(sub_expr.slice, st)
                if subs_t:
                    self.bind_target(subs_t[0], val, st, s)
                st.env[names_t[0].id] = MSubAlias(sub_expr.value, key, outer.t.v)
                return [Outcome(NORMAL, st)]
        if len(s.targets) == 1 and isinstance(s.targets[0], ast.Name) and isinstance(s.value, ast.Call) \
                and isinstance(s.value.func, ast.Attribute) and s.value.func.attr == 'setdefault' \
                and isinstance(val, SV) and isinstance(val.t, DictT) and len(s.value.args) == 2:
            # x = outer.setdefault(key, {}) : x aliases the inner dict
            st.env[s.targets[0].id] = MSubAlias(s.value.func.value, self.ev(s.value.args[0], st), val.t)
            return [Outcome(NORMAL, st)]
        for t in s.targets:
            self.bind_target(t, val, st, s)
        return [Outcome(NORMAL, st)]

    def st_AnnAssign(self, s, st):
        if s.value is not None:
            val = self.ev(s.value, st)
            self.bind_target(s.target, val, st, s)
        return [Outcome(NORMAL, st)]

    def st_AugAssign(self, s, st):
        if isinstance(s.target, ast.Name):
            cur = self.lookup(st, s.target.id, s)
        elif isinstance(s.target, ast.Attribute):
            cur = self.get_attr(st, self.ev(s.target.value, st), s.target.attr, s)
        elif isinstance(s.target, ast.Subscript):
            cur = self.ev(s.target, st)
        else:
            raise Unsupported('augmented assignment target')
        rhs = self.ev(s.value, st)
        self.check_not_shared(st, cur, s, 'augmented assignment (in-place for lists, sets and dicts)')
        val = self.binop(s.op, cur, rhs, st, s)
        self.bind_target(s.target, val, st, s)
        return [Outcome(NORMAL, st)]

    def check_not_shared(self, st, cur, node, what):
        """frame obligation: a container owned by a callee (memoised result handed out by reference) is not mutated"""
        if isinstance(cur, SV) and getattr(cur, 'shared', None) and isinstance(cur.t, (SeqT, SetT, DictT)) \
                and not self.spec_mode:
            self.oblige(st, z3.BoolVal(False), 'frame',
                        'the container returned by %s is shared with later callers and must not be changed in place: %s'
                        % (cur.shared, what), node, assume=False)

    def st_Return(self, s, st):
        val = self.ev(s.value, st) if s.value is not None else MNONE
        return [Outcome(RETURN, st, val)]

    def st_Break(self, s, st):
        return [Outcome(BREAK, st)]

    def st_Continue(self, s, st):
        return [Outcome(CONTINUE, st)]

    def st_Assert(self, s, st):
        c = truthy(self.ev(s.test, st))
        self.may_raise(st, c, 'AssertionError', 'assert', s)
        self.narrow(s.test, st, True)
        return [Outcome(NORMAL, st)]

    def st_Delete(self, s, st):
        for t in s.targets:
            if isinstance(t, ast.Name):
                st.env.pop(t.id, None)
            elif isinstance(t, ast.Subscript):
                from . import calls
                calls.delete_subscript(self, t, st, s)
            else:
                raise Unsupported('del target')
        return [Outcome(NORMAL, st)]

    def st_FunctionDef(self, s, st):
        ab = getattr(self.c, 'abstract_locals', None) or {}
        if s.name in ab:
            # a nested function that is under its own contract: callers see that contract, not the body
            st.env[s.name] = MFn('spec', s.name, spec=ab[s.name])
            return [Outcome(NORMAL, st)]
        st.env[s.name] = MFn('inline', s.name, node=s, frame=st)
        return [Outcome(NORMAL, st)]

    def st_Raise(self, s, st):
        if s.exc is None:
            cur = st.ghost.get('handling')
            if cur is None:
                raise Unsupported('bare raise outside handler')
            return [Outcome(RAISE, st, cur)]
        e = s.exc
        if isinstance(e, ast.Call):
            cls = self.ev(e.func, st)
            args = [self.ev(a, st) for a in e.args]
        else:
            cls = self.ev(e, st)
            args = []
        if isinstance(cls, MExc):
            return [Outcome(RAISE, st, cls)]
        if isinstance(cls, SV) and isinstance(cls.t, ObjT):
            # raising an exception *object* received as data (e.g. the helper's pickled exception)
            return [Outcome(RAISE, st, MExc('Raised[%s]' % cls.t.family, [cls]))]
        if not isinstance(cls, MCls):
            raise Unsupported('raise of %r' % (cls,))
        return [Outcome(RAISE, st, MExc(cls.name, args))]

    def st_If(self, s, st):
        c = simp(self.truth_test(st, self.ev(s.test, st), s))
        outs = []
        self.drain_exc(outs)
        if z3.is_true(c):
            return outs + self.exec_block(s.body, st)
        if z3.is_false(c):
            return outs + (self.exec_block(s.orelse, st) if s.orelse else [Outcome(NORMAL, st)])
        a = st.fork()
        a.assume(c)
        b = st
        b.assume(z3.Not(c))
        self.narrow(s.test, a, True)
        self.narrow(s.test, b, False)
        normals = []
        if self.feasible(a.pc):
            for o in self.exec_block(s.body, a):
                (normals if o.kind == NORMAL else outs).append(o)
        if self.feasible(b.pc):
            for o in (self.exec_block(s.orelse, b) if s.orelse else [Outcome(NORMAL, b)]):
                (normals if o.kind == NORMAL else outs).append(o)
        merged = self.merge_list([o.st for o in normals])
        return outs + [Outcome(NORMAL, m) for m in merged]

    # --- merging
    def merge_list(self, states):
        if len(states) <= 1 or not self.c.merge:
            return states
        m = self.merge_states(states)
        if m is None:
            return states
        return [m]

    def merge_states(self, states):
        """n-way join of states that share a pc prefix; None if not mergeable."""
        if len(states) == 1:
            return states[0]
        k = 0
        first = states[0].pc
        while all(len(s.pc) > k for s in states) and all(s.pc[k] is first[k] or z3.eq(s.pc[k], first[k])
                                                        for s in states[1:]):
            k += 1
        conds = []
        full = []
        for s in states:
            suf = s.pc[k:]
            full.append(z3.And(*suf) if len(suf) > 1 else (suf[0] if suf else z3.BoolVal(True)))
            dec = [c for c in suf if c.get_id() not in s.facts]
            if not dec:
                # this state differs from the others by no DECISION. Either its suffix consists of facts that do tell
                # it apart (a branch condition that was recorded as a fact): the quantifier-free ones are used as the
                # selector - exact. Or there is nothing (a nondeterministic fork: an abstract callee that may or may
                # not raise, an opaque value that may or may not decode ...): it must not win the merge
                # unconditionally - a fresh, unconstrained selector keeps both outcomes possible
                dec = [c for c in suf if not _has_quantifier(c)]
                if not dec:
                    dec = [z3.Bool(fresh_name('either'))]
            conds.append(z3.And(*dec) if len(dec) > 1 else dec[0])
        out = State()
        out.pc = list(first[:k]) + [z3.Or(*full)]
        for s in states:
            out.facts |= {c.get_id() for c in s.pc[:k] if c.get_id() in s.facts}
        # env
        names = set()
        for s in states:
            names.update(s.env)
        for n in names:
            cur = None
            ok = True
            for s, c in reversed(list(zip(states, conds))):
                v = s.env.get(n, _UNBOUND)
                if v is _UNBOUND:
                    v = MU(_dummy_like(states, n), z3.BoolVal(False))
                    if v.val is None:
                        ok = False
                        break
                if cur is None:
                    cur = v
                else:
                    cur = ite(c, v, cur)
                    if cur is None:
                        ok = False
                        break
            if not ok:
                return None
            if isinstance(cur, MU):
                cc = simp(cur.cond)
                if z3.is_true(cc):
                    cur = cur.val
                else:
                    cur = MU(cur.val, cc)
            out.env[n] = cur
        # heap
        keys = set()
        for s in states:
            keys.update(s.heap)
        for key in keys:
            cur = None
            for s, c in reversed(list(zip(states, conds))):
                v = s.heap.get(key)
                if v is None:
                    v = self.heap0(*key)
                cur = v if cur is None else (cur if z3.eq(cur, v) else z3.If(c, v, cur))
            out.heap[key] = cur
        # ghost
        gkeys = set()
        for s in states:
            gkeys.update(s.ghost)
        for key in gkeys:
            cur = None
            for s, c in reversed(list(zip(states, conds))):
                v = s.ghost.get(key, _UNBOUND)
                if v is _UNBOUND:
                    v = self.ghost_default(key, states)
                    if v is None:
                        return None
                if cur is None:
                    cur = v
                else:
                    cur = ite(c, v, cur)
                    if cur is None:
                        return None
            out.ghost[key] = cur
        return out

    def ghost_default(self, key, states):
        if key == 'yielded':
            yt = self.c.yields
            return SV(SeqT(yt), z3.Empty(sort_of(SeqT(yt))))
        if key == 'effects':
            return SV(SeqT(STR), z3.Empty(sort_of(SeqT(STR))))
        if key == 'ykeys':
            for s in states:
                v = s.ghost.get('ykeys')
                if v is not None:
                    return SV(v.t, z3.K(sort_of(v.t.elem), False))
        return None

    # --- try / with
    def st_Try(self, s, st):
        handler_classes = []
        for h in s.handlers:
            handler_classes.append(self.handler_names(h, st))
        flat = [n for hc in handler_classes for n in hc]
        self.try_stack.append(flat)
        try:
            body_outs = self.exec_block(s.body, st)
        finally:
            self.try_stack.pop()
        outs = []
        for o in body_outs:
            if o.kind == RAISE:
                handled = False
                for h, names in zip(s.handlers, handler_classes):
                    if any(n is None or exc_is_subclass(o.val.cls, n) for n in names):
                        hs = o.st
                        if h.name:
                            hs.env[h.name] = o.val
                        prev = hs.ghost.get('handling')
                        hs.ghost['handling'] = o.val
                        houts = self.exec_block(h.body, hs)
                        for ho in houts:
                            if prev is None:
                                ho.st.ghost.pop('handling', None)
                            else:
                                ho.st.ghost['handling'] = prev
                            if h.name:
                                ho.st.env.pop(h.name, None)
                        outs.extend(houts)
                        handled = True
                        break
                    # an abstract callee exception of a broader class may or may not match
                    if any(n is not None and exc_is_subclass(n, o.val.cls) for n in names) and o.val.origin:
                        # e.g. callee raises `Exception`, handler catches OSError: both possible
                        hs = o.st.fork()
                        if h.name:
                            hs.env[h.name] = MExc(names[0], [], o.val.origin)
                        hs.ghost['handling'] = MExc(names[0], [], o.val.origin)
                        houts = self.exec_block(h.body, hs)
                        for ho in houts:
                            ho.st.ghost.pop('handling', None)
                        outs.extend(houts)
                if not handled:
                    outs.append(o)
            elif o.kind == NORMAL and s.orelse:
                outs.extend(self.exec_block(s.orelse, o.st))
            else:
                outs.append(o)
        if s.finalbody:
            final = []
            for o in outs:
                fouts = self.exec_block(s.finalbody, o.st)
                for fo in fouts:
                    if fo.kind == NORMAL:
                        final.append(Outcome(o.kind, fo.st, o.val))
                    else:
                        final.append(fo)     # finally overrides
            outs = final
        normals = [o for o in outs if o.kind == NORMAL]
        rest = [o for o in outs if o.kind != NORMAL]
        merged = self.merge_list([o.st for o in normals])
        return rest + [Outcome(NORMAL, m) for m in merged]

    def handler_names(self, h, st):
        if h.type is None:
            return [None]
        t = h.type
        elts = t.elts if isinstance(t, ast.Tuple) else [t]
        names = []
        for e in elts:
            v = self.ev(e, st)
            if not isinstance(v, MCls):
                raise Unsupported('except clause with non-class')
            names.append(v.name)
        return names

    def st_With(self, s, st):
        from . import calls
        return calls.exec_with(self, s, st)

    # --- loops
    def st_For(self, s, st):
        from . import loops
        return loops.exec_for(self, s, st)

    def st_While(self, s, st):
        from . import loops
        return loops.exec_while(self, s, st)

    # ------------------------------------------------------------------ spec
    def eval_spec(self, expr, st, extra=None, entry=None):
        """evaluate a contract expression (string) to a value, in spec mode"""
        node = self.reg.parse_expr(expr)
        sub = st.fork()
        sub.ghost = dict(st.ghost)
        if extra:
            sub.env.update(extra)
        self.spec_mode += 1
        saved_exc = self.exc_out
        self.exc_out = []
        try:
            v = self.ev(node, sub)
        finally:
            self.spec_mode -= 1
            self.exc_out = saved_exc
        # facts assumed while evaluating (axioms of spec functions) are kept
        for c in sub.pc[len(st.pc):]:
            st.pc.append(c)
        return v

    def eval_spec_bool(self, expr, st, extra=None):
        return truthy(self.eval_spec(expr, st, extra))

    local_names = []
    yield_stack = []


def _has_quantifier(e, _seen=None):
    if z3.is_quantifier(e):
        return True
    if _seen is None:
        _seen = set()
    i = e.get_id()
    if i in _seen:
        return False
    _seen.add(i)
    return any(_has_quantifier(ch, _seen) for ch in e.children())


class _Unbound:
    pass


_UNBOUND = _Unbound()


def _dummy_like(states, n):
    for s in states:
        v = s.env.get(n, _UNBOUND)
        if v is not _UNBOUND:
            return v.val if isinstance(v, MU) else v
    return None


def py_eq_identity(a, b):
    if isinstance(a.t, OptT) or isinstance(b.t, OptT):
        u = unify_types(a.t, b.t)
        return pack(a, u) == pack(b, u)
    return a.z == b.z


def py_floordiv(a, b):
    # SMT-LIB `div` floors for a positive divisor; Python floors always.
    return z3.If(b > 0, a / b, (-a) / (-b))


def set_union(a, b):
    x = z3.FreshConst(a.sort().domain(), 'u')
    return z3.Lambda([x], z3.Or(z3.Select(a, x), z3.Select(b, x)))

