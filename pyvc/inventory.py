"""Structural inventories over the AST of jedi/ (recomputed from the current tree on every run).

An inventory obligation compares the set of syntactic sites of a kind with the set the contracts
cover (DESIGN 2.5): process-global mutable state, import/exec primitives, writes to host state."""
import ast
import os

MUTATING_METHODS = {'append', 'add', 'update', 'setdefault', 'pop', 'clear', 'extend', 'insert', 'remove',
                    'discard', 'popitem', 'appendleft'}
CONTAINER_CALLS = {'dict', 'list', 'set', 'WeakKeyDictionary', 'WeakValueDictionary', 'defaultdict',
                   'OrderedDict', 'deque', 'Counter', 'WeakSet'}


def py_files(repo, sub='jedi', exclude=('third_party',)):
    root = os.path.join(repo, sub)
    for d, dirs, files in os.walk(root):
        dirs[:] = sorted(x for x in dirs if x not in exclude and x != '__pycache__')
        for f in sorted(files):
            if f.endswith('.py'):
                p = os.path.join(d, f)
                yield os.path.relpath(p, repo), p


def parse(path):
    with open(path, encoding='utf-8') as f:
        return ast.parse(f.read())


def _is_container_ctor(v):
    """(is_container, is_empty)"""
    if isinstance(v, ast.Dict):
        return True, not v.keys
    if isinstance(v, (ast.List, ast.Set)):
        return True, not v.elts
    if isinstance(v, (ast.ListComp, ast.DictComp, ast.SetComp)):
        return True, False
    if isinstance(v, ast.Call):
        f = v.func
        name = f.id if isinstance(f, ast.Name) else (f.attr if isinstance(f, ast.Attribute) else None)
        if name in CONTAINER_CALLS:
            return True, not v.args and not v.keywords or name in ('defaultdict',)
    return False, False


def _mutations(tree):
    """names (simple identifiers) that are mutated somewhere in the module: x[k] = v, x.append(..), x |= .."""
    out = set()
    for n in ast.walk(tree):
        if isinstance(n, ast.Subscript) and isinstance(n.ctx, (ast.Store, ast.Del)) and isinstance(n.value, ast.Name):
            out.add(n.value.id)
        elif isinstance(n, ast.Call) and isinstance(n.func, ast.Attribute) and n.func.attr in MUTATING_METHODS \
                and isinstance(n.func.value, ast.Name):
            out.add(n.func.value.id)
        elif isinstance(n, ast.AugAssign) and isinstance(n.target, ast.Name):
            out.add(n.target.id)
        elif isinstance(n, ast.AugAssign) and isinstance(n.target, ast.Subscript) and isinstance(n.target.value, ast.Name):
            out.add(n.target.value.id)
    return out


def global_mutable_state(repo):
    """[(file, scope, name, lineno, why)] of module-, class- and decorator-closure-level containers that are
    empty at creation or mutated later, plus names rebound through `global`."""
    sites = []
    for rel, path in py_files(repo):
        try:
            tree = parse(path)
        except SyntaxError:
            sites.append((rel, '<unparsable>', '?', 0, 'syntax error'))
            continue
        muts = _mutations(tree)

        def targets(stmt):
            if isinstance(stmt, ast.Assign):
                return [t for t in stmt.targets if isinstance(t, ast.Name)], stmt.value
            if isinstance(stmt, ast.AnnAssign) and stmt.value is not None and isinstance(stmt.target, ast.Name):
                return [stmt.target], stmt.value
            return [], None
        # module level
        for s in tree.body:
            ts, v = targets(s)
            for t in ts:
                c, empty = _is_container_ctor(v)
                if c and (empty or t.id in muts):
                    sites.append((rel, '<module>', t.id, s.lineno, 'empty' if empty else 'mutated'))
        # class level
        for cls in [n for n in ast.walk(tree) if isinstance(n, ast.ClassDef)]:
            for s in cls.body:
                ts, v = targets(s)
                for t in ts:
                    c, empty = _is_container_ctor(v)
                    if c and (empty or t.id in muts):
                        sites.append((rel, cls.name, t.id, s.lineno, 'class attribute'))
        # closures of decorator factories: container created in a function that defines and returns an inner function
        for fn in [n for n in ast.walk(tree) if isinstance(n, ast.FunctionDef)]:
            inner = [x for x in fn.body if isinstance(x, ast.FunctionDef)]
            if not inner:
                continue
            returns_inner = any(isinstance(x, ast.Return) and isinstance(x.value, ast.Name)
                                and x.value.id in {i.name for i in inner} for x in fn.body)
            if not returns_inner:
                continue
            for s in fn.body:
                ts, v = targets(s)
                for t in ts:
                    c, empty = _is_container_ctor(v)
                    used = any(isinstance(n, ast.Name) and n.id == t.id for i in inner for n in ast.walk(i))
                    if c and used:
                        sites.append((rel, fn.name, t.id, s.lineno, 'decorator closure'))
        # process-wide memo decorators of the standard library (functools.lru_cache / cache): a hidden global dict
        for fn in [n for n in ast.walk(tree) if isinstance(n, (ast.FunctionDef, ast.AsyncFunctionDef))]:
            for d in fn.decorator_list:
                txt = ast.unparse(d.func if isinstance(d, ast.Call) else d)
                if txt.split('.')[-1] in ('lru_cache', 'cache') and txt.split('.')[0] in ('functools', 'lru_cache', 'cache'):
                    sites.append((rel, fn.name, '@' + txt, fn.lineno, 'stdlib memo decorator'))
        # global rebinding
        for n in ast.walk(tree):
            if isinstance(n, ast.Global):
                for name in n.names:
                    sites.append((rel, '<global stmt>', name, n.lineno, 'global'))
    return sites


EXEC_NAMES = {'exec', 'eval', 'compile', '__import__', 'execfile'}
EXEC_ATTRS = {('importlib', 'import_module'), ('runpy', 'run_path'), ('runpy', 'run_module'),
              ('pickle', 'load'), ('pickle', 'loads'), ('subprocess', 'Popen'), ('subprocess', 'run'),
              ('subprocess', 'call'), ('subprocess', 'check_output'), ('subprocess', 'check_call'),
              ('os', 'system'), ('os', 'popen'), ('os', 'execv'), ('os', 'execve'), ('os', 'spawnv'),
              ('imp', 'load_module'), ('imp', 'load_source'), ('importlib', 'reload'),
              ('zipimport', 'zipimporter'), ('marshal', 'loads'), ('code', 'interact')}
EXEC_METHOD_ATTRS = {'exec_module', 'load_module', 'create_module', 'Unpickler'}


def _enclosing(tree):
    """node id -> qualname of the enclosing def/class"""
    out = {}

    def walk(node, stack):
        for ch in ast.iter_child_nodes(node):
            if isinstance(ch, (ast.FunctionDef, ast.AsyncFunctionDef, ast.ClassDef)):
                walk(ch, stack + [ch.name])
            else:
                out[id(ch)] = '.'.join(stack) or '<module>'
                walk(ch, stack)
    walk(tree, [])
    return out


def exec_primitive_sites(repo):
    """[(file, qualname, what, lineno)] of every syntactic import/exec/spawn/unpickle primitive"""
    sites = []
    for rel, path in py_files(repo):
        try:
            tree = parse(path)
        except SyntaxError:
            sites.append((rel, '<unparsable>', 'syntax error', 0))
            continue
        enc = _enclosing(tree)
        for n in ast.walk(tree):
            if not isinstance(n, ast.Call):
                continue
            f = n.func
            what = None
            if isinstance(f, ast.Name) and f.id in EXEC_NAMES:
                what = f.id
            elif isinstance(f, ast.Attribute) and isinstance(f.value, ast.Name) and (f.value.id, f.attr) in EXEC_ATTRS:
                what = '%s.%s' % (f.value.id, f.attr)
            elif isinstance(f, ast.Attribute) and f.attr in EXEC_METHOD_ATTRS and not \
                    (isinstance(f.value, ast.Name) and f.value.id in ('self', 'cls', 'functions', 'access', 'compiled',
                                                                      'inference_state')) \
                    and not (isinstance(f.value, ast.Attribute) and f.value.attr in ('compiled_subprocess',)):
                what = '.%s' % f.attr
            elif isinstance(f, ast.Name) and f.id in ('_GeneralizedPopen', 'Unpickler'):
                what = f.id
            if what:
                sites.append((rel, enc.get(id(n), '<module>'), what, n.lineno))
    return sites


def host_state_write_sites(repo):
    """[(file, qualname, what, lineno)]: writes to sys.path / sys.modules / os.environ / cwd / sys.std*"""
    sites = []

    def is_sys(node, attr):
        return isinstance(node, ast.Attribute) and isinstance(node.value, ast.Name) and node.value.id == 'sys' \
            and node.attr == attr
    for rel, path in py_files(repo):
        try:
            tree = parse(path)
        except SyntaxError:
            continue
        enc = _enclosing(tree)
        for n in ast.walk(tree):
            what = None
            if isinstance(n, (ast.Assign, ast.AugAssign)):
                tgts = n.targets if isinstance(n, ast.Assign) else [n.target]
                for t in tgts:
                    base = t.value if isinstance(t, ast.Subscript) else t
                    for a in ('path', 'modules', 'stdout', 'stderr', 'stdin', 'meta_path', 'path_hooks',
                              'path_importer_cache'):
                        if is_sys(base, a):
                            what = 'sys.%s =' % a
                    if isinstance(base, ast.Attribute) and isinstance(base.value, ast.Name) \
                            and base.value.id == 'os' and base.attr == 'environ':
                        what = 'os.environ ='
            elif isinstance(n, ast.Call) and isinstance(n.func, ast.Attribute):
                f = n.func
                if f.attr in MUTATING_METHODS | {'sort', 'reverse'}:
                    for a in ('path', 'modules', 'meta_path', 'path_hooks', 'path_importer_cache'):
                        if is_sys(f.value, a):
                            what = 'sys.%s.%s()' % (a, f.attr)
                    if isinstance(f.value, ast.Attribute) and isinstance(f.value.value, ast.Name) \
                            and f.value.value.id == 'os' and f.value.attr == 'environ':
                        what = 'os.environ.%s()' % f.attr
                if isinstance(f.value, ast.Name) and f.value.id == 'os' and f.attr in ('chdir', 'putenv', 'unsetenv',
                                                                                     'fchdir'):
                    what = 'os.%s()' % f.attr
                if isinstance(f.value, ast.Name) and f.value.id == 'sys' and f.attr in ('setrecursionlimit',):
                    what = 'sys.%s()' % f.attr
            elif isinstance(n, ast.Delete):
                for t in n.targets:
                    base = t.value if isinstance(t, ast.Subscript) else t
                    if is_sys(base, 'modules') or is_sys(base, 'path'):
                        what = 'del sys.%s[...]' % base.attr
            if what:
                sites.append((rel, enc.get(id(n), '<module>'), what, n.lineno))
    return sites


def compare(found, registered, key, kind, id_prefix, label_extra, label_missing, level='frame'):
    """inventory obligations: every found site is registered (else the frame is broken); every registered
    site whose contract carried a clause still exists (else undecided: shape changed)"""
    out = []
    fk = {key(f): f for f in found}
    extra = sorted(k for k in fk if k not in registered)
    out.append({'id': id_prefix + ':no-unregistered', 'kind': kind, 'ok': not extra, 'definite': True,
                'label': label_extra, 'detail': 'unregistered: %r' % ([fk[k] for k in extra],)})
    missing = sorted(k for k in registered if k not in fk)
    out.append({'id': id_prefix + ':registered-present', 'kind': kind, 'ok': None if missing else True,
                'label': label_missing, 'detail': 'missing: %r' % (missing,)})
    return out


def _walk_no_nested(node):
    """descendants of node without entering nested defs / lambdas / classes"""
    for ch in ast.iter_child_nodes(node):
        if isinstance(ch, (ast.FunctionDef, ast.AsyncFunctionDef, ast.Lambda, ast.ClassDef)):
            continue
        yield ch
        yield from _walk_no_nested(ch)


def _flat_targets(t):
    if isinstance(t, (ast.Tuple, ast.List)):
        for e in t.elts:
            yield from _flat_targets(e)
    else:
        yield t


def temporary_global_switches(repo, namespaces=('settings',)):
    """[(file, qualname, attr, lineno, ok, why)]: every function of jedi/ that assigns an attribute of a
    process-global namespace (jedi.settings) must restore it before every normal or raising exit that the function
    itself writes down: syntactic frame rule
      - the saved value is taken in the same statement as (or before) the switch,
      - a restoring assignment `ns.attr = <saved>` exists at the top level of the function body or in a `finally`,
      - no return / raise / yield lies between the switch and that restore unless the statement directly before it
        in its block is a restoring assignment."""
    out = []
    for rel, path in py_files(repo):
        if rel.replace(os.sep, '/') in ('jedi/settings.py',):
            continue
        try:
            tree = parse(path)
        except SyntaxError:
            continue
        enc = _enclosing(tree)
        for fn in [n for n in ast.walk(tree) if isinstance(n, (ast.FunctionDef, ast.AsyncFunctionDef))]:
            writes = []     # (stmt, attr)
            for n in _walk_no_nested(fn):
                if isinstance(n, (ast.Assign, ast.AugAssign, ast.AnnAssign)):
                    tg = n.targets if isinstance(n, ast.Assign) else [n.target]
                    for t in tg:
                        for e in _flat_targets(t):
                            if isinstance(e, ast.Attribute) and isinstance(e.value, ast.Name) and e.value.id in namespaces:
                                writes.append((n, e.attr))
                elif isinstance(n, ast.Call) and isinstance(n.func, ast.Name) and n.func.id == 'setattr' and n.args \
                        and isinstance(n.args[0], ast.Name) and n.args[0].id in namespaces:
                    writes.append((n, '<setattr>'))
            if not writes:
                continue
            qual = (enc.get(id(fn), '<module>') + '.' + fn.name).replace('<module>.', '')
            for attr in sorted({a for _, a in writes}):
                ws = sorted([w for w, a in writes if a == attr], key=lambda w: w.lineno)
                switch = ws[0]
                ok, why = True, 'restored on every written exit'

                def is_restore(stmt):
                    if not isinstance(stmt, ast.Assign) or stmt is switch:
                        return False
                    return any(isinstance(e, ast.Attribute) and isinstance(e.value, ast.Name) and e.value.id in namespaces
                               and e.attr == attr for t in stmt.targets for e in _flat_targets(t)) \
                        and isinstance(stmt.value, ast.Name)
                restores = [w for w in ws[1:] if is_restore(w)]
                # the saved value must be read no later than the switch statement
                saved_names = {w.value.id for w in restores}
                saved_ok = False
                for n in _walk_no_nested(fn):
                    if isinstance(n, ast.Assign) and n.lineno <= switch.lineno:
                        names = {e.id for t in n.targets for e in _flat_targets(t) if isinstance(e, ast.Name)}
                        reads = any(isinstance(x, ast.Attribute) and isinstance(x.value, ast.Name) and x.value.id in namespaces
                                    and x.attr == attr for x in ast.walk(n.value))
                        if names & saved_names and reads:
                            saved_ok = True
                top = [s for s in fn.body if s in restores]
                in_finally = []
                for n in _walk_no_nested(fn):
                    if isinstance(n, ast.Try):
                        in_finally += [s for s in n.finalbody if s in restores]
                if attr == '<setattr>':
                    ok, why = False, 'setattr on a process-global namespace'
                elif not restores or not saved_ok:
                    ok, why = False, 'no restoring assignment of the saved value'
                elif in_finally:
                    ok, why = True, 'restored in a finally block'
                elif not top:
                    ok, why = False, 'the restoring assignment is not on the straight-line path of the function body'
                else:
                    last = max(top, key=lambda s: s.lineno)
                    # exits between switch and final restore
                    blocks = []
                    for n in [fn] + list(_walk_no_nested(fn)):
                        for field in ('body', 'orelse', 'finalbody'):
                            b = getattr(n, field, None)
                            if isinstance(b, list) and b and isinstance(b[0], ast.stmt):
                                blocks.append(b)
                        if isinstance(n, ast.Try):
                            for h in n.handlers:
                                blocks.append(h.body)
                    for b in blocks:
                        for i, s in enumerate(b):
                            if switch.lineno < s.lineno < last.lineno:
                                exits = isinstance(s, (ast.Return, ast.Raise)) or \
                                    (isinstance(s, ast.Expr) and isinstance(s.value, (ast.Yield, ast.YieldFrom)))
                                if exits and not (i > 0 and is_restore(b[i - 1])):
                                    ok, why = False, 'line %d leaves the function while %s.%s is still switched' \
                                        % (s.lineno, namespaces[0], attr)
                    # statements after the final restore must not write the attribute again
                    if any(w.lineno > last.lineno for w in ws):
                        ok, why = False, 'written again after the restore'
                out.append((rel.replace(os.sep, '/'), qual, attr, switch.lineno, ok, why))
    return out
