"""Loops: concrete unrolling, inductive invariants over DONE/ITEM/REST, bounded unrolling."""
import ast
import z3

from .types import (INT, BOOL, STR, ANY, NONE, OptT, TupT, SeqT, SetT, DictT, ObjT,
                    sort_of, Ref)
from .values import (Unsupported, SV, MNONE, MTup, MList, MFn, MCls, MNS, MU, MExc, MFrozen,
                     MDictV, MEnum, MRev, MZip, MRange, fresh, fresh_name, type_of, unify_types,
                     pack, as_sv, tuple_items, truthy)
from .engine import Outcome, NORMAL, RETURN, RAISE, BREAK, CONTINUE
from .calls import assigned_names, MUTATORS


def loop_key(V, s):
    return V.loop_ids.get(id(s))


def heap_fields_written(V, nodes):
    """syntactic over-approximation of the heap fields a loop body may write"""
    fields = set()
    callee_mods = set()

    class W(ast.NodeVisitor):
        def visit_Attribute(self, n):
            if isinstance(n.ctx, (ast.Store, ast.Del)):
                fields.add(n.attr)
            self.generic_visit(n)

        def visit_AugAssign(self, n):
            t = n.target
            if isinstance(t, ast.Attribute):
                fields.add(t.attr)
            if isinstance(t, ast.Subscript) and isinstance(t.value, ast.Attribute):
                fields.add(t.value.attr)
            self.generic_visit(n)

        def visit_Subscript(self, n):
            if isinstance(n.ctx, (ast.Store, ast.Del)) and isinstance(n.value, ast.Attribute):
                fields.add(n.value.attr)
            self.generic_visit(n)

        def visit_Call(self, n):
            f = n.func
            if isinstance(f, ast.Attribute) and f.attr in MUTATORS and isinstance(f.value, ast.Attribute):
                fields.add(f.value.attr)
            name = f.id if isinstance(f, ast.Name) else (f.attr if isinstance(f, ast.Attribute) else None)
            if name:
                callee_mods.add(name)
            self.generic_visit(n)
    for nd in nodes:
        W().visit(nd)
    keys = set()
    for fam in V.reg.families.values():
        for f in fam.fields:
            if f in fields:
                keys.add((fam.name, f))
        for mname, spec in fam.methods.items():
            if mname in callee_mods:
                keys.update(spec.modifies)
    for name in callee_mods:
        sp = V.c.names.get(name) or V.reg.names.get(name)
        if hasattr(sp, 'modifies'):
            keys.update(sp.modifies)
    return keys


def havoc(V, st, names, heap_keys, has_yield, before):
    for n in names:
        cur = before.env.get(n)
        t = V.c.locals.get(n)
        if cur is None and t is None:
            st.env.pop(n, None)
            continue
        if isinstance(cur, MU):
            cur = cur.val
        if t is None:
            if isinstance(cur, (MFn, MCls, MNS)):
                raise Unsupported('loop reassigns callable %s' % n)
            try:
                t = type_of(cur)
            except Unsupported:
                t = None
            if t is None:
                raise Unsupported('loop-carried variable %s needs a type in contract.locals' % n)
        st.env[n] = fresh(t, n)
        if n in V.int_nonneg:
            pass
    for key in heap_keys:
        fam, field = key
        t = V.family(fam).fields[field]
        st.heap[key] = z3.Const(fresh_name('heap_%s_%s' % key), z3.ArraySort(Ref, sort_of(t)))
    if has_yield:
        yt = V.c.yields
        st.ghost['yielded'] = fresh(SeqT(yt), 'yielded')
        if V.c.yield_key:
            kt = V.ykey_type()
            st.ghost['ykeys'] = fresh(SetT(kt), 'ykeys')


def has_yield(nodes):
    for nd in nodes:
        for n in ast.walk(nd):
            if isinstance(n, (ast.Yield, ast.YieldFrom)):
                return True
    return False


def exec_for(V, s, st):
    key = loop_key(V, s)
    it = V.ev(s.iter, st)
    outs = []
    V.drain_exc(outs)
    live_src = it.items if isinstance(it, MEnum) and not isinstance(it.items, list) else it
    if isinstance(live_src, SV) and V.is_live(live_src):
        # iterating a live object runs its __iter__/__next__: effect obligation; the elements are live objects
        V.live_effect(st, 'user:iter', live_src, s)
        f = V.uf('Live.items', [Ref], z3.SeqSort(Ref))
        seq = SV(SeqT(ObjT('Live')), f(live_src.z))
        it = MEnum(seq, it.start) if isinstance(it, MEnum) else seq
    items = V.iter_items(it, st, s)
    if items is not None:
        return outs + unroll_concrete(V, s, items, st)
    inv = V.c.invariants.get(key)
    # normalise the iterated sequence
    start = 0
    enum = False
    if isinstance(it, MEnum):
        enum = True
        start = it.start
        it = it.items
    if isinstance(it, MU):
        it = V.check_bound(st, it, s)
    from . import paths
    if isinstance(it, paths.MPathParents):
        # Path.parents: some sequence of proper ancestors (assumed pathlib contract)
        from .types import PATH
        f = V.uf('path.parents_seq', [z3.StringSort()], z3.SeqSort(z3.StringSort()))
        seqz = f(it.p.z)
        qi = z3.Int(fresh_name('pi'))
        st.fact(z3.ForAll([qi], z3.Implies(z3.And(qi >= 0, qi < z3.Length(seqz)),
                                             paths.is_proper_ancestor(seqz[qi], it.p.z))))
        it = SV(SeqT(PATH), seqz)
    if isinstance(it, SV) and isinstance(it.t, OptT):
        from .types import opt_is_none
        from .values import strip_opt
        V.may_raise(st, z3.Not(opt_is_none(it.t, it.z)), 'TypeError', 'iteration over None', s)
        it = strip_opt(it)
    if not (isinstance(it, SV) and isinstance(it.t, SeqT)):
        raise Unsupported('for loop over %r' % (it,))
    if inv is not None:
        return outs + for_invariant(V, s, st, it, enum, start, inv, key)
    if key in V.c.unroll:
        return outs + for_bounded(V, s, st, it, enum, start, V.c.unroll[key], key)
    raise Unsupported('loop %r at line %d needs an invariant or an unroll bound' % (key, s.lineno))


def unroll_concrete(V, s, items, st):
    outs = []
    breaks = []
    cur = [st]
    for item in items:
        nxt = []
        for c in cur:
            V.bind_target(s.target, item, c, s)
            for o in V.exec_block(s.body, c):
                if o.kind in (NORMAL, CONTINUE):
                    nxt.append(o.st)
                elif o.kind == BREAK:
                    breaks.append(o.st)
                else:
                    outs.append(o)
        cur = V.merge_list(nxt)
        if not cur:
            break
    after = []
    for c in cur:
        if s.orelse:
            for o in V.exec_block(s.orelse, c):
                if o.kind == NORMAL:
                    after.append(o.st)
                else:
                    outs.append(o)
        else:
            after.append(c)
    after.extend(breaks)
    return outs + [Outcome(NORMAL, m) for m in V.merge_list(after)]


def for_bounded(V, s, st, it, enum, start, bound, key):
    V.bounded_notes.append('loop %s of %s unrolled to length <= %d' % (key, V.c.qualname, bound))
    n = z3.Length(it.z)
    st.assume(n <= bound)
    outs = []
    exits = []
    cur = [st]
    for k in range(bound + 1):
        nxt = []
        for c in cur:
            e = c.fork()
            e.assume(n == k)
            if V.feasible(e.pc):
                exits.append(e)
            if k == bound:
                continue
            c.assume(n > k)
            if not V.feasible(c.pc):
                continue
            item = SV(it.t.elem, it.z[k])
            if enum:
                item = MTup([V.lit(k + start), item])
            V.bind_target(s.target, item, c, s)
            for o in V.exec_block(s.body, c):
                if o.kind in (NORMAL, CONTINUE):
                    nxt.append(o.st)
                elif o.kind == BREAK:
                    exits.append(o.st)
                else:
                    outs.append(o)
        cur = V.merge_list(nxt)
    if s.orelse:
        raise Unsupported('for-else in bounded loop')
    return outs + [Outcome(NORMAL, m) for m in V.merge_list(exits)]


def for_invariant(V, s, st, it, enum, start, inv, key):
    S = it.z
    seq_t = it.t
    et = seq_t.elem
    empty = z3.Empty(sort_of(seq_t))
    names = assigned_names(s.body) | assigned_names([s.target])
    tnames = assigned_names([s.target])
    body_assigned = assigned_names(s.body)
    heap_keys = heap_fields_written(V, s.body)
    if key in V.c.loop_modifies:
        heap_keys = set(V.c.loop_modifies[key])
    yl = has_yield(s.body)
    outs = []

    def inv_env(done, rest, item=None):
        e = {'DONE': SV(seq_t, done), 'REST': SV(seq_t, rest), 'SEQ': SV(seq_t, S)}
        for nm in names:
            # values the loop-carried variables had when the loop was entered
            if nm in st.env and not isinstance(st.env[nm], MU):
                e['PRE_' + nm] = st.env[nm]
        if item is not None:
            e['ITEM'] = item
        return e

    def yielded(st_):
        y = st_.ghost.get('yielded')
        if y is None and V.c.yields is not None:
            y = SV(SeqT(V.c.yields), z3.Empty(sort_of(SeqT(V.c.yields))))
        out = {'YIELDED': y} if y is not None else {}
        if V.c.yield_key:
            ks = st_.ghost.get('ykeys')
            if ks is None:
                kt = V.ykey_type()
                ks = SV(SetT(kt), z3.K(sort_of(kt), False))
            out['YKEYS'] = ks
        return out

    # inv-init
    for e in inv:
        env = inv_env(empty, S)
        env.update(yielded(st))
        V.oblige(st, V.eval_spec_bool(e, st, env), 'inv-init', 'loop %s: %s' % (key, e), s)
    before = st
    # per-element facts: proved for every element of the sequence at loop entry, used for ITEM
    each = V.c.loop_each.get(key, [])
    for e in each:
        qi = z3.Int(fresh_name('each'))
        body = V.eval_spec_bool(e, st, {'ITEM': SV(et, S[qi])})
        V.oblige(st, z3.ForAll([qi], z3.Implies(z3.And(qi >= 0, qi < z3.Length(S)), body)), 'inv-init',
                 'loop %s: every element satisfies %s' % (key, e), s, assume=False)
    # arbitrary iteration
    h = st.fork()
    havoc(V, h, names, heap_keys, yl, before)
    done = z3.Const(fresh_name('DONE'), sort_of(seq_t))
    rest = z3.Const(fresh_name('REST'), sort_of(seq_t))
    item = fresh(et, 'ITEM')
    h.assume(S == z3.Concat(done, z3.Unit(item.z), rest))
    for e in each:
        h.assume(V.eval_spec_bool(e, h, {'ITEM': item}))
    env = inv_env(done, z3.Concat(z3.Unit(item.z), rest), item)
    env.update(yielded(h))
    for e in inv:
        h.assume(V.eval_spec_bool(e, h, env))
    tv = item
    if enum:
        tv = MTup([SV(INT, z3.Length(done) + start), item])
    V.bind_target(s.target, tv, h, s)
    exits = []
    for o in V.exec_block(s.body, h):
        if o.kind in (NORMAL, CONTINUE):
            env2 = inv_env(z3.Concat(done, z3.Unit(item.z)), rest, item)
            env2.update(yielded(o.st))
            for e in inv:
                V.oblige(o.st, V.eval_spec_bool(e, o.st, env2), 'inv-step', 'loop %s: %s' % (key, e), s)
        elif o.kind == BREAK:
            exits.append(o.st)
        else:
            outs.append(o)
    # exit
    x = st.fork()
    havoc(V, x, names, heap_keys, yl, before)
    envx = inv_env(S, empty)
    envx.update(yielded(x))
    for e in inv:
        x.assume(V.eval_spec_bool(e, x, envx))
    # loop targets keep the last item
    n = z3.Length(S)
    if not (tnames & body_assigned) and isinstance(s.target, (ast.Name, ast.Tuple)):
        last = SV(et, S[n - 1])
        lv = MTup([SV(INT, n - 1 + start), last]) if enum else last
        tmp = x.fork()
        V.bind_target(s.target, lv, tmp, s)
        for tn in tnames:
            lastv = tmp.env[tn]
            prev = before.env.get(tn)
            if prev is None:
                x.env[tn] = MU(lastv, n > 0)
            else:
                from .values import ite
                m = ite(n > 0, lastv, prev.val if isinstance(prev, MU) else prev)
                if m is None:
                    x.env.pop(tn, None)
                elif isinstance(prev, MU):
                    x.env[tn] = MU(m, z3.Or(n > 0, prev.cond))
                else:
                    x.env[tn] = m
    else:
        for tn in tnames:
            x.env.pop(tn, None) if tn not in before.env else None
    after = []
    if s.orelse:
        for o in V.exec_block(s.orelse, x):
            if o.kind == NORMAL:
                after.append(o.st)
            else:
                outs.append(o)
    else:
        after.append(x)
    after.extend(exits)
    return outs + [Outcome(NORMAL, m) for m in V.merge_list(after)]


def exec_while(V, s, st):
    key = loop_key(V, s)
    inv = V.c.invariants.get(key)
    if inv is None:
        if key in V.c.unroll:
            return while_bounded(V, s, st, V.c.unroll[key], key)
        raise Unsupported('while loop %r at line %d needs an invariant' % (key, s.lineno))
    names = assigned_names(s.body)
    heap_keys = heap_fields_written(V, s.body)
    if key in V.c.loop_modifies:
        heap_keys = set(V.c.loop_modifies[key])
    yl = has_yield(s.body)
    outs = []
    for e in inv:
        V.oblige(st, V.eval_spec_bool(e, st), 'inv-init', 'loop %s: %s' % (key, e), s)
    before = st
    h = st.fork()
    havoc(V, h, names, heap_keys, yl, before)
    for e in inv:
        h.assume(V.eval_spec_bool(e, h))
    dec = (V.c.decreases or {}).get(key) if isinstance(V.c.decreases, dict) else None
    d0 = None
    if dec:
        d0 = pack(V.eval_spec(dec, h), INT)
    c = truthy(V.ev(s.test, h))
    V.drain_exc(outs)
    x = h.fork()
    x.assume(z3.Not(c))
    h.assume(c)
    exits = []
    if V.feasible(h.pc):
        for o in V.exec_block(s.body, h):
            if o.kind in (NORMAL, CONTINUE):
                for e in inv:
                    V.oblige(o.st, V.eval_spec_bool(e, o.st), 'inv-step', 'loop %s: %s' % (key, e), s)
                if dec:
                    d1 = pack(V.eval_spec(dec, o.st), INT)
                    V.oblige(o.st, z3.And(d0 >= 0, d1 < d0), 'decreases', 'loop %s: %s' % (key, dec), s)
            elif o.kind == BREAK:
                exits.append(o.st)
            else:
                outs.append(o)
    after = []
    if V.feasible(x.pc):
        if s.orelse:
            for o in V.exec_block(s.orelse, x):
                if o.kind == NORMAL:
                    after.append(o.st)
                else:
                    outs.append(o)
        else:
            after.append(x)
    after.extend(exits)
    return outs + [Outcome(NORMAL, m) for m in V.merge_list(after)]


def while_bounded(V, s, st, bound, key):
    V.bounded_notes.append('while loop %s of %s unrolled %d times' % (key, V.c.qualname, bound))
    outs = []
    exits = []
    cur = [st]
    for k in range(bound + 1):
        nxt = []
        for c in cur:
            cond = truthy(V.ev(s.test, c))
            V.drain_exc(outs)
            e = c.fork()
            e.assume(z3.Not(cond))
            if V.feasible(e.pc):
                exits.append(e)
            c.assume(cond)
            if k == bound:
                # bounded scope: executions needing more iterations are outside the bound
                continue
            if not V.feasible(c.pc):
                continue
            for o in V.exec_block(s.body, c):
                if o.kind in (NORMAL, CONTINUE):
                    nxt.append(o.st)
                elif o.kind == BREAK:
                    exits.append(o.st)
                else:
                    outs.append(o)
        cur = V.merge_list(nxt)
        if not cur:
            break
    return outs + [Outcome(NORMAL, m) for m in V.merge_list(exits)]
