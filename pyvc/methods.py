"""Models of str / list / set / dict methods (DESIGN §2.4)."""
import z3

from .types import PATH
from .types import (INT, BOOL, STR, ANY, NONE, OptT, TupT, SeqT, SetT, DictT, ObjT,
                    sort_of, opt_none, opt_some, opt_is_none, opt_val, Ref)
from .values import simp
from .values import (Unsupported, SV, MNONE, MTup, MList, MFn, MCls, MNS, MU, MExc,
                     fresh, fresh_name, type_of, unify_types, pack, as_sv, tuple_items, truthy,
                     strip_opt, py_eq)
from .engine import MFrozen, MDictV


def _str(v):
    return pack(v, STR)


def str_lower(V, z):
    f = V.uf('str.lower', [z3.StringSort()], z3.StringSort())
    V.need_axiom('lower')
    return f(z)


def call_method(V, recv, name, args, kwargs, st, node):
    if isinstance(recv, SV) and isinstance(recv.t, OptT):
        V.may_raise(st, z3.Not(opt_is_none(recv.t, recv.z)), 'AttributeError',
                    'method .%s on Optional value that may be None' % name, node)
        recv = strip_opt(recv)
    if isinstance(recv, SV) and recv.t == STR:
        # None passed to a str method is a TypeError in Python
        args = [V.nn(st, a, node, 'argument of str.%s' % name) for a in args]
        return str_method(V, recv, name, args, kwargs, st, node)
    if isinstance(recv, SV) and recv.t == PATH:
        from . import paths
        return paths.path_method(V, recv, name, args, kwargs, st, node)
    if isinstance(recv, (MList, MTup)) or (isinstance(recv, SV) and isinstance(recv.t, SeqT)):
        return seq_method(V, recv, name, args, kwargs, st, node)
    if isinstance(recv, SV) and isinstance(recv.t, DictT):
        return dict_method(V, recv, name, args, kwargs, st, node)
    if isinstance(recv, SV) and isinstance(recv.t, SetT):
        raise Unsupported('set method %s' % name)
    if isinstance(recv, SV) and recv.t == ANY and name in OPAQUE_METHODS:
        # a method of an opaque value (bytes.decode ...): some value functionally determined by receiver and
        # arguments; nothing else is known about it.  It may raise.
        from .values import box_any, MExc
        zargs = [recv.z] + [box_any(a) for a in args] + [box_any(kwargs[k]) for k in sorted(kwargs)]
        tag = name + ''.join('|' + k for k in sorted(kwargs))
        rt = OPAQUE_METHODS[name]
        from .types import sort_of
        f = V.uf('any.%s' % tag, [a.sort() for a in zargs], sort_of(rt))
        for cls in ('UnicodeDecodeError', 'TypeError', 'AttributeError'):
            bad = st.fork()
            if V.feasible(bad.pc):
                V.exc_out.append((bad, MExc(cls, [], origin='.%s()' % name)))
        return SV(rt, f(*zargs))
    raise Unsupported('method %s on %r' % (name, recv))


OPAQUE_METHODS = {'decode': STR}


def str_method(V, s, name, args, kwargs, st, node):
    z = s.z
    if name == 'startswith' and len(args) == 1:
        a = args[0]
        if isinstance(a, MTup):
            return SV(BOOL, z3.Or(*[z3.PrefixOf(_str(i), z) for i in a.items]))
        return SV(BOOL, z3.PrefixOf(_str(a), z))
    if name == 'endswith' and len(args) == 1:
        a = args[0]
        if isinstance(a, MTup):
            return SV(BOOL, z3.Or(*[z3.SuffixOf(_str(i), z) for i in a.items]))
        return SV(BOOL, z3.SuffixOf(_str(a), z))
    if name == 'find' and len(args) == 1:
        return SV(INT, z3.IndexOf(z, _str(args[0]), 0))
    if name == 'lower' and not args:
        return SV(STR, str_lower(V, z))
    if name == 'upper' and not args:
        return SV(STR, V.uf('str.upper', [z3.StringSort()], z3.StringSort())(z))
    if name == 'isidentifier' and not args:
        return SV(BOOL, V.uf('str.isidentifier', [z3.StringSort()], z3.BoolSort())(z))
    if name in ('strip', 'lstrip', 'rstrip'):
        if args:
            chars = simp(_str(args[0]))
            if not z3.is_string_value(chars):
                raise Unsupported('strip with symbolic chars')
            key = chars.as_string()
        else:
            key = '<ws>'
        f = V.uf('str.%s[%s]' % (name, key), [z3.StringSort()], z3.StringSort())
        r = f(z)
        # sound facts: result is a substring; lstrip keeps a suffix, rstrip a prefix
        if name == 'lstrip':
            st.assume(z3.SuffixOf(r, z))
        elif name == 'rstrip':
            st.assume(z3.PrefixOf(r, z))
        else:
            st.assume(z3.Contains(z, r))
        if key != '<ws>' and len(key) == 1:
            c = z3.StringVal(key)
            if name == 'lstrip':
                st.assume(z3.Not(z3.PrefixOf(c, r)))
                st.assume(z3.Implies(z3.Not(z3.PrefixOf(c, z)), r == z))
            if name == 'rstrip':
                st.assume(z3.Not(z3.SuffixOf(c, r)))
                st.assume(z3.Implies(z3.Not(z3.SuffixOf(c, z)), r == z))
        return SV(STR, r)
    if name == 'rpartition' and len(args) == 1:
        sep = _str(args[0])
        a = fresh(STR, 'rp_head')
        b = fresh(STR, 'rp_tail')
        has = z3.Contains(z, sep)
        st.assume(z3.Implies(has, z3.And(z == z3.Concat(a.z, sep, b.z), z3.Not(z3.Contains(b.z, sep)))))
        st.assume(z3.Implies(z3.Not(has), z3.And(a.z == z3.StringVal(''), b.z == z)))
        V.oblige_spec_nonempty(st, sep, node)
        mid = SV(STR, z3.If(has, sep, z3.StringVal('')))
        return MTup([a, mid, b])
    if name == 'partition' and len(args) == 1:
        sep = _str(args[0])
        a = fresh(STR, 'p_head')
        b = fresh(STR, 'p_tail')
        has = z3.Contains(z, sep)
        st.assume(z3.Implies(has, z3.And(z == z3.Concat(a.z, sep, b.z), z3.Not(z3.Contains(a.z, sep)))))
        st.assume(z3.Implies(z3.Not(has), z3.And(b.z == z3.StringVal(''), a.z == z)))
        mid = SV(STR, z3.If(has, sep, z3.StringVal('')))
        return MTup([a, mid, b])
    if name == 'split' and len(args) == 1:
        sep = _str(args[0])
        f = V.uf('str.split', [z3.StringSort(), z3.StringSort()], z3.SeqSort(z3.StringSort()))
        r = f(z, sep)
        V.need_axiom('split')
        st.assume(z3.Length(r) >= 1)
        st.assume(z3.Implies(z3.Not(z3.Contains(z, sep)), r == z3.Unit(z)))
        return SV(SeqT(STR), r)
    if name == 'join' and len(args) == 1:
        a = args[0]
        if isinstance(a, (MList, MTup)):
            parts = []
            for k, it in enumerate(a.items):
                if k:
                    parts.append(z)
                parts.append(_str(it))
            if not parts:
                return SV(STR, z3.StringVal(''))
            return SV(STR, parts[0] if len(parts) == 1 else z3.Concat(*parts))
        seq = pack(a, SeqT(STR))
        f = V.uf('str.join', [z3.StringSort(), z3.SeqSort(z3.StringSort())], z3.StringSort())
        V.need_axiom('join')
        return SV(STR, f(z, seq))
    if name == 'replace' and len(args) == 2:
        return SV(STR, z3.Replace(z, _str(args[0]), _str(args[1]))) if False else \
            SV(STR, V.uf('str.replace_all', [z3.StringSort()] * 3, z3.StringSort())(z, _str(args[0]), _str(args[1])))
    if name == 'count' and len(args) == 1:
        f = V.uf('str.count', [z3.StringSort(), z3.StringSort()], z3.IntSort())
        r = f(z, _str(args[0]))
        st.assume(r >= 0)
        return SV(INT, r)
    if name == 'format':
        return fresh(STR, 'fmt')
    if name == 'encode':
        raise Unsupported('bytes')
    raise Unsupported('str method %s' % name)


def seq_method(V, s, name, args, kwargs, st, node):
    if name == 'count' and len(args) == 1:
        if isinstance(s, (MList, MTup)):
            tot = z3.IntVal(0)
            for it in s.items:
                tot = tot + z3.If(py_eq(it, args[0]), 1, 0)
            return SV(INT, simp(tot))
        x = pack(args[0], s.t.elem)
        f = V.uf('seq.count[%s]' % s.t.elem.key(), [sort_of(s.t), sort_of(s.t.elem)], z3.IntSort())
        r = f(s.z, x)
        st.assume(r >= 0)
        st.assume(r <= z3.Length(s.z))
        st.assume((r > 0) == z3.Contains(s.z, z3.Unit(x)))
        V.need_axiom('count:' + s.t.elem.key())
        return SV(INT, r)
    if name == 'index' and len(args) == 1:
        if isinstance(s, SV) and isinstance(s.t.elem, ObjT) and isinstance(args[0], SV) and args[0].t == STR:
            # list.index(text) over objects with a custom __eq__(str): the first element equal to it
            from .values import FAMILY_EQ_STR
            eqf = FAMILY_EQ_STR.get(s.t.elem.family)
            if eqf is None:
                V.may_raise(st, z3.BoolVal(False), 'ValueError', 'list.index: no element equals a str', node)
                raise Unsupported('index of str in object list')
            f = V.uf('seq.index_eq[%s]' % s.t.elem.family, [sort_of(s.t), z3.StringSort()], z3.IntSort())
            i = f(s.z, args[0].z)
            j = z3.Int(fresh_name('ix'))
            n = z3.Length(s.z)
            exists = z3.Exists([j], z3.And(j >= 0, j < n, eqf(s.z[j], args[0].z)))
            V.may_raise(st, exists, 'ValueError', 'list.index(x): x not in list', node)
            st.assume(z3.And(i >= 0, i < n, eqf(s.z[i], args[0].z)))
            st.fact(z3.ForAll([j], z3.Implies(z3.And(j >= 0, j < i), z3.Not(eqf(s.z[j], args[0].z)))))
            return SV(INT, i)
        if isinstance(s, SV):
            x = pack(args[0], s.t.elem)
            V.may_raise(st, z3.Contains(s.z, z3.Unit(x)), 'ValueError', 'list.index of missing item', node)
            return SV(INT, z3.IndexOf(s.z, z3.Unit(x), 0))
        raise Unsupported('index on concrete list')
    if name == 'copy' and not args:
        return s
    raise Unsupported('sequence method %s' % name)


def dict_method(V, d, name, args, kwargs, st, node):
    srt = sort_of(d.t)
    if name == 'get':
        k = pack(args[0], d.t.k)
        has = z3.Select(srt.dom(d.z), k)
        val = SV(d.t.v, z3.Select(srt.vals(d.z), k))
        default = args[1] if len(args) > 1 else MNONE
        from .values import ite
        r = ite(has, val, default)
        if r is None:
            raise Unsupported('dict.get default of incompatible type')
        return r
    if name in ('items', 'values', 'keys'):
        raise Unsupported('dict iteration (%s)' % name)
    raise Unsupported('dict method %s' % name)


def mutate(V, recv, name, args, kwargs, st, node):
    """returns (new container value, call result)"""
    if isinstance(recv, MList):
        if name == 'append':
            return MList(recv.items + [args[0]]), MNONE
        if name == 'insert':
            iz = simp(pack(args[0], INT))
            if z3.is_int_value(iz):
                items = list(recv.items)
                items.insert(iz.as_long(), args[1])
                return MList(items), MNONE
        if name == 'extend' and isinstance(args[0], (MList, MTup)):
            return MList(recv.items + list(args[0].items)), MNONE
        if name == 'pop' and not args:
            if not recv.items:
                V.may_raise(st, z3.BoolVal(False), 'IndexError', 'pop from empty list', node)
                raise Unsupported('pop from empty list')
            return MList(recv.items[:-1]), recv.items[-1]
        if name == 'reverse':
            return MList(list(reversed(recv.items))), MNONE
        # fall through to symbolic
        t = type_of(recv)
        if t is None:
            if name in ('extend',):
                t = type_of(args[0])
            else:
                raise Unsupported('mutation %s of empty untyped list' % name)
        recv = as_sv(recv, t)
    if isinstance(recv, SV) and isinstance(recv.t, SeqT):
        z = recv.z
        et = recv.t.elem
        if name == 'append':
            a0 = args[0]
            if isinstance(a0, SV) and isinstance(a0.t, OptT) and not isinstance(et, OptT):
                a0 = V.nn(st, a0, node, 'appended value (list of non-optional values per contract)')
            return SV(recv.t, z3.Concat(z, z3.Unit(pack(a0, et)))), MNONE
        if name == 'extend':
            return SV(recv.t, z3.Concat(z, pack(args[0], recv.t))), MNONE
        if name == 'insert':
            i = simp(pack(args[0], INT))
            if z3.is_int_value(i) and i.as_long() == 0:
                return SV(recv.t, z3.Concat(z3.Unit(pack(args[1], et)), z)), MNONE
            raise Unsupported('insert at symbolic index')
        if name == 'pop':
            n = z3.Length(z)
            if not args:
                V.may_raise(st, n > 0, 'IndexError', 'pop from empty list', node)
                return SV(recv.t, z3.SubSeq(z, 0, n - 1)), SV(et, z[n - 1])
            i = simp(pack(args[0], INT))
            if z3.is_int_value(i) and i.as_long() == 0:
                V.may_raise(st, n > 0, 'IndexError', 'pop from empty list', node)
                return SV(recv.t, z3.SubSeq(z, 1, n - 1)), SV(et, z[0])
            raise Unsupported('pop at symbolic index')
        if name == 'remove':
            x = pack(args[0], et)
            V.may_raise(st, z3.Contains(z, z3.Unit(x)), 'ValueError', 'list.remove(x): x not in list', node)
            i = z3.IndexOf(z, z3.Unit(x), 0)
            n = z3.Length(z)
            return SV(recv.t, z3.Concat(z3.SubSeq(z, 0, i), z3.SubSeq(z, i + 1, n - i - 1))), MNONE
        if name == 'clear':
            return SV(recv.t, z3.Empty(sort_of(recv.t))), MNONE
        raise Unsupported('list mutation %s' % name)
    if isinstance(recv, MFrozen):
        if name == 'add':
            raise Unsupported('add to literal set (declare a SetT local)')
    if isinstance(recv, SV) and isinstance(recv.t, SetT):
        et = recv.t.elem
        if name == 'add':
            return SV(recv.t, z3.Store(recv.z, pack(args[0], et), True)), MNONE
        if name in ('discard',):
            return SV(recv.t, z3.Store(recv.z, pack(args[0], et), False)), MNONE
        if name == 'remove':
            V.may_raise(st, z3.Select(recv.z, pack(args[0], et)), 'KeyError', 'set.remove of missing', node)
            return SV(recv.t, z3.Store(recv.z, pack(args[0], et), False)), MNONE
        raise Unsupported('set mutation %s' % name)
    if isinstance(recv, SV) and isinstance(recv.t, DictT):
        srt = sort_of(recv.t)
        if name == 'setdefault':
            k = pack(args[0], recv.t.k)
            dv = pack(args[1], recv.t.v)
            has = z3.Select(srt.dom(recv.z), k)
            newvals = z3.If(has, srt.vals(recv.z), z3.Store(srt.vals(recv.z), k, dv))
            new = srt.mk(z3.Store(srt.dom(recv.z), k, True), newvals)
            return SV(recv.t, new), SV(recv.t.v, z3.Select(newvals, k))
        if name == 'pop':
            k = pack(args[0], recv.t.k)
            has = z3.Select(srt.dom(recv.z), k)
            if len(args) < 2:
                V.may_raise(st, has, 'KeyError', 'dict.pop of missing key', node)
            new = srt.mk(z3.Store(srt.dom(recv.z), k, False), srt.vals(recv.z))
            val = SV(recv.t.v, z3.Select(srt.vals(recv.z), k))
            if len(args) >= 2:
                from .values import ite
                val = ite(has, val, args[1])
                if val is None:
                    raise Unsupported('dict.pop default type')
            return SV(recv.t, new), val
        if name == 'clear':
            new = srt.mk(z3.K(sort_of(recv.t.k), False), srt.vals(recv.z))
            return SV(recv.t, new), MNONE
        raise Unsupported('dict mutation %s' % name)
    raise Unsupported('mutation %s on %r' % (name, recv))
