"""Counter-model decoding: solver values (z3 or cvc5, as S-expressions) -> Python values."""
import re

from .types import PATH
from .types import INT, BOOL, STR, ANY, NONE, OptT, TupT, SeqT, SetT, DictT, ObjT


def tokenize(s):
    toks = []
    i = 0
    n = len(s)
    while i < n:
        c = s[i]
        if c.isspace():
            i += 1
        elif c in '()':
            toks.append(c)
            i += 1
        elif c == '"':
            j = i + 1
            buf = []
            while j < n:
                if s[j] == '"':
                    if j + 1 < n and s[j + 1] == '"':
                        buf.append('"')
                        j += 2
                        continue
                    break
                buf.append(s[j])
                j += 1
            toks.append(('str', ''.join(buf)))
            i = j + 1
        elif c == '|':
            j = s.index('|', i + 1)
            toks.append(s[i + 1:j])
            i = j + 1
        else:
            j = i
            while j < n and not s[j].isspace() and s[j] not in '()':
                j += 1
            toks.append(s[i:j])
            i = j
    return toks


def parse(s):
    toks = tokenize(s)
    pos = [0]

    def rd():
        t = toks[pos[0]]
        pos[0] += 1
        if t == '(':
            lst = []
            while toks[pos[0]] != ')':
                lst.append(rd())
            pos[0] += 1
            return lst
        return t
    out = []
    while pos[0] < len(toks):
        out.append(rd())
    return out


_ESC = re.compile(r'\\u\{([0-9a-fA-F]+)\}|\\u([0-9a-fA-F]{4})|\\x([0-9a-fA-F]{2})')


def unescape(s):
    def rep(m):
        h = m.group(1) or m.group(2) or m.group(3)
        return chr(int(h, 16))
    return _ESC.sub(rep, s)


class Undecodable(Exception):
    pass


def decode(x, t):
    """S-expression `x` of type `t` -> python value. Refs/opaque -> ('ref', name)."""
    if t == INT:
        if isinstance(x, list) and len(x) == 2 and x[0] == '-':
            return -decode(x[1], INT)
        if isinstance(x, str) and re.fullmatch(r'-?\d+', x):
            return int(x)
        raise Undecodable('int %r' % (x,))
    if t == BOOL:
        if x == 'true':
            return True
        if x == 'false':
            return False
        raise Undecodable('bool %r' % (x,))
    if t == STR or t == PATH:
        if isinstance(x, tuple) and x[0] == 'str':
            return unescape(x[1])
        if isinstance(x, list):
            # (str.++ "a" "b") or (as seq.empty String) or seq.unit of chars
            if x and x[0] in ('str.++', 'seq.++'):
                return ''.join(decode(i, STR) for i in x[1:])
            if x and x[0] == 'as' and x[1] == 'seq.empty':
                return ''
            if x and x[0] == 'seq.unit':
                return decode_char(x[1])
        raise Undecodable('str %r' % (x,))
    if isinstance(t, SeqT):
        if isinstance(x, list):
            if x and x[0] == 'as' and x[1] == 'seq.empty':
                return []
            if x and x[0] == 'seq.unit':
                return [decode(x[1], t.elem)]
            if x and x[0] == 'seq.++':
                out = []
                for i in x[1:]:
                    out.extend(decode(i, t))
                return out
        raise Undecodable('seq %r' % (x,))
    if isinstance(t, OptT):
        if (isinstance(x, str) and x.startswith('none')) or \
                (isinstance(x, list) and x and x[0] == 'as' and str(x[1]).startswith('none')):
            return None
        if isinstance(x, list) and x and isinstance(x[0], str) and x[0].startswith('some'):
            return decode(x[1], t.inner)
        raise Undecodable('opt %r' % (x,))
    if isinstance(t, TupT):
        if isinstance(x, list) and x and isinstance(x[0], str) and x[0].startswith('mk') \
                and len(x) == 1 + len(t.items):
            return tuple(decode(i, it) for i, it in zip(x[1:], t.items))
        raise Undecodable('tuple %r' % (x,))
    if isinstance(t, ObjT) or t == ANY:
        if isinstance(x, list) and x and x[0] == 'as':
            return ('ref', str(x[1]))
        if isinstance(x, str):
            return ('ref', x)
        raise Undecodable('ref %r' % (x,))
    if isinstance(t, SetT):
        return decode_array(x, t.elem, BOOL)
    raise Undecodable('type %s' % (t,))


def decode_char(x):
    if isinstance(x, list) and x[0] == '_' and x[1] in ('Char', 'char'):
        v = x[2]
        return chr(int(v[2:], 16) if v.startswith('#x') else int(v))
    if isinstance(x, tuple) and x[0] == 'str':
        return unescape(x[1])
    raise Undecodable('char %r' % (x,))


def decode_array(x, kt, vt):
    """array value -> (dict of explicit entries, default)"""
    if isinstance(x, list) and len(x) == 2 and isinstance(x[0], list) and x[0][:2] == ['as', 'const']:
        return ({}, decode(x[1], vt))
    if isinstance(x, list) and x and x[0] == 'store':
        d, dflt = decode_array(x[1], kt, vt)
        d = dict(d)
        k = decode(x[2], kt)
        d[k if not isinstance(k, list) else tuple(k)] = decode(x[3], vt)
        return (d, dflt)
    raise Undecodable('array %r' % (x,))
