"""pathlib.Path values modelled as their normalised POSIX strings (assumed stdlib contract):
no trailing separator except the root, no '.'/'..' components, '.' is the empty relative path."""
import z3

from .types import PATH, INT, BOOL, STR, ANY, NONE, OptT, SeqT
from .values import Unsupported, SV, MNONE, MTup, MList, pack, fresh

SEP = z3.StringVal('/')
DOT = z3.StringVal('.')


class MPathParents:
    def __init__(self, p):
        self.p = p


def is_proper_ancestor(a, p):
    """a in Path(p).parents"""
    return z3.If(a == SEP, z3.And(z3.PrefixOf(SEP, p), z3.Length(p) > 1),
                 z3.And(z3.Length(a) > 0, a != DOT, z3.PrefixOf(z3.Concat(a, SEP), p)))


def join(a, b):
    bz = b.z if isinstance(b, SV) and b.t in (PATH, STR) else None
    if bz is None:
        raise Unsupported('path join with %r' % (b,))
    return SV(PATH, z3.If(bz == DOT, a.z, z3.If(a.z == SEP, z3.Concat(SEP, bz),
                                               z3.If(a.z == DOT, bz, z3.Concat(a.z, SEP, bz)))))


def _last_sep(V, st, z):
    """index of the last separator (-1 if none), as an axiomatised function (portable across solvers)"""
    f = V.uf('path.last_sep', [z3.StringSort()], z3.IntSort())
    i = f(z)
    n = z3.Length(z)
    st.assume(z3.And(i >= -1, i < n))
    st.assume(z3.Implies(i >= 0, z3.And(z3.SubString(z, i, 1) == SEP,
                                        z3.Not(z3.Contains(z3.SubString(z, i + 1, n - i - 1), SEP)))))
    st.assume(z3.Implies(i == -1, z3.Not(z3.Contains(z, SEP))))
    return i


def path_attr(V, st, p, attr, node):
    z = p.z
    if attr == 'parents':
        return MPathParents(p)
    if attr == 'parent':
        i = _last_sep(V, st, z)
        return SV(PATH, z3.If(i > 0, z3.SubString(z, 0, i), z3.If(i == 0, SEP, DOT)))
    if attr == 'name':
        i = _last_sep(V, st, z)
        return SV(STR, z3.If(z == SEP, z3.StringVal(''), z3.SubString(z, i + 1, z3.Length(z) - i - 1)))
    if attr == 'suffix':
        f = V.uf('path.suffix', [z3.StringSort()], z3.StringSort())
        r = f(z)
        st.assume(z3.SuffixOf(r, z))
        st.assume(z3.Or(r == z3.StringVal(''), z3.And(z3.PrefixOf(DOT, r), z3.Not(z3.Contains(r, SEP)))))
        return SV(STR, r)
    return None


def path_method(V, p, name, args, kwargs, st, node):
    z = p.z
    if name == 'joinpath':
        cur = p
        for a in args:
            cur = join(cur, a)
        return cur
    if name == 'relative_to' and len(args) == 1:
        o = pack(args[0], PATH) if isinstance(args[0], SV) and args[0].t == PATH else pack(args[0], STR)
        ok = z3.Or(z == o, is_proper_ancestor(o, z))
        V.may_raise(st, ok, 'ValueError', 'relative_to: not a sub-path', node)
        return SV(PATH, z3.If(z == o, DOT, z3.If(o == SEP, z3.SubString(z, 1, z3.Length(z) - 1),
                                              z3.SubString(z, z3.Length(o) + 1, z3.Length(z) - z3.Length(o) - 1))))
    if name in ('exists', 'is_file', 'is_dir'):
        f = V.uf('fs.' + name, [z3.StringSort()], z3.BoolSort())
        return SV(BOOL, f(z))
    if name in ('absolute', 'resolve'):
        f = V.uf('path.' + name, [z3.StringSort()], z3.StringSort())
        return SV(PATH, f(z))
    raise Unsupported('Path method %s' % name)
