"""Replay of a counter-model against the real code imported from the tree under test.

    python -m pyvc.replay <replay.json>

The replay file names the failed obligation and carries the decoded inputs. The
sidecar's `replay(inputs)` builds concrete arguments (stub objects where the
input is an object), calls the REAL function from $JEDI_REPO, and this module
evaluates the executable form of the same contract expressions on the outcome.
Verdicts: confirmed | not-reproduced | model-violates-requires | no-replay | error
"""
import importlib
import json
import os
import sys
import traceback


def run_real(thunk):
    try:
        return {'kind': 'return', 'value': thunk()}
    except BaseException as e:      # noqa: the outcome of the real code is data here
        return {'kind': 'raise', 'exc': e, 'cls': [c.__name__ for c in type(e).__mro__]}


def raw_function(module, name, extra_globals=None):
    """the top-level function `name` as written in the source of `module` (the file of the tree under test), WITHOUT its
    decorators, compiled in a copy of the module's namespace (plus `extra_globals`: fakes for its callees)"""
    import ast as _a
    import inspect
    src = inspect.getsource(module)
    tree = _a.parse(src)
    body = tree.body
    if '.' in name:
        cls, name = name.split('.', 1)
        body = [m for c in tree.body if isinstance(c, _a.ClassDef) and c.name == cls for m in c.body]
    for n in body:
        if isinstance(n, (_a.FunctionDef,)) and n.name == name:
            n.decorator_list = []
            ns = dict(module.__dict__)
            ns.update(extra_globals or {})
            code = compile(_a.Module(body=[n], type_ignores=[]), module.__file__, 'exec')
            exec(code, ns)
            return ns[name]
    raise KeyError(name)


def implies(a, b):
    return (not a) or bool(b)


def iff(a, b):
    return bool(a) == bool(b)


import ast as _ast


class _Lazy(_ast.NodeTransformer):
    """implies(a, b) -> (not a) or b, so that b is not evaluated when a is false"""
    def visit_Call(self, node):
        self.generic_visit(node)
        if isinstance(node.func, _ast.Name) and node.func.id == 'implies' and len(node.args) == 2:
            return _ast.BoolOp(op=_ast.Or(), values=[_ast.UnaryOp(op=_ast.Not(), operand=node.args[0]),
                                                     node.args[1]])
        return node


_real_eval = eval


def eval(expr, env):       # noqa: contract expressions, lazily implied
    tree = _ast.parse(expr.strip(), mode='eval')
    tree = _ast.fix_missing_locations(_Lazy().visit(tree))
    return _real_eval(compile(tree, '<contract>', 'eval'), env)


def concrete_env(module):
    env = {'implies': implies, 'iff': iff, 'old': lambda x: x, 'the': lambda x: x}
    for n in getattr(module, 'SPEC_FUNCTIONS', []):
        env[n] = getattr(module, n)
    for m in getattr(module, 'SPEC_IMPORTS', []):
        mod = importlib.import_module(m)
        for n in getattr(mod, 'SPEC_FUNCTIONS', []):
            env[n] = getattr(mod, n)
    return env


def verdict(contract, module, env, outcome):
    ev = concrete_env(module)
    ev.update(env)
    violated = []
    try:
        only = getattr(contract, 'concrete_only', False)
        for r in ([] if only else contract.requires):
            if not eval(r, ev):
                return 'model-violates-requires', [r]
        if outcome['kind'] == 'return':
            ev['result'] = outcome['value']
            if contract.yield_key and not only:
                ks = []
                for c in outcome['value']:
                    ks.append(eval(contract.yield_key, dict(ev, c=c)))
                ev['YKEYS'] = set(ks)
                if len(set(ks)) != len(ks):
                    violated.append('yielded keys not pairwise distinct: ' + contract.yield_key)
            for e in ([] if only else contract.yield_each):
                for c in outcome['value']:
                    if not eval(e, dict(ev, c=c)):
                        violated.append('yielded element violates: ' + e)
                        break
            for e in (contract.concrete_ensures if only else
                      contract.ensures + contract.ensures_all + contract.concrete_ensures):
                if not eval(e, ev):
                    violated.append('ensures: ' + e)
            for cls in ([] if only else contract.raises_iff):
                cond = contract.raises.get(cls)
                if cond and eval(cond, ev):
                    violated.append('returned normally although %s is required (%s)' % (cls, cond))
        else:
            names = outcome['cls']
            if only and not getattr(contract, 'exception_free', False) and \
                    names[0] in ('AttributeError', 'TypeError', 'NotImplementedError', 'NameError'):
                # a harness with fakes in place of the abstract callees: such an exception says that the real code now
                # uses something the fakes do not provide - that is a limit of the harness, not a failing input
                return 'error', ['harness limit: %s: %r' % (names[0], outcome.get('exc'))]
            declared = [d for d in contract.raises if d in names]
            for e in ([] if only else contract.ensures_exc + contract.ensures_all):
                if not eval(e, ev):
                    violated.append('on exception: ' + e)
            if not declared:
                violated.append('exception %s escapes: %r' % (names[0], outcome['exc']))
            else:
                cond = contract.raises[declared[0]]
                if cond and not eval(cond, ev):
                    violated.append('%s raised although not (%s)' % (declared[0], cond))
    except Exception as e:
        return 'error', ['contract evaluation failed: %s' % traceback.format_exc(limit=3)]
    return ('confirmed' if violated else 'not-reproduced'), violated


def find_contract(cid):
    prop = cid.split('.')[0].lower()
    module = importlib.import_module('contracts.' + prop)
    cs = list(module.CONTRACTS)
    if hasattr(module, 'dynamic_contracts'):
        import os
        cs += list(module.dynamic_contracts(os.environ.get('JEDI_REPO', '/repo')))
    for c in cs:
        if c.id == cid:
            return c, module
    raise KeyError(cid)


def replay_file(path):
    data = json.load(open(path))
    if data.get('kind_of_check') == 'structural':
        return {'verdict': 'structural', 'detail': data.get('label', '')}
    c, module = find_contract(data['contract'])
    if c.replay is None:
        return {'verdict': 'no-replay', 'detail': 'contract has no replay harness'}
    inputs = data.get('inputs')
    if inputs is None:
        return {'verdict': 'no-replay', 'detail': 'no decodable model'}
    try:
        env, outcome = c.replay(inputs)
    except Exception:
        return {'verdict': 'error', 'detail': traceback.format_exc(limit=6)}
    v, why = verdict(c, module, env, outcome)
    shown = dict(outcome)
    if 'exc' in shown:
        shown['exc'] = repr(shown['exc'])
    if 'value' in shown:
        shown['value'] = repr(shown['value'])
    return {'verdict': v, 'violated': why, 'outcome': shown}


def main():
    repo = os.environ.get('JEDI_REPO', '/repo')
    sys.path.insert(0, repo)
    here = os.path.dirname(os.path.dirname(os.path.abspath(__file__)))
    sys.path.insert(0, here)
    res = replay_file(sys.argv[1])
    print(json.dumps(res, default=repr))
    return 0


if __name__ == '__main__':
    sys.exit(main())
