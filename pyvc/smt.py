"""Discharge obligations: z3 first, cvc5 for what z3 leaves unknown. 16-process pool."""
import os
import re
import subprocess
import tempfile
import time
import multiprocessing as mp

import z3

CVC5 = '/usr/bin/cvc5'


def obligation_smt2(axioms, ob, terms=None):
    """SMT-LIB text of  axioms and pc and not goal ; `terms` (name -> z3 term) are bound to
    fresh constants in!<name> so that a counter-model can be read back from any solver."""
    es = relevant_axioms(axioms, list(ob.pc) + [ob.goal]) + list(ob.pc) + [z3.Not(ob.goal)]
    for name, t in (terms or {}).items():
        es.append(z3.Const('in!' + name, t.sort()) == t)
    return exprs_to_smt2(es)


_SYM_CACHE = {}


def symbols_of(e):
    """names of the uninterpreted functions and constants occurring in e"""
    key = e.get_id()
    hit = _SYM_CACHE.get(key)
    if hit is not None and hit[0].eq(e):
        return hit[1]
    out = set()
    seen = set()
    todo = [e]
    while todo:
        x = todo.pop()
        if x.get_id() in seen:
            continue
        seen.add(x.get_id())
        if z3.is_quantifier(x):
            todo.append(x.body())
            continue
        if z3.is_app(x):
            d = x.decl()
            if d.kind() == z3.Z3_OP_UNINTERPRETED:
                out.add(d.name())
            todo.extend(x.children())
    _SYM_CACHE[key] = (e, out)
    return out


def relevant_axioms(axioms, formulas):
    """the axioms connected to the obligation through shared uninterpreted symbols (fixpoint).  Dropping a
    hypothesis can only turn `unsat` into `unknown`/`sat`, never the reverse; it keeps definitions that the
    obligation does not mention away from the solver's instantiation engine."""
    syms = set()
    for f in formulas:
        syms |= symbols_of(f)
    rest = [(a, symbols_of(a)) for a in axioms]
    chosen = []
    changed = True
    while changed:
        changed = False
        nxt = []
        for a, sa in rest:
            if not sa or (sa & syms):
                chosen.append(a)
                if not sa <= syms:
                    syms |= sa
                    changed = True
            else:
                nxt.append((a, sa))
        rest = nxt
    order = {a.get_id(): i for i, a in enumerate(axioms)}
    chosen.sort(key=lambda a: order[a.get_id()])
    return chosen


def has_quantifier(e):
    seen = set()
    todo = [e]
    while todo:
        x = todo.pop()
        if x.get_id() in seen:
            continue
        seen.add(x.get_id())
        if z3.is_quantifier(x):
            return True
        todo.extend(x.children())
    return False


def weakened_smt2(axioms, ob, terms=None):
    """refutation search only: quantified hypotheses dropped. A model of this query proves
    nothing by itself; it is a candidate input that is believed only after it has been
    replayed on the real code."""
    es = [a for a in relevant_axioms(axioms, list(ob.pc) + [ob.goal]) + list(ob.pc) if not has_quantifier(a)]
    es.append(z3.Not(ob.goal))
    for name, t in (terms or {}).items():
        es.append(z3.Const('in!' + name, t.sort()) == t)
    return exprs_to_smt2(es)


def exprs_to_smt2(es):
    """print the formulas as they are (Solver.to_smt2 would print the solver's pre-processed
    assertions, where seq.nth has become the internal seq.nth_i/seq.nth_u)"""
    ctx = z3.main_ctx()
    es = list(es) or [z3.BoolVal(True)]
    n = len(es)
    v = (z3.Ast * max(n - 1, 1))()
    for i in range(n - 1):
        v[i] = es[i].as_ast()
    return z3.Z3_benchmark_to_smtlib_string(ctx.ref(), 'pyvc', '', 'unknown', '', n - 1, v, es[-1].as_ast())


def to_cvc5(smt2):
    t = smt2
    t = t.replace('seq.prefixof', 'seq.prefix').replace('seq.suffixof', 'seq.suffix')
    t = re.sub(r'\(set-info :status [a-z]+\)', '', t)
    t = re.sub(r'\(\(_ ([^ ()]+) 0\)', r'(\1', t)     # z3's print form of recursive-function applications
    return '(set-logic ALL)\n' + t


def _z3(smt2, timeout_s, out):
    timer = None
    try:
        ctx = z3.Context()
        s = z3.Solver(ctx=ctx)
        s.set('timeout', int(timeout_s * 1000))
        # z3's own timeout is not honoured in every phase (a query was seen spinning for 27 CPU minutes in the sequence
        # rewriter): a watchdog thread cancels the context a little after the budget; the answer is then `unknown`
        import threading
        timer = threading.Timer(timeout_s + 3, ctx.interrupt)
        timer.daemon = True
        timer.start()
        s.from_string(smt2)
        r = s.check()
        out['result'] = str(r)
        if r == z3.unknown:
            out['reason'] = s.reason_unknown()
        if r == z3.sat:
            m = s.model()
            vals = {}
            for d in m.decls():
                if d.name().startswith('in!') and d.arity() == 0:
                    vals[d.name()[3:]] = m[d].sexpr()
            out['values'] = vals
    except Exception as e:      # parser/solver failure is 'unknown', never a verdict
        out['result'] = 'unknown'
        out['reason'] = 'z3 error: %s' % e
    finally:
        if timer is not None:
            timer.cancel()


def _cvc5(smt2, timeout_s, out):
    try:
        with tempfile.NamedTemporaryFile('w', suffix='.smt2', delete=False) as f:
            f.write(to_cvc5(smt2))
            fn = f.name
        try:
            names = re.findall(r'\(declare-fun (in![^ ]+) \(\)', smt2)
            if names:
                with open(fn, 'a') as f2:
                    f2.write('(get-value (%s))\n' % ' '.join(names))
            for extra in (['--full-saturate-quant'], []):
                p = subprocess.run([CVC5, '--strings-exp', '--produce-models'] + extra +
                                   ['--tlimit=%d' % int(timeout_s * 1000), fn],
                                   capture_output=True, text=True, timeout=timeout_s + 5)
                ans = p.stdout.strip().splitlines()[0] if p.stdout.strip() else ''
                if ans in ('sat', 'unsat'):
                    out['result'] = ans
                    out['backend'] = 'cvc5'
                    if extra:
                        out['backend_opts'] = ' '.join(extra)
                    if ans == 'sat' and names:
                        try:
                            from .model import parse
                            body = p.stdout.strip().split('\n', 1)[1]
                            vals = {}
                            for pair in parse(body)[0]:
                                vals[pair[0][3:]] = pair[1]
                            out['values_sexpr'] = vals
                        except Exception as e:
                            out['reason'] += ' | cvc5 model parse: %s' % e
                    return
                out['reason'] += ' | cvc5%s: %s %s' % (' ' + ' '.join(extra) if extra else '', ans,
                                                      p.stderr.strip()[:160])
        finally:
            os.unlink(fn)
    except subprocess.TimeoutExpired:
        out['reason'] += ' | cvc5 timeout'
    except Exception as e:
        out['reason'] += ' | cvc5 error: %s' % e


def _solve(job):
    """z3 with a short budget first (most obligations take milliseconds), then cvc5 (plain and
    with enumerative instantiation), then z3 again with the full budget."""
    idx, smt2, timeout_s, use_cvc5 = job
    t0 = time.time()
    out = {'idx': idx, 'result': 'unknown', 'backend': 'z3', 'time': 0.0, 'reason': ''}
    short = min(timeout_s, 3)
    _z3(smt2, short, out)
    if out['result'] == 'unknown' and use_cvc5 and os.path.exists(CVC5):
        _cvc5(smt2, timeout_s, out)
    if out['result'] == 'unknown' and timeout_s > short:
        r2 = {'result': 'unknown', 'reason': ''}
        _z3(smt2, timeout_s, r2)
        if r2['result'] != 'unknown':
            out.update(r2)
            out['backend'] = 'z3'
        else:
            out['reason'] += ' | z3(full): ' + r2.get('reason', '')
    if out['result'] == 'unsat' and os.environ.get('PYVC_CROSSCHECK'):
        _crosscheck(smt2, out)
    out['time'] = time.time() - t0
    return out


OLD_Z3 = '/usr/bin/z3'


def _crosscheck(smt2, out, budget_s=3):
    """an `unsat` is re-submitted to the solvers that did not produce it (z3 4.8.12 binary, cvc5); `sat` from any
    of them withdraws the verdict (undecided, reported as a solver disagreement)"""
    agreed, contra = [], []
    fn = None
    try:
        with tempfile.NamedTemporaryFile('w', suffix='.smt2', delete=False) as f:
            f.write(smt2)
            fn = f.name
        if os.path.exists(OLD_Z3):
            try:
                p = subprocess.run([OLD_Z3, '-T:%d' % budget_s, fn], capture_output=True, text=True, timeout=budget_s + 5)
                a = p.stdout.strip().splitlines()[0] if p.stdout.strip() else ''
                (agreed if a == 'unsat' else contra if a == 'sat' else []).append('z3-4.8.12')
            except Exception:
                pass
        if out.get('backend') != 'cvc5' and os.path.exists(CVC5):
            r = {'result': 'unknown', 'reason': '', 'backend': ''}
            _cvc5(smt2, budget_s, r)
            (agreed if r['result'] == 'unsat' else contra if r['result'] == 'sat' else []).append('cvc5')
        elif out.get('backend') == 'cvc5':
            r = {'result': 'unknown', 'reason': ''}
            _z3(smt2, budget_s, r)
            (agreed if r['result'] == 'unsat' else contra if r['result'] == 'sat' else []).append('z3-5.1')
    finally:
        if fn:
            os.unlink(fn)
    out['confirmed_by'] = agreed
    if contra:
        out['result'] = 'unknown'
        out['reason'] = 'SOLVER DISAGREEMENT: %s said unsat, %s said sat' % (out.get('backend'), ', '.join(contra))
        out['disagreement'] = contra


def discharge(jobs, timeout_s=10, procs=None, use_cvc5=True):
    """jobs: list of smt2 strings. returns list of result dicts in order."""
    if not jobs:
        return []
    procs = procs or min(16, os.cpu_count() or 4, len(jobs))
    work = [(i, j, timeout_s, use_cvc5) for i, j in enumerate(jobs)]
    if procs <= 1 or len(jobs) == 1:
        return [_solve(w) for w in work]
    ctx = mp.get_context('fork')
    with ctx.Pool(procs) as pool:
        res = pool.map(_solve, work, chunksize=1)
    res.sort(key=lambda r: r['idx'])
    return res


def get_model(axioms, ob, timeout_s=20):
    """re-solve in process to obtain a model object for a failed obligation"""
    s = z3.Solver()
    s.set('timeout', int(timeout_s * 1000))
    for a in axioms:
        s.add(a)
    for c in ob.pc:
        s.add(c)
    s.add(z3.Not(ob.goal))
    import threading
    wd = threading.Timer(timeout_s + 5, z3.main_ctx().interrupt)
    wd.daemon = True
    wd.start()
    try:
        r = s.check()
    except z3.Z3Exception:
        return None
    finally:
        wd.cancel()
    if r == z3.sat:
        return s.model()
    return None


def _hyp_job(job):
    idx, smt2 = job
    out = {'idx': idx, 'result': 'unknown', 'reason': '', 'backend': 'z3'}
    _z3(smt2, 5, out)
    if out['result'] == 'unsat' and os.path.exists(CVC5):
        r = {'result': 'unknown', 'reason': '', 'backend': ''}
        _cvc5(smt2, 20, r)
        out['second'] = r['result']
    return out


def hypotheses_guard(axioms_of, obligations, procs=None):
    """Guard against a solver that wrongly refutes the HYPOTHESES (z3 4.8.12 and 5.1.0 both do on some satisfiable
    formulas with `seq.nth` under quantifiers, see notes/): for every distinct path condition, `axioms and pc` is
    solved on its own.  `unsat` from z3 is accepted as a dead path only if cvc5 agrees; otherwise every obligation
    on that path is withdrawn (undecided).  Returns {obligation id: reason} for the withdrawn ones and statistics."""
    groups = {}
    for ob in obligations:
        key = tuple(p.get_id() for p in ob.pc)
        groups.setdefault(key, []).append(ob)
    jobs = []
    keys = list(groups)
    for i, k in enumerate(keys):
        ob = groups[k][0]
        ax = relevant_axioms(axioms_of(ob), list(ob.pc))
        jobs.append((i, exprs_to_smt2(list(ax) + list(ob.pc))))
    if not jobs:
        return {}, {'paths': 0, 'dead_confirmed': 0, 'withdrawn': 0}
    procs = procs or min(16, os.cpu_count() or 4, len(jobs))
    if procs <= 1:
        res = [_hyp_job(j) for j in jobs]
    else:
        with mp.get_context('fork').Pool(procs) as pool:
            res = pool.map(_hyp_job, jobs, chunksize=2)
    withdrawn = {}
    dead = 0
    for r in res:
        if r['result'] != 'unsat':
            continue
        if r.get('second') == 'unsat':
            dead += 1
            continue
        for ob in groups[keys[r['idx']]]:
            withdrawn[ob.id] = ('path condition refuted by z3 only (cvc5: %s): possible solver defect, not counted '
                                'as discharged' % r.get('second', 'not run'))
    return withdrawn, {'paths': len(jobs), 'dead_confirmed': dead, 'withdrawn': len(withdrawn)}
