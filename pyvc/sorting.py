"""sorted(): assumed contract - the result has the same length and the same elements as the
input and is ordered (non-decreasing) by the key where the key is orderable in the model.
(Multiplicities are not tracked; stability is stated only through `stable_sorted` specs.)"""
import z3

from .types import PATH, INT, BOOL, STR, ANY, NONE, OptT, TupT, SeqT, ObjT, sort_of
from .values import truthy as truthy_
from .values import (Unsupported, SV, MNONE, MTup, MList, MFn, fresh, fresh_name, type_of, pack, as_sv,
                     py_lt, tuple_items)


def orderable(t):
    if t in (INT, BOOL, STR):
        return True
    if isinstance(t, TupT):
        return all(orderable(i) for i in t.items)
    return False


def model_sorted(V, st, args, kwargs, node):
    from .calls import apply
    seq = args[0]
    key = kwargs.get('key')
    reverse = False
    if 'reverse' in kwargs:
        rv = kwargs['reverse']
        from .values import simp
        rz = simp(truthy_(rv))
        if z3.is_true(rz):
            reverse = True
        elif not z3.is_false(rz):
            raise Unsupported('sorted(reverse=<symbolic>)')
    items = V.iter_items(seq, st, node)
    if items is not None and len(items) <= 4:
        # concrete length: an exact, quantifier-free model - stable bubble sort by compare-exchange on the keys
        from .values import ite as _ite, simp as _simp
        rev = False
        if 'reverse' in kwargs:
            rz = _simp(truthy_(kwargs['reverse']))
            if z3.is_true(rz):
                rev = True
            elif not z3.is_false(rz):
                raise Unsupported('sorted(reverse=<symbolic>)')

        def kf(elem):
            if key is None:
                return elem
            V.spec_mode += 1
            try:
                return apply(V, key, [elem], {}, st.fork(), node)
            finally:
                V.spec_mode -= 1
        cur = list(items)
        ok = True
        for _pass in range(len(cur)):
            for i in range(len(cur) - 1 - _pass):
                a, b = cur[i], cur[i + 1]
                try:
                    swap = py_lt(kf(a), kf(b), True) if rev else py_lt(kf(b), kf(a), True)
                except Unsupported:
                    ok = False
                    break
                na, nb = _ite(swap, b, a), _ite(swap, a, b)
                if na is None or nb is None:
                    ok = False
                    break
                cur[i], cur[i + 1] = na, nb
            if not ok:
                break
        if ok:
            return MList(cur)
    t = type_of(seq)
    if t is None:
        return MList([])
    if isinstance(t, TupT):
        from .values import unify_types
        e = None
        for it in t.items:
            e = unify_types(e, it)
        t = SeqT(e)
    if not isinstance(t, SeqT):
        raise Unsupported('sorted() of %r' % (seq,))
    s = pack(seq, t)
    r = fresh(t, 'sorted')
    V.assumed_used.add('builtin sorted (same elements, ordered by key)')
    n = z3.Length(s)
    st.fact(z3.Length(r.z) == n)
    i = z3.Int(fresh_name('si'))
    j = z3.Int(fresh_name('sj'))
    st.fact(z3.ForAll([i], z3.Implies(z3.And(i >= 0, i < n), z3.Contains(s, z3.Unit(r.z[i])))))
    st.fact(z3.ForAll([i], z3.Implies(z3.And(i >= 0, i < n), z3.Contains(r.z, z3.Unit(s[i])))))
    # the same statement with an explicit index witness (sorted() is a permutation): element i of the input sits at
    # position pos(i) of the result - solvers do not derive an index from seq.contains on their own
    pos = z3.Function(fresh_name('sorted_pos'), z3.IntSort(), z3.IntSort())
    st.fact(z3.ForAll([i], z3.Implies(z3.And(i >= 0, i < n),
                                      z3.And(pos(i) >= 0, pos(i) < n, r.z[pos(i)] == s[i]))))

    def k(elem):
        if key is None:
            return elem
        V.spec_mode += 1
        try:
            return apply(V, key, [elem], {}, st.fork(), node)
        finally:
            V.spec_mode -= 1
    try:
        ki = k(SV(t.elem, r.z[i]))
        kj = k(SV(t.elem, r.z[j]))
        lt = py_lt(ki, kj, True) if reverse else py_lt(kj, ki, True)
        st.fact(z3.ForAll([i, j], z3.Implies(z3.And(i >= 0, i < j, j < n), z3.Not(lt))))
    except Unsupported:
        pass    # key not orderable in the model: only the element facts are assumed
    return r
