"""Contract, callee-specification and object-family descriptors (sidecar side)."""
from .types import Ty, INT, BOOL, STR, ANY, NONE, OptT, TupT, SeqT, SetT, DictT, ObjT


class FnSpec:
    """Contract of a callee as seen from a call site (the body is never inlined).

    params   : [(name, Ty)]           (for methods: without self)
    ret      : Ty or None (None = returns None)
    pure     : result is an uninterpreted function of the arguments (and `reads`)
    requires : [expr str]  -> call-pre obligations
    ensures  : [expr str]  -> assumed after the call (names: params, result, self)
    raises   : [class name] -> the call may raise these (forks an exceptional path)
    modifies : [(family, field)] heap fields havocked by the call
    effects  : [label] appended to the ghost effect trace
    assumed  : True if this contract is taken on trust (dependency / outside kernel)
    """
    def __init__(self, name, params=(), ret=None, pure=False, requires=(), ensures=(),
                 raises=(), modifies=(), effects=(), defaults=None, assumed=True,
                 reads=(), varargs=False, impl=None, note='', shared_result=False):
        self.name = name
        self.params = list(params)
        self.ret = ret
        self.pure = pure
        self.requires = list(requires)
        self.ensures = list(ensures)
        self.raises = list(raises)
        self.modifies = list(modifies)
        self.effects = list(effects)
        self.defaults = dict(defaults or {})
        self.assumed = assumed
        self.reads = list(reads)
        self.varargs = varargs
        self.impl = impl
        self.note = note
        # the returned container is owned by the callee (e.g. a memoised list handed out by reference): mutating it in
        # place changes what every later caller gets - each in-place mutation of it is a failed frame obligation
        self.shared_result = shared_result


class Family:
    """Object family: immutable attributes are functions Ref->T, mutable fields
    are heap arrays, methods have FnSpecs."""
    def __init__(self, name, attrs=None, fields=None, methods=None, axioms=(),
                 eq_str=None, eq=None, truthy=None, note='', attr_requires=None):
        self.name = name
        self.attrs = dict(attrs or {})
        self.fields = dict(fields or {})
        self.methods = dict(methods or {})
        self.axioms = list(axioms)    # [expr str over a universally quantified `o` of this family]
        self.eq_str = eq_str          # expr str over (o, s)
        self.eq = eq                  # expr str over (a, b)
        self.truthy = truthy          # expr str over `o`: bool(o) (objects with __bool__/__len__); default: always true
        self.attr_requires = dict(attr_requires or {})   # attr -> expr over `o` (else AttributeError)
        self.note = note


class Contract:
    def __init__(self, id, file, qualname, params, prop=None, clause='', free=None, locals=None,
                 requires=(), ensures=(), raises=None, raises_iff=(), ensures_exc=(),
                 ensures_all=(), invariants=None, loop_modifies=None, decreases=None,
                 unroll=None, names=None, yields=None, ret=None, families=(), tier='P',
                 bounds=None, replay=None, assumes=(), inline=(), effects_allowed=None,
                 effect_guard=None, variants=None, kind='post', allow_callee_exceptions=True,
                 ghost=None, axioms=(), method_of=None, notes='', drop_calls=(),
                 expect_obligations=None, cover=True, exc_mode='auto', spec_module=None,
                 safety=True, witness=None, merge=True, yield_each=(), yield_key=None,
                 concrete_ensures=(), witness_library=(), yield_each_local=(), region=None, loop_each=None,
                 concrete_only=False, abstract_locals=None):
        self.id = id
        self.file = file
        self.qualname = qualname
        self.params = dict(params)
        self.prop = prop
        self.clause = clause
        self.free = dict(free or {})
        self.locals = dict(locals or {})
        self.requires = list(requires)
        self.ensures = list(ensures)
        self.raises = dict(raises or {})
        self.raises_iff = set(raises_iff)
        self.ensures_exc = list(ensures_exc)
        self.ensures_all = list(ensures_all)
        self.invariants = dict(invariants or {})
        self.loop_modifies = dict(loop_modifies or {})
        self.decreases = decreases
        self.unroll = dict(unroll or {})
        self.names = dict(names or {})
        self.yields = yields
        self.ret = ret
        self.families = list(families)
        self.tier = tier
        self.bounds = dict(bounds or {})
        self.replay = replay
        self.assumes = list(assumes)
        self.inline = list(inline)
        self.effects_allowed = effects_allowed
        self.effect_guard = effect_guard
        self.variants = variants
        self.kind = kind
        self.allow_callee_exceptions = allow_callee_exceptions
        self.ghost = dict(ghost or {})
        self.axioms = list(axioms)
        self.method_of = method_of
        self.notes = notes
        self.drop_calls = list(drop_calls)
        self.expect_obligations = expect_obligations
        self.cover = cover
        self.exc_mode = exc_mode
        self.spec_module = spec_module
        self.safety = safety
        self.witness = witness
        self.merge = merge
        self.loop_each = dict(loop_each or {})   # ordinal -> [P(ITEM)]: proved for all of SEQ at entry, assumed for ITEM
        self.shape = {}           # name -> n: parameter/free name bound to a list of n fresh symbolic elements (SB)
        self.region = region      # callable(func_ast) -> statements: block contract on a region of the body
        self.yield_each = list(yield_each)      # P(c) proved at every yield, over entry values only
        self.yield_each_local = list(yield_each_local)   # P(c, locals at the yield): 'exists locals' semantics
        self.yield_key = yield_key              # key(c): proved fresh at every yield (=> pairwise distinct)
        self.witness_library = list(witness_library)   # concrete inputs tried on the real code when a proof fails
        self.concrete_ensures = list(concrete_ensures)   # executable consequences, used by replay only
        self.abstract_locals = dict(abstract_locals or {})   # nested def name -> FnSpec (seen through its contract)
        self.exception_free = False   # the clause IS exception freedom: any escaping exception in the replay counts
        self.concrete_only = concrete_only   # replay judges by concrete_ensures alone (spec terms not executable)


def callee_of(contract, name=None, pure=True, assumed=False, raises=()):
    """the contract of a function under verification, as seen from a call site"""
    params = [(n, t) for n, t in contract.params.items()]
    sp = FnSpec(name or contract.qualname.split('.')[-1], params=params, ret=contract.ret, pure=pure,
                requires=list(contract.requires), ensures=list(contract.ensures), raises=list(raises),
                assumed=assumed)
    sp.decreases = contract.decreases if isinstance(contract.decreases, str) else None
    return sp
