"""run a bounded stand-in (standins/<prop>.py) against the tree under test in a child interpreter"""
import json
import os
import subprocess
import sys

HERE = os.path.dirname(os.path.dirname(os.path.abspath(__file__)))


def run_standin(prop, tier, seed, repo, timeout=3000):
    env = dict(os.environ, JEDI_REPO=repo, PYTHONPATH=HERE, PYTHONDONTWRITEBYTECODE='1')
    p = subprocess.run([sys.executable, '-m', 'standins.runner', prop, tier, str(seed)], cwd=HERE, env=env,
                       capture_output=True, text=True, timeout=timeout)
    for line in p.stdout.splitlines():
        if line.startswith('STANDIN-RESULT '):
            return json.loads(line[len('STANDIN-RESULT '):])
    raise RuntimeError('stand-in %s produced no result: %s' % (prop, (p.stderr or p.stdout)[-1500:]))
