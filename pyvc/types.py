"""PyVC type descriptors and their SMT sorts.

Types come from the sidecar contract, never from inference (DESIGN §2.3).
Every symbolic value is a pair (type, z3 term of sort_of(type)); a few
meta-level values (None, tuple/list literals, callables, classes) exist only
during symbolic execution and are packed into terms when they meet a typed
slot.
"""
import z3


class Ty:
    def key(self):
        raise NotImplementedError

    def __eq__(self, other):
        return isinstance(other, Ty) and self.key() == other.key()

    def __hash__(self):
        return hash(self.key())

    def __repr__(self):
        return self.key()


class _Prim(Ty):
    def __init__(self, name):
        self.name = name

    def key(self):
        return self.name


INT = _Prim('Int')
BOOL = _Prim('Bool')
STR = _Prim('Str')
ANY = _Prim('Any')      # opaque value, only passed through
NONE = _Prim('None')    # the unit type of the constant None
PATH = _Prim('Path')    # pathlib.Path value, modelled as its normalised POSIX string (DESIGN 2.4)


class OptT(Ty):
    def __init__(self, inner):
        assert not isinstance(inner, OptT), 'Opt(Opt(T)) is not a Python type'
        self.inner = inner

    def key(self):
        return 'Opt[%s]' % self.inner.key()


class TupT(Ty):
    def __init__(self, *items):
        self.items = tuple(items)

    def key(self):
        return 'Tup[%s]' % ','.join(i.key() for i in self.items)


class SeqT(Ty):
    """list / homogeneous tuple."""
    def __init__(self, elem):
        self.elem = elem

    def key(self):
        return 'Seq[%s]' % self.elem.key()


class SetT(Ty):
    def __init__(self, elem):
        self.elem = elem

    def key(self):
        return 'Set[%s]' % self.elem.key()


class DictT(Ty):
    def __init__(self, k, v):
        self.k = k
        self.v = v

    def key(self):
        return 'Dict[%s,%s]' % (self.k.key(), self.v.key())


class ObjT(Ty):
    """Reference to an object of a declared family (uninterpreted)."""
    def __init__(self, family):
        self.family = family

    def key(self):
        return 'Obj[%s]' % self.family


def Opt(t):
    return t if isinstance(t, OptT) else OptT(t)


Tup = TupT
Seq = SeqT
Obj = ObjT
POS = TupT(INT, INT)

_SORTS = {}
_DT = {}

Ref = z3.DeclareSort('Ref')
AnySort = z3.DeclareSort('AnyV')
UnitSort, (unit_val,) = z3.EnumSort('UnitT', ['unit'])


def _safe(name):
    return name.replace('[', '_').replace(']', '_').replace(',', '_')


def sort_of(t):
    k = t.key()
    if k in _SORTS:
        return _SORTS[k]
    if t is INT or t == INT:
        s = z3.IntSort()
    elif t == BOOL:
        s = z3.BoolSort()
    elif t == STR or t == PATH:
        s = z3.StringSort()
    elif t == ANY:
        s = AnySort
    elif t == NONE:
        s = UnitSort
    elif isinstance(t, ObjT):
        s = Ref
    elif isinstance(t, SeqT):
        s = z3.SeqSort(sort_of(t.elem))
    elif isinstance(t, SetT):
        s = z3.ArraySort(sort_of(t.elem), z3.BoolSort())
    elif isinstance(t, OptT):
        nm = 'Opt_' + _safe(t.inner.key())
        d = z3.Datatype(nm)
        d.declare('none_' + nm)
        d.declare('some_' + nm, ('val_' + nm, sort_of(t.inner)))
        s = d.create()
        _DT[k] = s
    elif isinstance(t, TupT):
        nm = _safe(k)
        d = z3.Datatype(nm)
        d.declare('mk_' + nm, *[('f%d_%s' % (i, nm), sort_of(it)) for i, it in enumerate(t.items)])
        s = d.create()
        _DT[k] = s
    elif isinstance(t, DictT):
        # (domain, values) pair
        nm = _safe(k)
        d = z3.Datatype(nm)
        d.declare('mk_' + nm,
                  ('dom_' + nm, z3.ArraySort(sort_of(t.k), z3.BoolSort())),
                  ('vals_' + nm, z3.ArraySort(sort_of(t.k), sort_of(t.v))))
        s = d.create()
        s.mk = getattr(s, 'mk_' + nm)
        s.dom = getattr(s, 'dom_' + nm)
        s.vals = getattr(s, 'vals_' + nm)
        _DT[k] = s
    else:
        raise TypeError('no sort for %r' % (t,))
    _SORTS[k] = s
    return s


def _nm(t):
    return _safe(t.key()) if not isinstance(t, OptT) else 'Opt_' + _safe(t.inner.key())


def opt_none(t):
    return getattr(sort_of(t), 'none_' + _nm(t))


def opt_some(t, z):
    return getattr(sort_of(t), 'some_' + _nm(t))(z)


def opt_is_none(t, z):
    return getattr(sort_of(t), 'is_none_' + _nm(t))(z)


def opt_val(t, z):
    return getattr(sort_of(t), 'val_' + _nm(t))(z)


def tup_mk(t, zs):
    c = getattr(sort_of(t), 'mk_' + _nm(t))
    return c(*zs) if zs else c


def tup_get(t, z, i):
    return getattr(sort_of(t), 'f%d_%s' % (i, _nm(t)))(z)


def dict_mk(t, dom, vals):
    return getattr(sort_of(t), 'mk_' + _nm(t))(dom, vals)


def dict_dom(t, z):
    return getattr(sort_of(t), 'dom_' + _nm(t))(z)


def dict_vals(t, z):
    return getattr(sort_of(t), 'vals_' + _nm(t))(z)
