"""Symbolic and meta-level values, coercions, Python operator semantics."""
import z3
from .types import PATH
from .types import (Ty, INT, BOOL, STR, ANY, NONE, OptT, TupT, SeqT, SetT, DictT, ObjT,
                    sort_of, opt_none, opt_some, opt_is_none, opt_val, tup_mk, tup_get,
                    Ref, unit_val)


class Unsupported(Exception):
    """Construct outside the verified subset -> the function is undecided."""


class SV:
    """typed symbolic value"""
    __slots__ = ('t', 'z', 'shared')

    def __init__(self, t, z):
        self.t = t
        self.z = z
        self.shared = None      # name of the callee that OWNS this container (a memoised result handed out by reference)

    def __repr__(self):
        return 'SV(%s, %s)' % (self.t, self.z)


class _MNone:
    def __repr__(self):
        return 'MNONE'


MNONE = _MNone()


class MTup:
    def __init__(self, items):
        self.items = list(items)

    def __repr__(self):
        return 'MTup(%r)' % (self.items,)


class MList:
    """list of statically known length (literals, unrolled containers)."""
    def __init__(self, items):
        self.items = list(items)

    def __repr__(self):
        return 'MList(%r)' % (self.items,)


class MDict:
    """dict literal with constant string keys (e.g. kwargs, dict(a=..))."""
    def __init__(self, items):
        self.items = dict(items)


class MFn:
    """callable: kind in spec | inline | builtin | bound | uf"""
    def __init__(self, kind, name, **kw):
        self.kind = kind
        self.name = name
        self.__dict__.update(kw)

    def __repr__(self):
        return 'MFn(%s:%s)' % (self.kind, self.name)


class MCls:
    """a class object (exception classes, types used with isinstance)."""
    def __init__(self, name, bases=()):
        self.name = name
        self.bases = tuple(bases)

    def __repr__(self):
        return 'MCls(%s)' % self.name


class MNS:
    """namespace (module, enum class)"""
    def __init__(self, name, members):
        self.name = name
        self.members = members


class MU:
    """maybe-unbound local: value valid only under cond"""
    def __init__(self, val, cond):
        self.val = val
        self.cond = cond


class MAlias:
    """local name bound to a mutable container that lives in a heap field (x = obj.field):
    reads and in-place mutations through the name go to the heap"""
    def __init__(self, obj, attr):
        self.obj = obj
        self.attr = attr


class MSubAlias:
    """x = outer.setdefault(key, {}): x aliases the inner dict stored in `outer` under `key`"""
    def __init__(self, outer_expr, key, inner_t):
        self.outer_expr = outer_expr
        self.key = key
        self.inner_t = inner_t


class MOpaqueSet:
    """a module-level constant collection whose members are not modelled (e.g. a tuple of builtin types):
    membership is an uninterpreted predicate"""
    def __init__(self, name):
        self.name = name


class MExc:
    """exception instance"""
    def __init__(self, cls, args=(), origin=None):
        self.cls = cls          # class name
        self.args = list(args)
        self.origin = origin    # None = raised by the function itself; else callee label


class MFrozen:
    """set literal / frozen collection of statically known items"""
    def __init__(self, items):
        self.items = list(items)


class MDictV:
    """dict with statically known string keys"""
    def __init__(self, items, kt, vt):
        self.items = dict(items)


class MEnum:
    def __init__(self, items, start=0):
        self.items = items
        self.start = start


class MRev:
    def __init__(self, inner):
        self.inner = inner


class MZip:
    def __init__(self, parts):
        self.parts = parts


class MRatio:
    """int / int (true division) with a positive denominator: kept exact as a ratio; only order comparisons with an
    integer are modelled (n < num/den  <=>  n*den < num)"""
    def __init__(self, num, den):
        self.num = num
        self.den = den


class MIter:
    """iterator over a statically-sized list: immutable (items, pos); `next(name, default)` REBINDS the name to the
    advanced iterator (states stay independent after a fork)"""
    def __init__(self, items, pos=0):
        self.items = list(items)
        self.pos = pos


class MRange:
    def __init__(self, lo, hi):
        self.lo = lo
        self.hi = hi



def simp(z):
    """constant-fold only: return the literal if `z` simplifies to one, else `z`
    unchanged (z3's simplifier rewrites seq.nth into solver-internal forms)."""
    try:
        s = z3.simplify(z)
    except z3.Z3Exception:
        return z
    if z3.is_true(s) or z3.is_false(s) or z3.is_int_value(s) or z3.is_string_value(s):
        return s
    return z


PENDING_FACTS = []     # facts about freshly introduced model constants; drained into the state by the engine
_fresh_counter = [0]


def fresh_name(base):
    _fresh_counter[0] += 1
    return '%s!%d' % (base, _fresh_counter[0])


def fresh(t, base='v'):
    if t == NONE:
        return MNONE
    return SV(t, z3.Const(fresh_name(base), sort_of(t)))


def const(t, name):
    return SV(t, z3.Const(name, sort_of(t)))


def type_of(v):
    if isinstance(v, SV):
        return v.t
    if v is MNONE:
        return NONE
    if isinstance(v, MTup):
        return TupT(*[type_of(i) for i in v.items])
    if isinstance(v, MList):
        if not v.items:
            return None
        t = type_of(v.items[0])
        for i in v.items[1:]:
            t = unify_types(t, type_of(i))
            if t is None:
                raise Unsupported('heterogeneous list literal')
        return SeqT(t)
    if isinstance(v, MRev):
        return type_of(v.inner)
    raise Unsupported('no static type for %r' % (v,))


def unify_types(a, b):
    if a is None:
        return b
    if b is None:
        return a
    if a == b:
        return a
    if a == NONE:
        return OptT(b) if not isinstance(b, OptT) else b
    if b == NONE:
        return OptT(a) if not isinstance(a, OptT) else a
    if isinstance(a, OptT) and isinstance(b, OptT):
        i = unify_types(a.inner, b.inner)
        return OptT(i) if i is not None else None
    if isinstance(a, OptT):
        i = unify_types(a.inner, b)
        return OptT(i) if i is not None else None
    if isinstance(b, OptT):
        i = unify_types(a, b.inner)
        return OptT(i) if i is not None else None
    if {a, b} == {INT, BOOL}:
        return INT
    if isinstance(a, ObjT) and isinstance(b, ObjT) and {a.family, b.family} == {'Type', 'Live'}:
        return ObjT('Live')
    if isinstance(a, TupT) and isinstance(b, TupT) and len(a.items) == len(b.items):
        its = [unify_types(x, y) for x, y in zip(a.items, b.items)]
        if any(i is None for i in its):
            return None
        return TupT(*its)
    if isinstance(a, SeqT) and isinstance(b, SeqT):
        e = unify_types(a.elem, b.elem)
        return SeqT(e) if e is not None else None
    # homogeneous tuple used as a sequence
    if isinstance(a, SeqT) and isinstance(b, TupT):
        e = a.elem
        for it in b.items:
            e = unify_types(e, it)
            if e is None:
                return None
        return SeqT(e)
    if isinstance(b, SeqT) and isinstance(a, TupT):
        return unify_types(b, a)
    return None


def box_any(v):
    """any value used where the contract says ANY (opaque): injected by an uninterpreted boxing function"""
    from .types import AnySort
    if isinstance(v, SV):
        if v.t == ANY:
            return v.z
        if isinstance(v.t, OptT) and v.t.inner == ANY:
            return z3.If(opt_is_none(v.t, v.z), z3.Const('any.None', AnySort), opt_val(v.t, v.z))
        f = z3.Function('box[%s]' % v.t.key(), sort_of(v.t), AnySort)
        return f(v.z)
    if v is MNONE:
        return z3.Const('any.None', AnySort)
    try:
        t = type_of(v)
    except Unsupported:
        t = None
    if t is not None and t != NONE:
        return box_any(SV(t, pack(v, t)))
    return z3.Const(fresh_name('any'), AnySort)


def pack(v, t):
    """z3 term of sort_of(t) for value v (coercing meta values)."""
    if isinstance(v, MU):
        raise Unsupported('maybe-unbound value used without check')
    if t == ANY:
        return box_any(v)
    if isinstance(v, SV):
        if v.t == t:
            return v.z
        if t == INT and v.t == BOOL:
            return z3.If(v.z, z3.IntVal(1), z3.IntVal(0))
        if isinstance(t, OptT):
            if isinstance(v.t, OptT):
                # Opt[A] -> Opt[B]
                return z3.If(opt_is_none(v.t, v.z), opt_none(t),
                             opt_some(t, pack(SV(v.t.inner, opt_val(v.t, v.z)), t.inner)))
            return opt_some(t, pack(v, t.inner))
        if isinstance(t, TupT) and isinstance(v.t, TupT) and len(t.items) == len(v.t.items):
            return tup_mk(t, [pack(SV(it, tup_get(v.t, v.z, i)), tt)
                              for i, (it, tt) in enumerate(zip(v.t.items, t.items))])
        if isinstance(t, SeqT) and isinstance(v.t, TupT):
            return pack(MList([SV(it, tup_get(v.t, v.z, i)) for i, it in enumerate(v.t.items)]), t)
        if v.t == ANY and t == STR:
            # an opaque value used where text is required: its text content is an unknown function of it
            from .types import AnySort
            return z3.Function('unbox[Str]', AnySort, z3.StringSort())(v.z)
        if isinstance(t, ObjT) and isinstance(v.t, ObjT) and (v.t.family, t.family) == ('Type', 'Live'):
            return v.z          # a type object is a live object (both are references)
        raise Unsupported('cannot use %s where %s is expected' % (v.t, t))
    if v is MNONE:
        if isinstance(t, OptT):
            return opt_none(t)
        if t == NONE:
            return unit_val
        raise Unsupported('None where %s is expected' % (t,))
    if isinstance(v, MTup):
        if isinstance(t, OptT):
            return opt_some(t, pack(v, t.inner))
        if isinstance(t, TupT):
            if len(t.items) != len(v.items):
                raise Unsupported('tuple arity mismatch')
            return tup_mk(t, [pack(i, it) for i, it in zip(v.items, t.items)])
        if isinstance(t, SeqT):
            return pack(MList(v.items), t)
        raise Unsupported('tuple where %s is expected' % (t,))
    if isinstance(v, MList):
        if isinstance(t, OptT):
            return opt_some(t, pack(v, t.inner))
        if isinstance(t, SeqT):
            es = sort_of(t.elem)
            if not v.items:
                return z3.Empty(z3.SeqSort(es))
            units = [z3.Unit(pack(i, t.elem)) for i in v.items]
            return units[0] if len(units) == 1 else z3.Concat(*units)
        raise Unsupported('list where %s is expected' % (t,))
    if isinstance(v, MRev):
        # reversed(seq): assumed builtin contract, same length, mirrored elements
        inner = pack(v.inner, t)
        r = z3.Const(fresh_name('reversed'), sort_of(t))
        PENDING_FACTS.append(z3.Length(r) == z3.Length(inner))
        i = z3.Int(fresh_name('ri'))
        n = z3.Length(inner)
        PENDING_FACTS.append(z3.ForAll([i], z3.Implies(z3.And(i >= 0, i < n), r[i] == inner[n - 1 - i])))
        return r
    if isinstance(v, MFrozen):
        if isinstance(t, SetT):
            arr = z3.K(sort_of(t.elem), False)
            for i in v.items:
                arr = z3.Store(arr, pack(i, t.elem), True)
            return arr
        raise Unsupported('set where %s is expected' % (t,))
    if isinstance(v, MDictV) and not v.items:
        if isinstance(t, DictT):
            srt = sort_of(t)
            return srt.mk(z3.K(sort_of(t.k), False), z3.Const('dict0_' + t.key(), z3.ArraySort(sort_of(t.k), sort_of(t.v))))
        raise Unsupported('dict where %s is expected' % (t,))
    raise Unsupported('cannot pack %r as %s' % (v, t))


def as_sv(v, t):
    if isinstance(v, SV) and v.t == t:
        return v
    return SV(t, pack(v, t))


def unify_values(a, b):
    """common type for two values or None"""
    try:
        ta, tb = type_of(a), type_of(b)
    except Unsupported:
        return None
    return unify_types(ta, tb)


def tuple_items(v):
    """items of a tuple-like value, or None"""
    if isinstance(v, MTup):
        return list(v.items)
    if isinstance(v, SV) and isinstance(v.t, TupT):
        return [SV(it, tup_get(v.t, v.z, i)) for i, it in enumerate(v.t.items)]
    return None


def truthy(v):
    if isinstance(v, SV):
        t = v.t
        if t == BOOL:
            return v.z
        if t == INT:
            return v.z != 0
        if t == STR or isinstance(t, SeqT):
            return z3.Length(v.z) > 0
        if isinstance(t, OptT):
            inner = SV(t.inner, opt_val(t, v.z))
            return z3.And(z3.Not(opt_is_none(t, v.z)), truthy(inner))
        if isinstance(t, ObjT) and t.family in FAMILY_TRUTHY:
            return FAMILY_TRUTHY[t.family](v.z)
        if isinstance(t, ObjT) or t == PATH or t == ANY:
            return z3.BoolVal(True)     # families have no __bool__/__len__ unless stated
        if isinstance(t, TupT):
            return z3.BoolVal(len(t.items) > 0)
        raise Unsupported('truth value of %s' % (t,))
    if v is MNONE:
        return z3.BoolVal(False)
    if isinstance(v, (MTup, MList)):
        return z3.BoolVal(len(v.items) > 0)
    if isinstance(v, (MFn, MCls, MNS)):
        return z3.BoolVal(True)
    raise Unsupported('truth value of %r' % (v,))


def is_none(v):
    if v is MNONE:
        return z3.BoolVal(True)
    if isinstance(v, SV) and isinstance(v.t, OptT):
        return opt_is_none(v.t, v.z)
    return z3.BoolVal(False)


def strip_opt(v):
    """payload of an Optional (caller has established non-None)."""
    if isinstance(v, SV) and isinstance(v.t, OptT):
        return SV(v.t.inner, opt_val(v.t, v.z))
    return v


FAMILY_EQ_STR = {}   # family -> function(ref_z, str_z) -> Bool   (obj == 'text')
FAMILY_EQ = {}       # family -> function(ref_a, ref_b) -> Bool   (obj == obj); default identity
FAMILY_TRUTHY = {}   # family -> function(ref_z) -> Bool           (bool(obj)); default True


def py_eq(a, b):
    """Python == as a z3 Bool."""
    if isinstance(a, MU) or isinstance(b, MU):
        raise Unsupported('maybe-unbound in ==')
    if a is MNONE or b is MNONE:
        o = b if a is MNONE else a
        if o is MNONE:
            return z3.BoolVal(True)
        if isinstance(o, SV) and isinstance(o.t, OptT):
            return opt_is_none(o.t, o.z)
        return z3.BoolVal(False)
    if isinstance(a, MCls) and isinstance(b, MCls):
        return z3.BoolVal(a.name == b.name)
    ia, ib = tuple_items(a), tuple_items(b)
    if ia is not None and ib is not None and not (isinstance(a, SV) and isinstance(b, SV) and a.t == b.t):
        if len(ia) != len(ib):
            return z3.BoolVal(False)
        if not ia:
            return z3.BoolVal(True)
        return z3.And(*[py_eq(x, y) for x, y in zip(ia, ib)])
    if isinstance(a, MList) and isinstance(b, MList):
        if len(a.items) != len(b.items):
            return z3.BoolVal(False)
        return z3.And(z3.BoolVal(True), *[py_eq(x, y) for x, y in zip(a.items, b.items)])
    if isinstance(a, SV) and isinstance(b, SV):
        if a.t == b.t:
            if isinstance(a.t, ObjT) and a.t.family in FAMILY_EQ:
                return FAMILY_EQ[a.t.family](a.z, b.z)
            return a.z == b.z
        if isinstance(a.t, OptT) and not isinstance(b.t, OptT):
            return z3.And(z3.Not(opt_is_none(a.t, a.z)), py_eq(strip_opt(a), b))
        if isinstance(b.t, OptT) and not isinstance(a.t, OptT):
            return py_eq(b, a)
        if isinstance(a.t, OptT) and isinstance(b.t, OptT):
            return z3.Or(z3.And(opt_is_none(a.t, a.z), opt_is_none(b.t, b.z)),
                         z3.And(z3.Not(opt_is_none(a.t, a.z)), z3.Not(opt_is_none(b.t, b.z)),
                                py_eq(strip_opt(a), strip_opt(b))))
        if {a.t, b.t} == {INT, BOOL}:
            return pack(a, INT) == pack(b, INT)
        if isinstance(a.t, ObjT) and b.t == STR:
            f = FAMILY_EQ_STR.get(a.t.family)
            return f(a.z, b.z) if f else z3.BoolVal(False)
        if isinstance(b.t, ObjT) and a.t == STR:
            return py_eq(b, a)
        if isinstance(a.t, ObjT) and isinstance(b.t, ObjT):
            return a.z == b.z
        if isinstance(a.t, SeqT) and isinstance(b.t, SeqT):
            u = unify_types(a.t, b.t)
            if u is not None:
                return pack(a, u) == pack(b, u)
        # values of unrelated builtin types never compare equal
        prim = (INT, BOOL, STR, PATH)
        if (a.t in prim or isinstance(a.t, (TupT, SeqT))) and (b.t in prim or isinstance(b.t, (TupT, SeqT))):
            return z3.BoolVal(False)
        raise Unsupported('== between %s and %s' % (a.t, b.t))
    u = unify_values(a, b)
    if u is not None:
        return pack(a, u) == pack(b, u)
    raise Unsupported('== between %r and %r' % (a, b))


def py_lt(a, b, strict=True):
    """a < b (strict) or a <= b."""
    ia, ib = tuple_items(a), tuple_items(b)
    if ia is not None and ib is not None:
        # lexicographic
        n = min(len(ia), len(ib))
        res = z3.BoolVal((len(ia) < len(ib)) if strict else (len(ia) <= len(ib)))
        for k in reversed(range(n)):
            res = z3.Or(py_lt(ia[k], ib[k], True), z3.And(py_eq(ia[k], ib[k]), res))
        return res
    if isinstance(a, SV) and isinstance(b, SV):
        if a.t in (INT, BOOL) and b.t in (INT, BOOL):
            x, y = pack(a, INT), pack(b, INT)
            return x < y if strict else x <= y
        if a.t == STR and b.t == STR:
            return a.z < b.z if strict else a.z <= b.z
    raise Unsupported('ordering between %r and %r' % (a, b))


def ite(c, a, b):
    """merge two values under condition c, or None if not mergeable"""
    if a is b:
        return a
    if isinstance(a, MU) or isinstance(b, MU):
        av, ac = (a.val, a.cond) if isinstance(a, MU) else (a, z3.BoolVal(True))
        bv, bc = (b.val, b.cond) if isinstance(b, MU) else (b, z3.BoolVal(True))
        m = ite(c, av, bv)
        if m is None:
            return None
        return MU(m, z3.If(c, ac, bc))
    if isinstance(a, SV) and isinstance(b, SV) and a.t == b.t:
        if z3.eq(a.z, b.z):
            if a.shared or not b.shared:
                return a
            return b
        r = SV(a.t, z3.If(c, a.z, b.z))
        r.shared = a.shared or b.shared       # owned on one branch = must not be mutated in place after the join
        return r
    if isinstance(a, (MFn, MCls, MNS, MDict)) or isinstance(b, (MFn, MCls, MNS, MDict)):
        return None
    if isinstance(a, MTup) and isinstance(b, MTup) and len(a.items) == len(b.items):
        its = [ite(c, x, y) for x, y in zip(a.items, b.items)]
        if all(i is not None for i in its):
            return MTup(its)
    if isinstance(a, MList) and isinstance(b, MList) and len(a.items) == len(b.items):
        its = [ite(c, x, y) for x, y in zip(a.items, b.items)]
        if all(i is not None for i in its):
            return MList(its)
    if a is MNONE and b is MNONE:
        return MNONE
    try:
        u = unify_values(a, b)
    except Unsupported:
        return None
    if u is None or u == NONE:
        return None
    try:
        return SV(u, z3.If(c, pack(a, u), pack(b, u)))
    except Unsupported:
        return None
