"""Driver: extract the real function from /repo, run the symbolic executor under
its sidecar contract, produce the obligation list (with vacuity covers)."""
import ast
import hashlib
import os
import time
import z3

from .types import (INT, BOOL, STR, ANY, NONE, OptT, TupT, SeqT, SetT, DictT, ObjT, sort_of, Ref)
from .values import (Unsupported, SV, MNONE, MTup, MList, MFn, MCls, MNS, MU, MExc, const, fresh,
                     pack, as_sv, truthy, type_of, FAMILY_EQ_STR, FAMILY_EQ, FAMILY_TRUTHY, fresh_name)
from .spec import FnSpec, Family, Contract
from .engine import (Verifier, State, Outcome, NORMAL, RETURN, RAISE, BREAK, CONTINUE,
                     exc_is_subclass, EXC_BASES)
from .calls import assigned_names, contains_yield

REPO = os.environ.get('JEDI_REPO', '/repo')


class Registry:
    def __init__(self):
        self.families = {}
        self.names = {}          # shared callee specs / constants by name
        self.spec_fns = {}       # name -> MFn inline (is_spec)
        self.spec_py = {}        # name -> python callable (concrete evaluation)
        self.exceptions = set()
        self.constructors = {}
        self._parse_cache = {}
        self.rec_decls = {}      # name -> (params, ret, ast node)
        self.rec_built = {}

    def parse_expr(self, s):
        n = self._parse_cache.get(s)
        if n is None:
            n = ast.parse(s.strip(), mode='eval').body
            self._parse_cache[s] = n
        return n

    def add_family(self, fam):
        self.families[fam.name] = fam

    def add_exception(self, name, bases=('Exception',)):
        self.exceptions.add(name)
        EXC_BASES[name] = tuple(bases)

    def add_spec_module(self, module):
        """spec functions are ordinary Python functions in a sidecar module: their
        AST is executed symbolically (inlined), their code object concretely."""
        import inspect
        src = inspect.getsource(module)
        tree = ast.parse(src)
        wanted = set(getattr(module, 'SPEC_FUNCTIONS', []))
        rec = getattr(module, 'REC_FUNCTIONS', {})
        for s in tree.body:
            if isinstance(s, ast.FunctionDef) and s.name in rec:
                params, ret = rec[s.name]
                self.rec_decls[s.name] = (params, ret, s)
                self.spec_py[s.name] = getattr(module, s.name)
            elif isinstance(s, ast.FunctionDef) and s.name in wanted:
                self.spec_fns[s.name] = MFn('inline', s.name, node=s, frame=None, is_spec=True)
                self.spec_py[s.name] = getattr(module, s.name)

    def build_rec(self, V):
        """recursive spec functions -> z3 RecFunction, body obtained by executing the
        Python definition symbolically once (recursive calls map to the z3 function)"""
        from .calls import inline_call
        for name, (params, ret, node) in self.rec_decls.items():
            if name in self.rec_built:
                V.spec_fns[name] = self.rec_built[name]
                continue
            zf = z3.RecFunction(name, *([sort_of(t) for _, t in params] + [sort_of(ret)]))
            fn = MFn('rec', name, params=params, ret=ret, zfn=zf)
            self.rec_built[name] = fn
        for name, (params, ret, node) in self.rec_decls.items():
            fn = self.rec_built[name]
            V.spec_fns[name] = fn
            if getattr(fn, 'defined', False):
                continue
            for n2, f2 in self.rec_built.items():
                V.spec_fns[n2] = f2
            st = State()
            args = [const(t, 'rec!%s!%s' % (name, pn)) for pn, t in params]
            body = inline_call(V, MFn('inline', name, node=node, frame=None, is_spec=True), args, {}, st, node)
            for cnd in st.pc:
                chk = z3.Solver()
                chk.set('timeout', 3000)
                chk.add(z3.Not(cnd))
                if chk.check() != z3.unsat:
                    raise Unsupported('recursive spec %s has side conditions' % name)
            z3.RecAddDefinition(fn.zfn, [a.z for a in args], pack(body, ret))
            fn.defined = True


def find_function(tree, qualname):
    """qualname like 'Class.method', 'outer.inner', 'outer.inner.wrapper'."""
    parts = [p for p in qualname.split('.') if p != '<locals>']
    node = tree
    for p in parts:
        found = None
        if p.startswith('<lambda'):
            # n-th lambda (source order) inside the enclosing function, wrapped as `def: return <body>`
            k = int(p[8:-1]) if '#' in p else 0
            lams = sorted([n for n in ast.walk(node) if isinstance(n, ast.Lambda)],
                          key=lambda n: (n.lineno, n.col_offset))
            if k >= len(lams):
                return None
            lam = lams[k]
            fd = ast.FunctionDef(name='<lambda>', args=lam.args, body=[ast.Return(value=lam.body)],
                                 decorator_list=[], returns=None, type_comment=None, type_params=[])
            ast.copy_location(fd, lam)
            ast.copy_location(fd.body[0], lam)
            fd.end_lineno = lam.end_lineno
            fd.end_col_offset = lam.end_col_offset
            node = fd
            continue
        for ch in ast.walk(node) if node is not tree else node.body:
            if ch is node:
                continue
            if isinstance(ch, (ast.FunctionDef, ast.ClassDef, ast.AsyncFunctionDef)) and ch.name == p:
                found = ch
                break
        if found is None and node is tree:
            # module-level: also look inside if/try blocks
            for ch in ast.walk(tree):
                if isinstance(ch, (ast.FunctionDef, ast.ClassDef)) and ch.name == p:
                    found = ch
                    break
        if found is None:
            return None
        node = found
    return node if isinstance(node, (ast.FunctionDef, ast.AsyncFunctionDef)) else None


def number_loops(func):
    """loop ordinals in source order; loops of nested defs are keyed 'name:k'."""
    ids = {}

    def walk(node, prefix, counter):
        for ch in ast.iter_child_nodes(node):
            if isinstance(ch, (ast.FunctionDef, ast.AsyncFunctionDef, ast.Lambda)) and ch is not func:
                nm = getattr(ch, 'name', 'lambda')
                walk(ch, nm + ':', [0])
                continue
            if isinstance(ch, (ast.For, ast.While)):
                k = counter[0]
                counter[0] += 1
                ids[id(ch)] = (prefix + str(k)) if prefix else k
            walk(ch, prefix, counter)
    walk(func, '', [0])
    return ids


class FunctionResult:
    def __init__(self, contract):
        self.contract = contract
        self.obligations = []
        self.status = 'ok'        # ok | undecided | error
        self.reason = ''
        self.sha256 = ''
        self.span = (0, 0)
        self.assumed = []
        self.dropped = []
        self.bounded = []
        self.covers = {}
        self.paths = 0
        self.axioms = []
        self.gen_s = 0.0
        self.verifier = None


def install_axioms(V):
    """family axioms + equality hooks"""
    for fam in V.reg.families.values():
        if fam.eq_str:
            def mk(fam):
                def f(rz, sz):
                    st0 = State()
                    return truthy(V.eval_spec(fam.eq_str, st0, {'o': SV(ObjT(fam.name), rz), 's': SV(STR, sz)}))
                return f
            FAMILY_EQ_STR[fam.name] = mk(fam)
        else:
            FAMILY_EQ_STR.pop(fam.name, None)
        if fam.eq:
            def mk2(fam):
                def f(az, bz):
                    st0 = State()
                    return truthy(V.eval_spec(fam.eq, st0, {'a': SV(ObjT(fam.name), az), 'b': SV(ObjT(fam.name), bz)}))
                return f
            FAMILY_EQ[fam.name] = mk2(fam)
        else:
            FAMILY_EQ.pop(fam.name, None)
        if getattr(fam, 'truthy', None):
            def mk3(fam):
                def f(rz):
                    st0 = State()
                    return truthy(V.eval_spec(fam.truthy, st0, {'o': SV(ObjT(fam.name), rz)}))
                return f
            FAMILY_TRUTHY[fam.name] = mk3(fam)
        else:
            FAMILY_TRUTHY.pop(fam.name, None)
    used = set(V.c.families)
    for fname in used:
        fam = V.family(fname)
        for ax in fam.axioms:
            o = z3.Const('o!' + fam.name, Ref)
            st0 = State()
            body = truthy(V.eval_spec(ax, st0, {'o': SV(ObjT(fam.name), o)}))
            extra = st0.pc
            if extra:
                body = z3.Implies(z3.And(*extra), body)
            V.axioms.append(z3.ForAll([o], body))
    for ax in V.c.axioms:
        st0 = State()
        V.axioms.append(truthy(V.eval_spec(ax, st0)))


AXIOM_BUILDERS = {}


def need_axiom(V, key):
    if key in V._axioms_added:
        return
    V._axioms_added.add(key)
    S = z3.StringSort()
    if key == 'lower':
        f = V.uf('str.lower', [S], S)
        s = z3.Const('s!lower', S)
        V.axioms.append(z3.ForAll([s], f(f(s)) == f(s)))
        V.ground_axioms.append(f(z3.StringVal('')) == z3.StringVal(''))
        V.axioms.append(f(z3.StringVal('')) == z3.StringVal(''))
    elif key == 'join':
        f = V.uf('str.join', [S, z3.SeqSort(S)], S)
        sep = z3.Const('sep!join', S)
        a = z3.Const('a!join', z3.SeqSort(S))
        x = z3.Const('x!join', S)
        V.axioms.append(z3.ForAll([sep], f(sep, z3.Empty(z3.SeqSort(S))) == z3.StringVal('')))
        V.axioms.append(z3.ForAll([sep, x], f(sep, z3.Unit(x)) == x))
        # join('', a ++ [x]) = join('', a) + x
        V.axioms.append(z3.ForAll([a, x], f(z3.StringVal(''), z3.Concat(a, z3.Unit(x)))
                                  == z3.Concat(f(z3.StringVal(''), a), x)))
    elif key == 'split':
        # str contract: sep.join(s.split(sep)) == s for a non-empty separator
        sp = V.uf('str.split', [S, S], z3.SeqSort(S))
        jn = V.uf('str.join', [S, z3.SeqSort(S)], S)
        s = z3.Const('s!split', S)
        sep = z3.Const('sep!split', S)
        V.axioms.append(z3.ForAll([s, sep], z3.Implies(z3.Length(sep) > 0, jn(sep, sp(s, sep)) == s),
                                  patterns=[sp(s, sep)]))
    elif key.startswith('count:'):
        pass


def verify_function(contract, reg, repo=REPO):
    res = FunctionResult(contract)
    t0 = time.time()
    path = os.path.join(repo, contract.file)
    try:
        src = open(path, encoding='utf-8').read()
        tree = ast.parse(src)
    except (OSError, SyntaxError) as e:
        res.status = 'undecided'
        res.reason = 'cannot read/parse %s: %s' % (contract.file, e)
        return res
    func = find_function(tree, contract.qualname)
    if func is None:
        res.status = 'undecided'
        res.reason = 'function %s not found in %s' % (contract.qualname, contract.file)
        return res
    if contract.region is not None:
        # block contract: the obligations are about this region of the function body only
        body = contract.region(func)
        if not body:
            res.status = 'undecided'
            res.reason = 'region of %s not found (function shape changed)' % contract.qualname
            return res
        func = ast.FunctionDef(name=func.name, args=func.args, body=list(body), decorator_list=[],
                               returns=None, type_comment=None, type_params=[], lineno=body[0].lineno,
                               col_offset=func.col_offset, end_lineno=body[-1].end_lineno,
                               end_col_offset=body[-1].end_col_offset)
    seg = ast.get_source_segment(src, func) or ''
    res.sha256 = hashlib.sha256(seg.encode()).hexdigest()
    res.span = (func.lineno, func.end_lineno)
    V = Verifier(contract, func, tree, reg)
    res.verifier = V
    V._axioms_added = set()
    V.need_axiom = lambda key: need_axiom(V, key)
    V.loop_ids = number_loops(func)
    V.int_nonneg = set()
    V.ghost_card = lambda st, v: None
    def ykey_type():
        ent = V.entry.fork()
        k = V.eval_spec(contract.yield_key, ent, {'c': fresh(contract.yields, 'c')})
        return type_of(k)
    V.ykey_type = ykey_type
    V.oblige_spec_nonempty = lambda st, sep, node: V.may_raise(
        st, z3.Length(sep) > 0, 'ValueError', 'empty separator', node)
    from . import values as _values
    del _values.PENDING_FACTS[:]
    try:
        reg.build_rec(V)
        install_axioms(V)
        st = State()
        a = func.args
        declared = [p.arg for p in a.posonlyargs + a.args + a.kwonlyargs]
        if a.vararg:
            declared.append(a.vararg.arg)
        if a.kwarg:
            declared.append(a.kwarg.arg)
        for p in declared:
            if p not in contract.params:
                raise Unsupported('parameter %s of %s has no type in the contract' % (p, contract.qualname))
        for p in contract.params:
            if p not in declared:
                raise Unsupported('contract names parameter %s which %s does not have (signature changed)'
                                  % (p, contract.qualname))
        inputs = {}
        def shaped(name, ty):
            n = contract.shape.get(name)
            if n is None:
                return None
            if isinstance(ty, OptT) and isinstance(ty.inner, SeqT):
                ty = ty.inner          # bounded instance: the non-None case
            if not isinstance(ty, SeqT):
                return None
            return MList([const(ty.elem, '%s!%d' % (name, k)) for k in range(n)])
        for name, ty in contract.params.items():
            if isinstance(ty, FnSpec):
                st.env[name] = MFn('spec', name, spec=ty)     # function-valued parameter: abstract callee
                continue
            v = shaped(name, ty)
            if v is None:
                v = MNONE if ty == NONE else const(ty, name)
            st.env[name] = v
            if isinstance(v, SV):
                inputs[name] = v
        for name, ty in contract.free.items():
            if isinstance(ty, FnSpec):
                st.env[name] = MFn('spec', name, spec=ty)
            elif isinstance(ty, (MFn, MCls, MNS)):
                st.env[name] = ty
            else:
                v = shaped(name, ty)
                if v is None:
                    v = MNONE if ty == NONE else const(ty, name)
                st.env[name] = v
                if isinstance(v, SV):
                    inputs[name] = v
        for name, ty in contract.ghost.items():
            v = shaped(name, ty)
            st.env[name] = v if v is not None else const(ty, name)
            if isinstance(st.env[name], SV):
                inputs[name] = st.env[name]
        V.inputs = inputs
        for r in contract.requires:
            st.assume(V.eval_spec_bool(r, st))
        entry = st.fork()
        V.entry = entry
        V.old_stack = [entry]
        V.local_names = [assigned_names(func.body) | set(declared)]
        V.yield_stack = [None]
        is_gen = contains_yield(func) and contract.yields is not None
        outs = V.exec_block(func.body, st)
        exit_obligations(V, outs, entry, is_gen)
    except Unsupported as e:
        res.status = 'undecided'
        res.reason = 'unsupported: %s' % e
    except RecursionError:
        res.status = 'undecided'
        res.reason = 'engine recursion limit'
    V.axioms.extend(_values.PENDING_FACTS)     # definitions of fresh model constants (reversed, ...)
    res.obligations = V.obligations
    res.assumed = sorted(V.assumed_used)
    res.dropped = V.dropped_calls
    res.bounded = V.bounded_notes
    res.covers = V.covers
    res.axioms = V.axioms
    res.gen_s = time.time() - t0
    return res


def exit_obligations(V, outs, entry, is_gen):
    c = V.c
    n_normal = 0
    for o in outs:
        st = o.st
        if o.kind in (BREAK, CONTINUE):
            if c.region is None:
                raise Unsupported('break/continue outside loop')
            # block contract on (part of) a loop body: leaving the block by continue/break is a normal exit of the block
            o = Outcome(NORMAL, o.st)
            st = o.st
        if o.kind in (NORMAL, RETURN):
            if not V.feasible(st.pc):
                continue
            n_normal += 1
            val = o.val if o.kind == RETURN else MNONE
            if is_gen:
                val = st.ghost.get('yielded')
                if val is None:
                    val = SV(SeqT(c.yields), z3.Empty(sort_of(SeqT(c.yields))))
            elif c.ret is not None and val is not None:
                try:
                    val = as_sv(val, c.ret) if c.ret != NONE else MNONE
                except Unsupported:
                    pass    # a result of another shape: the postconditions are evaluated on it as it is
            env = dict(entry.env)
            env['result'] = val
            env['EFFECTS'] = st.ghost.get('effects') or SV(SeqT(STR), z3.Empty(sort_of(SeqT(STR))))
            for fn_ in c.free:
                if fn_ in st.env and not isinstance(st.env[fn_], (MFn, MCls, MNS, MU)):
                    env['NEW_' + fn_] = st.env[fn_]      # final value of a closure/global variable
            if c.yield_key and is_gen:
                ks = st.ghost.get('ykeys')
                if ks is None:
                    kt = V.ykey_type()
                    ks = SV(SetT(kt), z3.K(sort_of(kt), False))
                env['YKEYS'] = ks
            V.exits.append(('normal', st, val))
            for e in c.ensures + c.ensures_all:
                ps = post_state(st, env)
                g = V.eval_spec_bool(e, ps)
                st.pc = ps.pc
                V.oblige(st, g, 'post', e, None, assume=False)
            for cls in c.raises_iff:
                cond = c.raises.get(cls)
                if cond is None:
                    continue
                ps = post_state(entry_with_pc(entry, st), env)
                g = z3.Not(V.eval_spec_bool(cond, ps))
                V.oblige(st, g, 'raises', 'normal exit although %s is required: %s' % (cls, cond), None,
                         assume=False)
        elif o.kind == RAISE:
            if not V.feasible(st.pc):
                continue
            exc = o.val
            env = dict(entry.env)
            env['exc_class'] = SV(STR, z3.StringVal(exc.cls))
            env['EFFECTS'] = st.ghost.get('effects') or SV(SeqT(STR), z3.Empty(sort_of(SeqT(STR))))
            for fn_ in c.free:
                if fn_ in st.env and not isinstance(st.env[fn_], (MFn, MCls, MNS, MU)):
                    env['NEW_' + fn_] = st.env[fn_]      # final value of a closure/global variable
            V.exits.append(('raise:' + exc.cls, st, exc))
            for e in c.ensures_exc + c.ensures_all:
                ps = post_state(st, env)
                g = V.eval_spec_bool(e, ps)
                st.pc = ps.pc
                V.oblige(st, g, 'frame', 'on exceptional exit (%s): %s' % (exc.cls, e), None, assume=False)
            if exc.origin is not None and c.allow_callee_exceptions:
                continue
            declared = [d for d in c.raises if exc_is_subclass(exc.cls, d)]
            if not declared:
                V.oblige(st, z3.BoolVal(False), 'raises',
                         'exception %s escapes (not allowed by the contract)' % exc.cls, None, assume=False)
                continue
            V.covers['raises'][declared[0]] = True
            cond = c.raises[declared[0]]
            if cond is not None:
                ps = post_state(entry_with_pc(entry, st), env)
                g = V.eval_spec_bool(cond, ps)
                V.oblige(st, g, 'raises', '%s raised only if %s' % (exc.cls, cond), None, assume=False)
    V.covers['normal'] = n_normal > 0
    V.n_paths = len(outs)


def post_state(st, env):
    ps = st.fork()
    ps.env = dict(env)
    return ps


def entry_with_pc(entry, st):
    e = entry.fork()
    e.pc = list(st.pc)
    return e
