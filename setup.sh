#!/bin/sh
# Build the offline overlay venv used by every check (idempotent, ~10 s).
set -e
HERE="$(cd "$(dirname "$0")" && pwd)"
V="$HERE/.venv"
if [ -x "$V/bin/python" ] && "$V/bin/python" -c "import z3, parso, jsonschema" 2>/dev/null; then
    exit 0
fi
rm -rf "$V"
/venv/bin/python -m venv "$V"
PIP_NO_INDEX=1 "$V/bin/pip" install -q --no-index --find-links /opt/veriftools/wheels \
    z3-solver jsonschema >/dev/null
SP="$("$V/bin/python" -c 'import sysconfig; print(sysconfig.get_paths()["purelib"])')"
echo "import site; site.addsitedir('/venv/lib/python3.12/site-packages')" > "$SP/_venv_overlay.pth"
"$V/bin/python" -c "import z3, parso, jsonschema; print('venv ok', z3.get_version_string(), parso.__version__)"
