"""answers of a fresh interpreter process with an empty parser cache (the oracle of C08/C09)"""
import json
import os
import subprocess
import sys
import tempfile
import shutil

CHILD = r'''
import sys, json, os
repo, cache, project_dir, path, code, queries = json.loads(sys.argv[1])
sys.path.insert(0, repo)
import jedi
jedi.settings.cache_directory = cache
print(json.dumps(__import__('standins._fresh', fromlist=['answers']).answers(jedi, project_dir, path, code, queries)))
'''


def answers(jedi, project_dir, path, code, queries):
    """a JSON-able digest of query results: names, types, positions, signatures, docstrings"""
    project = jedi.Project(project_dir)
    s = jedi.Script(code, path=path, project=project)
    out = []
    for q in queries:
        kind, line, col = q
        try:
            if kind == 'complete':
                r = sorted((c.name, c.type) for c in s.complete(line, col) if not c.name.startswith('__'))[:40]
            elif kind in ('infer', 'goto'):
                res = getattr(s, kind)(line, col, **({'follow_imports': True} if kind == 'goto' else {}))
                r = sorted((d.name, d.type, os.path.relpath(str(d.module_path), project_dir) if d.module_path else None,
                            d.line, d.column, d.docstring(raw=True)[:40]) for d in res)
            elif kind == 'signatures':
                r = [(sg.name, sg.to_string(), sg.index) for sg in s.get_signatures(line, col)]
            elif kind == 'names':
                r = sorted((n.name, n.type, n.line, n.column) for n in s.get_names(all_scopes=True))
            elif kind == 'context':
                c = s.get_context(line, col)
                r = (c.name, c.type)
            else:
                r = None
        except RecursionError:
            r = 'RecursionError'
        except Exception as e:
            r = 'EXC:' + type(e).__name__
        out.append(json.loads(json.dumps(r)))
    return out


def fresh_answers(repo, project_dir, path, code, queries):
    cache = tempfile.mkdtemp(prefix='fresh_', dir=os.environ.get('STANDIN_TMP', '/var/tmp'))
    try:
        here = os.path.dirname(os.path.dirname(os.path.abspath(__file__)))
        p = subprocess.run([sys.executable, '-c', CHILD, json.dumps([repo, cache, project_dir, path, code, queries])],
                           capture_output=True, text=True, timeout=300,
                           env=dict(os.environ, PYTHONPATH=here, PYTHONHASHSEED='0'))
        try:
            return json.loads(p.stdout.strip().splitlines()[-1])
        except Exception:
            raise RuntimeError('fresh process failed: %s' % p.stderr[-500:])
    finally:
        shutil.rmtree(cache, ignore_errors=True)
