"""C01 bounded stand-in: contract `raises <= {ValueError iff position out of range}` on every query method of the
real Script and on the documented attributes of the returned objects, over token soups and line prefixes, and
over valid programs drawn from a small grammar (functions with type hints in every notation jedi reads; functions
that forward their star parameters) together with the states such a program passes through while ONE statement in
the middle of the file is being typed."""
import itertools
import json
import multiprocessing as mp
import os
import random
import re
import sys
import traceback
import zlib

HERE = os.path.dirname(os.path.abspath(__file__))


def signature():
    """(exception class, innermost frame inside the jedi tree under test as file:function)"""
    et, ev, tb = sys.exc_info()
    # an AttributeError that escapes a jedi property is re-raised as UncaughtAttributeError(e) from e in
    # inference/utils.py: the failure class is the one of the cause, not of the wrapper
    while et.__name__ == 'UncaughtAttributeError' and ev.__cause__ is not None:
        ev = ev.__cause__
        et, tb = type(ev), ev.__traceback__
    inner = None
    for fs in traceback.extract_tb(tb):
        if '/jedi/' in fs.filename and '/standins/' not in fs.filename:
            inner = '%s:%s' % (fs.filename.split('/jedi/', 1)[1], fs.name)
    return '%s@%s' % (et.__name__, inner)


# further artifacts of the sandbox without typeshed that only the generated programs reach
LOCAL_ARTIFACTS = {
    # FunctionValue.py__class__ looks up types.FunctionType (= type(_f) in the stdlib source, a class only with the
    # typeshed stub types.pyi); reached by awaiting a function object while `await target(...)` is typed
    'ValueError@inference/value/function.py:py__class__',
    # the same for BoundMethod.py__class__ and types.MethodType (`return await Foo().meth` while the call is typed)
    'ValueError@inference/value/instance.py:py__class__',
}


def load_artifacts():
    p = os.path.join(HERE, 'environment_artifacts.json')
    if os.path.exists(p):
        return set(json.load(open(p))['signatures']) | LOCAL_ARTIFACTS
    return set(LOCAL_ARTIFACTS)

ALPHABET = ['x', 'def', 'class', '(', ')', ':', '.', ',', '=', '*', '\n', '    ', '"', '1', 'import', 'from',
            'lambda', '[', '@', 'x.y']
SNIPPETS = [
    'import os\nos.path.join(a, b)\n',
    'def f(a, b=1, *args, c, **kw):\n    return a.b(c)[0]\nf(1, c=2)\n',
    'class A(B):\n    @property\n    def p(self): return self._x\nA().p.q\n',
    'x = [i for i in range(3) if i]\nx[0].real\n',
    'try:\n    pass\nexcept (A, B) as e:\n    raise e from None\n',
    'with open(f) as g, h:\n    g.read(\n',
    'lambda x, *y: (x, y)\n"str".upper().\n',
    'from . import a\nfrom .b import (c,\n  d)\n',
    'async def g():\n    await h()\n    async for i in j: yield i\n',
    'x: int = 3\ndef f() -> "A": ...\nf().\n',
    'a = b = c\ndel a\nglobal q\nif a:\n  pass\nelif b: pass\nelse: pass\n',
    "f'{x!r:>{w}}'\nb'bytes'\n",
    'x = 1\r\ny = x\r\n',
    'def f(\n',
    'class\n',
    'x.\n',
    '\tif x:\n\t\ty\n',
    'print(a, b=3, *c, **d)\n',
]
ATTRS = ['name', 'type', 'module_name', 'module_path', 'line', 'column', 'description', 'full_name',
         'is_keyword']
METHODS = [('docstring', {}), ('docstring', {'raw': True}), ('get_line_code', {}), ('is_stub', {}),
           ('is_side_effect', {}), ('in_builtin_module', {}), ('get_definition_start_position', {}),
           ('get_definition_end_position', {}), ('parent', {}), ('get_type_hint', {})]


def programs(tier):
    out = []
    n = 2 if tier == 'quick' else 3
    toks = ALPHABET if tier != 'quick' else ALPHABET[:14]
    for k in range(0, n + 1):
        for combo in itertools.product(toks, repeat=k):
            if k == 3 and zlib.crc32(' '.join(combo).encode()) % 7:     # (not hash(): randomised per process)
                continue
            out.append(' '.join(combo) if k else '')
    for s in SNIPPETS:
        lines = s.splitlines(keepends=True)
        for i in range(len(s) + 1):
            if tier == 'quick' and i % 4:
                continue
            out.append(s[:i])
    # small edits
    out += [s.replace('(', '', 1) for s in SNIPPETS] + [s.replace(':', '', 1) for s in SNIPPETS]
    seen = set()
    res = []
    for p in out:
        if p not in seen:
            seen.add(p)
            res.append(p)
    return res


# ---------------------------------------------------------------------------------------------------------------
# Grammar-generated programs.  The quantifier of C01 ranges over "valid programs, every prefix of a valid program =
# code being typed, small edits of valid programs"; the fixed SNIPPETS above are a dozen points of that space.  The
# generator below adds three dimensions:
#   (1) HINTS: the type of a parameter / variable / return value is declared in every notation jedi reads
#       (Python 3 annotation, PEP 484 signature comment after the def, type comment on an assignment / for / with),
#       with the declared expression drawn from TYPE_ATOMS (names, forward references, `...`, constants, subscripts,
#       starred forms, expressions that are no types at all, text that is no expression at all) and declaration
#       lists that are shorter, equal and longer than the parameter list;
#   (2) FORWARD: a function (def, async def, method) hands its *args / **kwargs on to another callable in every
#       syntactic place where a starred argument can stand (call statement, call in an expression, method call,
#       nested call, class bases, decorator), with matching and non-matching stars, and is called elsewhere;
#   (3) TYPING IN THE MIDDLE: for each such program the one "focus" line is cut off at every lexical boundary while
#       the lines BEFORE AND AFTER it stay (the existing prefixes only model typing at the end of the file).
# Positions for these programs are token directed (inside every name, behind every `.`, `(`, `,`, `=`, `[`) in the lines
# of the functions concerned, because the line start / middle / end used for the token soups practically never hits
# a parameter name.  Only user-defined classes are used (no typeshed in this sandbox).
PRELUDE = ('class Bar:\n'
           '    def ping(self):\n'
           '        return self\n'
           '\n'
           'class Foo:\n'
           '    attr = Bar()\n'
           '    def meth(self, other, third):\n'
           '        return other\n'
           '\n')
# what can be written where a type is expected
TYPE_ATOMS = ['Foo', "'Foo'", '"Bar"', '...', 'None', '1', "b'Foo'", 'Foo.attr', 'Foo[Bar]', 'Foo[Bar, Bar]',
              '(Foo)', '[Foo]', '()', 'Foo()', '-1', 'Foo or Bar', 'Foo | Bar', 'lambda: Foo', '*Foo', '**Bar', '*',
              'Missing', 'not Foo', 'Foo if Bar else Foo', "''", "'('", "'Foo Bar'", 'Foo Bar', '(', "'Foo", ':',
              'x = 1', 'yield']
# parameter lists of the hinted function: (parameters, the parameter used in the body)
# (no *args / **kwargs here: a declared type makes them tuple[T] / dict[str, T], which needs typeshed)
HINT_PARAMS = [(['arg'], 'arg'), (['arg', 'other'], 'other'), (['arg', 'other', 'third'], 'arg'),
               (['other', 'arg=Foo()'], 'other'), (['arg', 'other=Foo()', '*', 'key'], 'key'),
               (['arg', '/', 'other'], 'arg')]
HINT_STYLES = ['signature-comment', 'signature-comment-same-line', 'signature-comment-method', 'annotation',
               'assign-comment', 'for-comment', 'with-comment', 'tuple-assign-comment']


def _decl_lists(rng, n_params, atoms):
    """declaration lists for a signature comment: every atom alone, and lists around the length of the parameter
    list"""
    out = [''] + list(atoms)
    for k in sorted({2, n_params - 1, n_params, n_params + 1} - {0, 1}):
        out.append(', '.join(rng.choice(atoms[:22]) for _ in range(k)))
    out.append(rng.choice(atoms[:22]) + ',')
    out.append(', '.join(['Foo'] * max(n_params, 1)))
    return out


def _hint_program(style, params, used, decl, ret):
    """(code, index of the focus line or None, first line of the region whose tokens are queried, column from which
    the focus line is cut)"""
    body_obj = used
    cut_from = 0
    if style == 'annotation':
        ann = decl.split(', ') if decl else []
        ps = []
        i = 0
        for p in params:
            if p in ('*', '/'):
                ps.append(p)
                continue
            a = ann[i % len(ann)] if ann else None
            i += 1
            if a is None:
                ps.append(p)
            elif '=' in p:
                ps.append('%s: %s = %s' % (p.split('=')[0], a, p.split('=')[1]))
            else:
                ps.append('%s: %s' % (p, a))
        head = ['def func(%s) -> %s:' % (', '.join(ps), ret)]
        focus = None      # the focus line would be the def header, see DEF_HEADER_FINDING
        body = ['    result = %s' % body_obj, '    return result.attr']
    elif style == 'signature-comment':
        head = ['def func(%s):' % ', '.join(params), '    # type: (%s) -> %s' % (decl, ret)]
        focus = 1
        body = ['    result = %s' % body_obj, '    return result.attr']
    elif style == 'signature-comment-same-line':
        head = ['def func(%s):  # type: (%s) -> %s' % (', '.join(params), decl, ret)]
        focus = 0
        cut_from = head[0].index('#')       # the comment is typed, not the def header, see DEF_HEADER_FINDING
        body = ['    result = %s' % body_obj, '    return result.attr']
    elif style == 'signature-comment-method':
        head = ['class Owner:', '    def func(self, %s):' % ', '.join(params),
                '        # type: (%s) -> %s' % (decl, ret)]
        focus = 2
        body = ['        result = %s' % body_obj, '        return result.attr', '', 'func = Owner().func']
    elif style == 'assign-comment':
        head = ['def func(%s):' % ', '.join(params)]
        body = ['    result = %s  # type: %s' % (body_obj, decl), '    return result.attr']
        focus = 1
    elif style == 'tuple-assign-comment':
        head = ['def func(%s):' % ', '.join(params)]
        # TUPLE_COMMENT_FINDING (unchanged jedi, reported): a tuple in a type comment with FEWER elements than the
        # assignment has targets (`a, b = x  # type: Foo,` or `# type: ()`) raises SimpleGetItemNotFound out of
        # infer / goto / complete (annotation.py _infer_annotation_string: `len(...) >= index` instead of `>`), e.g.
        # jedi.Script('class Foo: pass\nx = Foo()\na, b = x  # type: Foo,\nb').infer(4, 1)
        # Excluded sub-dimension: the declared tuple always has at least as many elements as there are targets, and
        # the comment is not taken through its typing states (they pass through the shorter tuples).
        if decl.count(',') < 1 or decl.rstrip().endswith(',') or decl.startswith('()'):
            decl = 'Foo, %s' % (decl.rstrip(', ') or 'Bar')
        if decl.startswith(('(', '[')):
            decl = 'Bar, ' + decl
        body = ['    result, second = %s  # type: %s' % (body_obj, decl), '    return second.attr']
        focus = None
    elif style == 'for-comment':
        head = ['def func(%s):' % ', '.join(params)]
        body = ['    for result in %s:  # type: %s' % (body_obj, decl), '        result.attr', '    return result']
        focus = 1
    elif style == 'with-comment':
        head = ['def func(%s):' % ', '.join(params)]
        body = ['    with %s as result:  # type: %s' % (body_obj, decl), '        result.attr', '    return result']
        focus = 1
    else:
        raise AssertionError(style)
    lines = head + body + ['', 'value = func(Foo(), Foo())', 'value.attr', 'func(Foo(), ']
    pre = PRELUDE.count('\n')
    return PRELUDE + '\n'.join(lines) + '\n', (None if focus is None else pre + focus), pre, cut_from


# --- forwarding of star parameters ---------------------------------------------------------------------------
FORWARD_PARAMS = [['*args'], ['**kwargs'], ['first', '*args'], ['first', '**kwargs'], ['*args', '**kwargs'],
                  ['first', '*args', 'key=Foo()', '**kwargs']]
# {S} = the starred arguments, the first line is the focus line
FORWARD_FORMS = ['return target({S})',
                 'value = target({S})',
                 'return Foo().meth({S})',
                 'return Foo.meth({S})',
                 'return target({S}).attr',
                 'return target(target({S}))',
                 'return target(Foo())({S})',
                 'return [target({S}), first]',
                 'class Local(Foo, {S}):\n        pass',
                 '@target({S})\n    def inner():\n        pass',
                 'return wrapper({S})',
                 'return missing({S})',
                 'if target({S}):\n        pass',
                 'return second({S})']
# LAMBDA_FINDING (unchanged jedi, reported): a lambda that is called with a number of arguments it does not take makes
# get_type_hint() of every name that needs the call raise AttributeError('lambda is not named.') (inference/param.py
# _error_argument_count reads funcdef.name), e.g.
# jedi.Script('w = lambda k: k\nv = lambda: w()\nv').infer(3, 1)[0].get_type_hint()
# Excluded sub-dimension: the forwarding function written as a lambda.
FORWARD_KINDS = ['def', 'async def', 'method']


def _star_lists(params):
    has_a = '*args' in params
    has_k = '**kwargs' in params
    out = []
    if has_a:
        out += ['*args', 'Foo(), *args', '*args, c=Foo()', 'args', '**args']
    if has_k:
        out += ['**kwargs', 'a=Foo(), **kwargs', 'Foo(), **kwargs', '*kwargs']
    if has_a and has_k:
        out += ['*args, **kwargs', 'Foo(), *args, **kwargs']
    return out


def _forward_program(kind, params, form, stars, tail):
    """(code, index of the focus line or None, first line of the queried region, 0)"""
    form = form.replace('{S}', stars)
    if 'first' not in params:
        form = form.replace(', first]', ']')
    lines = ['def target(a, b, c):', '    return a', '',
             'def second(*args, **kwargs):', '    return target(*args, **kwargs)', '',
             'def use():', '    wrapper()', '    return wrapper(Foo(), Foo())', '']
    region = len(lines) - 4
    if kind == 'method':
        lines += ['class Owner:', '    def wrapper(self, %s):' % ', '.join(params)]
        focus = len(lines)
        lines += ['        ' + l for l in form.replace('\n    ', '\n').split('\n')]
    else:
        lines.append('%s wrapper(%s):' % (kind, ', '.join(params)))
        focus = len(lines)
        if kind == 'async def':
            form = form.replace('return target(', 'return await target(', 1)
        lines += ['    ' + l for l in form.split('\n')]
    # (an assignment directly behind the focus line would become a keyword argument of the call that is being typed,
    # see KEYWORD_FINDING; a def / class line ends the unfinished statement for the parser)
    lines += [''] + tail + ([''] + ['wrapper = Owner().wrapper'] if kind == 'method' else [])
    lines += ['', 'wrapper(Foo())', 'wrapper(']
    pre = PRELUDE.count('\n')
    if '=' in stars:
        focus = None        # a keyword argument in the call that is being typed, see KEYWORD_FINDING
    return PRELUDE + '\n'.join(lines) + '\n', (None if focus is None else pre + focus), pre + region, 0


_BOUNDARY = re.compile(r'\w+|\s+|[^\w\s]')


# Findings in unchanged jedi that these exclusions keep out of the generated scope (reported, to be recorded as known
# findings; both are the keyword-argument branch of AbstractTreeName.goto in inference/names.py, which takes the
# direct parent of a `name=value` argument for the trailer of a finished call):
# KEYWORD_FINDING: goto / help / get_references on the name of a keyword argument of a call whose closing bracket is
#   missing while further statements follow raise AttributeError ('Newline' object has no attribute 'children'), e.g.
#   jedi.Script('def t(a):\n    return a\n\ndef w(**k):\n    return t(a=t, **k\n\nclass O:\n    pass\n').goto(5, 14)
# DEF_HEADER_FINDING: while a def header with a call in a default value is typed (`def f(a, b=Foo(` + the old body), the
#   first body line `x = y` is read as a keyword argument; goto / help / get_references on x raise AssertionError
#   ('Cannot infer the keyword <Keyword: class>'), e.g.
#   jedi.Script('class Foo: pass\ndef func(arg, other=Foo(\n    result = key\n    return result\n').goto(3, 7)
# FORWARD_TRAILER_FINDING (inference/star_args.py _to_callables takes the parent of the call's trailer for an atom_expr):
#   a finished forwarding call followed by an unfinished rest of the statement (`return target(1, **kwargs).`) makes
#   the signature of the forwarding function raise AssertionError ('Cannot infer the keyword <Keyword: return>') or
#   AttributeError ('Operator' object has no attribute 'children'), e.g.
#   jedi.Script('def target(a, b): return a\ndef wrapper(**kwargs):\n    return target(1, **kwargs).\nwrapper('
#               ).get_signatures()[0].to_string()
# Excluded sub-dimensions: typing states of def headers; typing states of calls that contain a keyword argument;
# typing states behind the closing bracket of the forwarding call.
def _typing_states(code, focus, cut_from=0, rng=None, cut_to=None):
    """the program while line `focus` is being typed: the line is cut at a lexical boundary (behind its indentation),
    all other lines stay.  rng=None: every cut; else the cuts in front of a closing bracket (the bracket that is
    still open is THE state in which completion and call signatures are asked for) and one more cut chosen by rng."""
    lines = code.split('\n')
    line = lines[focus]
    indent = len(line) - len(line.lstrip())
    cuts = sorted({m.start() for m in _BOUNDARY.finditer(line)
                   if max(indent, cut_from) < m.start() <= (len(line) if cut_to is None else cut_to)})
    if rng is not None and cuts:
        extra = rng.choice(cuts)
        cuts = [c for c in cuts if line[c] in ')]}' or c == extra]
    out = []
    for c in cuts:
        out.append('\n'.join(lines[:focus] + [line[:c].rstrip(' ')] + lines[focus + 1:]))
    return out


def generated_programs(tier, seed):
    """list of (code, first line (0-based) of the region with token-directed positions).  Every value of every
    dimension (declared expression, return expression, hint style, parameter list, forwarding form, star list,
    kind of function) occurs for EVERY seed; the seed only decides how the values of different dimensions are
    combined and, in the quick tier, which of the hint programs are also taken through their typing states."""
    rng = random.Random(seed * 7919 + 13)
    quick = tier == 'quick'
    atoms = TYPE_ATOMS
    plain = atoms[:22]                  # the atoms that are expressions
    not_expr = ('*Foo', '**Bar', '*', 'x = 1', ':', 'Foo Bar', '(', "'Foo", 'yield')

    def cycle(values, k):
        """k-th element of a seed-dependent rotation: each value is used once per len(values) draws"""
        return values[(k + seed) % len(values)]
    hints = []
    # (1a) every declaration text and every return text of a signature comment
    decls = _decl_lists(rng, 2, atoms)
    rets = list(atoms)
    rng.shuffle(rets)
    for i, decl in enumerate(decls):
        params, used = cycle(HINT_PARAMS, i)
        hints.append(_hint_program(cycle(HINT_STYLES[:3], i // 2), params, used, decl, rets[i % len(rets)]))
    # (1b) every style x parameter list (quick: every style and every parameter list), with one arbitrary expression
    # and one list of the right length
    k = 0
    for si, style in enumerate(HINT_STYLES):
        for pi, (params, used) in enumerate(HINT_PARAMS):
            if quick and (pi + si + seed) % 3:
                continue
            n = len([p for p in params if p not in ('*', '/')])
            ds = [rng.choice(plain if style == 'annotation' else atoms),
                  ', '.join(rng.choice(atoms[:12]) for _ in range(n))]
            if not quick and (pi + si) % len(HINT_PARAMS) == 0:
                ds = list(atoms) + ds
            for decl in ds:
                if style == 'annotation' and decl in not_expr:
                    continue        # not an expression: the def itself would be the broken part (see token soups)
                k += 1
                hints.append(_hint_program(style, params, used, decl, cycle(atoms[:12], k)))
    # (2) forwarding: every form with matching stars; every parameter list x every star list; every kind
    tails = [['def other():', '    pass'], ['class Other:', '    pass'], ['@target', 'def other():', '    pass']]
    combos = []
    for i, form in enumerate(FORWARD_FORMS):
        params = cycle(FORWARD_PARAMS, i)
        match = [x for x in _star_lists(params) if x.count('*') and not x.startswith(('**args', '*kwargs'))]
        for stars in ([cycle(match, i)] if quick else match):
            combos.append((cycle(FORWARD_KINDS[:2], i), params, form, stars))
    k = 0
    for params in FORWARD_PARAMS:
        for stars in _star_lists(params):
            k += 1
            combos.append((cycle(FORWARD_KINDS, k), params, cycle(FORWARD_FORMS[:8], k // 2), stars))
    for ki, kind in enumerate(FORWARD_KINDS):
        for fi, form in enumerate(FORWARD_FORMS[:8]):
            if quick and (fi + ki + seed) % 4:
                continue
            params = cycle(FORWARD_PARAMS, fi + ki)
            combos.append((kind, params, form, cycle(_star_lists(params)[:3], fi)))
    forwards = []
    for i, c in enumerate(combos):
        b = _forward_program(*c, tail=cycle(tails, i))
        if b is not None:
            forwards.append(b)
    out = []
    seen = set()

    def add(code, region):
        if code not in seen:
            seen.add(code)
            out.append((code, region))
    # (3) typing in the middle of the file.  quick: every forwarding program, a third of the hint programs
    for i, (code, focus, region, cut_from) in enumerate(hints):
        add(code, region)
        if focus is not None and (not quick or (i + seed) % 3 == 0):
            for st in _typing_states(code, focus, cut_from, rng if quick else None):
                add(st, region)
    for code, focus, region, cut_from in forwards:
        add(code, region)
        if focus is not None:
            line = code.split('\n')[focus]
            for st in _typing_states(code, focus, cut_from, rng if quick else None,
                                     cut_to=max(line.rfind(')'), line.rfind(']'))):
                add(st, region)
    return out


def token_positions(code, region):
    """one position inside every name / keyword and behind every `.`, `(`, `,`, `=`, `[` from line `region`
    (0-based) on, plus the end of every such line"""
    import parso
    pos = set()
    leaf = parso.parse(code).get_first_leaf()
    while leaf is not None:
        (l, c), (el, ec) = leaf.start_pos, leaf.end_pos
        if l > region:
            if leaf.type in ('name', 'keyword') and el == l:
                pos.add((l, c + (ec - c + 1) // 2))
            elif leaf.type == 'operator' and leaf.value in ('.', '(', ',', '=', '['):
                pos.add((el, ec))
        leaf = leaf.get_next_leaf()
    lines = parso.split_lines(code)
    for li in range(region + 1, len(lines) + 1):
        pos.add((li, len(lines[li - 1])))
    return sorted(pos)


def positions(code, tier):
    import parso
    lines = parso.split_lines(code, keepends=True)
    pos = []
    for li, l in enumerate(lines, 1):
        tl = len(l.rstrip('\r\n')) if l.endswith(('\n', '\r')) else len(l)
        cols = range(0, tl + 1) if tier != 'quick' else sorted({0, tl, tl // 2})
        for c in cols:
            pos.append((li, c, True))
        pos.append((li, tl + 1, False))
    pos.append((len(lines) + 1, 0, False))
    pos.append((0, 0, False))
    return pos


def _has(o, attr):
    # looked up on the class: hasattr(o, attr) would evaluate a property and take an AttributeError raised INSIDE it
    # for "no such attribute", i.e. hide exactly the failures this check is about
    return hasattr(type(o), attr)


class Toucher:
    """reads the documented attributes / calls the documented methods of result objects.  One failing attribute does
    not end the inspection (it is recorded in .problems and the next attribute is read); an object equal to one that
    was already inspected for the same Script is skipped (jedi answers from its caches then)."""

    def __init__(self):
        self.seen = set()
        self.problems = []

    def call(self, what, f, *args, **kw):
        try:
            return f(*args, **kw)
        except RecursionError:
            # subject of C15; in this sandbox mostly the tuple / dict of *args / **kwargs without typeshed
            return ()
        except Exception:
            self.problems.append({'attribute': what, 'signature': signature(),
                                  'observed': traceback.format_exc(limit=5)})
            return ()

    def _key(self, o):
        if _has(o, 'complete'):
            return (type(o).__name__, o.name, o.complete, o.type)
        if _has(o, 'index'):
            return (type(o).__name__, o, o.index, o.bracket_start)
        return (type(o).__name__, o)       # Name.__eq__ / __hash__: same definition

    def touch(self, objs, deep=True):
        for o in list(objs)[:4]:
            key = self.call('__hash__', self._key, o)
            if key != ():
                if (key, True) in self.seen or (key, deep) in self.seen:
                    continue
                self.seen.add((key, deep))
            for a in ATTRS:
                self.call(a, getattr, o, a)
            for m, kw in METHODS:
                if _has(o, m):
                    self.call(m, getattr(o, m), **kw)
            self.call('__repr__', repr, o)
            if _has(o, 'complete'):
                self.call('complete', lambda: (o.complete, o.name_with_symbols, o.get_completion_prefix_length()))
            if _has(o, 'params'):
                # NOT exercised: ParamName.infer_default() / infer_annotation().  Finding "ParamName.infer_default /
                # infer_annotation raise AttributeError for the parameters of a compiled signature" (unchanged jedi:
                # 'SignatureParamName' object has no attribute 'infer_annotation'); see the report of this change.
                for p in self.call('params', lambda: o.params):
                    self.call('params[i]', lambda: (p.name, p.kind, p.to_string(), repr(p)))
                self.call('to_string', o.to_string)
                if _has(o, 'index'):
                    self.call('index', lambda: (o.index, o.bracket_start))
            if deep:
                # second step: the documented methods of a Name that return Names / Signatures again
                for m in ('get_signatures', 'infer', 'goto', 'defined_names', 'execute'):
                    if _has(o, m):
                        self.touch(self.call(m, getattr(o, m)), deep=False)
                if _has(o, 'is_definition'):
                    self.call('is_definition', o.is_definition)


def check_one(job):
    code, tier, region = job
    import jedi
    viol = []
    n = 0
    # jedi raises the interpreter's recursion limit to 3000 for deeply nested real-world code.  The generated programs
    # have at most 35 lines; every query on them needs a fraction of CPython's own default depth (1000), but each
    # RecursionError of the sandbox (tuple/dict of *args/**kwargs without typeshed) costs time proportional to the
    # limit.  RecursionError is not judged here in any case (C15).
    sys.setrecursionlimit(3000 if region is None else 1000)
    try:
        s = jedi.Script(code)
    except Exception:
        return 1, [{'label': 'Script() raised', 'input': repr(code), 'observed': traceback.format_exc(limit=3)}]
    toucher = Toucher()

    def touched(label, inp):
        """the failures of result attributes since the last call, as violations of the query (one per failure class)"""
        done = set()
        for pr in toucher.problems:
            if pr['signature'] not in done:
                done.add(pr['signature'])
                viol.append({'label': label, 'input': inp, 'observed': pr['observed'], 'signature': pr['signature'],
                             'attribute': pr['attribute']})
        del toucher.problems[:]
    for q, args in (('get_names', {}), ('get_names', {'all_scopes': True, 'references': True}),
                    ('get_syntax_errors', {}), ('search', {'string': 'x'}), ('complete_search', {'string': 'x'})):
        n += 1
        try:
            r = getattr(s, q)(**args)
            if q != 'get_syntax_errors':
                toucher.touch(r)
                touched('%s raised' % q, repr(code))
            else:
                [(e.line, e.column, e.until_line, e.until_column, e.get_message()) for e in r]
        except RecursionError:
            pass        # C15
        except Exception:
            viol.append({'label': '%s raised' % q, 'input': repr(code), 'observed': traceback.format_exc(limit=4),
                         'signature': signature()})
    if region is None:
        pos = positions(code, tier)
    else:
        pos = [(l, c, True) for l, c in token_positions(code, region)]
        pos += [p for p in positions(code, 'quick') if not p[2]][-4:]
    for (line, col, ok) in pos:
        for q in ('complete', 'infer', 'goto', 'help', 'get_references', 'get_signatures', 'get_context'):
            n += 1
            try:
                # generated programs: references within the file.  The project-wide search reads whatever lies in the
                # working directory (not an input of this check) and costs seconds per call.
                kw = {'scope': 'file'} if q == 'get_references' and region is not None else {}
                r = getattr(s, q)(line, col, **kw)
                if not ok:
                    viol.append({'label': '%s accepted an out-of-range position' % q,
                                 'signature': 'out-of-range-accepted:' + q,
                                 'input': repr((code, line, col)), 'observed': 'returned normally'})
                    continue
                toucher.touch([r] if q == 'get_context' else r)
                touched('%s raised an internal exception' % q, repr((code, line, col)))
            except ValueError as e:
                is_position_error = str(e).startswith(('`line` parameter', '`column` parameter'))
                if ok and is_position_error:
                    viol.append({'label': '%s rejected an in-range position' % q, 'signature': 'in-range-rejected:' + q,
                                 'input': repr((code, line, col)), 'observed': traceback.format_exc(limit=3)})
                elif not is_position_error:
                    viol.append({'label': '%s raised an internal exception' % q, 'input': repr((code, line, col)),
                                 'observed': traceback.format_exc(limit=5), 'signature': signature()})
            except RecursionError:
                pass
            except Exception:
                viol.append({'label': '%s raised an internal exception' % q, 'input': repr((code, line, col)),
                             'observed': traceback.format_exc(limit=5), 'signature': signature()})
    return n, viol


def _init_worker():
    # one private parser-cache directory per worker: concurrent writers of one pickle cache would produce
    # EOFError/UnpicklingError that have nothing to do with the code under test
    import tempfile
    import jedi
    jedi.settings.cache_directory = tempfile.mkdtemp(prefix='w_', dir=os.environ['STANDIN_TMP'])


def run(repo, seed, tier):
    progs = programs(tier)
    if tier == 'quick':
        # a fixed slice per seed keeps the quick run short
        progs = [p for i, p in enumerate(progs) if (i + seed) % 6 == 0]
    gen = generated_programs(tier, seed)
    jobs = [(p, tier, None) for p in progs] + [(p, tier, region) for p, region in gen]
    with mp.get_context('fork').Pool(min(16, os.cpu_count() or 4), initializer=_init_worker) as pool:
        results = pool.map(check_one, jobs, chunksize=4)
    evaluations = sum(r[0] for r in results)
    violations = [v for r in results for v in r[1]]
    # Exceptions that are artifacts of THIS sandbox (the typeshed submodule is not checked out, so builtins
    # resolve to compiled modules and stub-dependent inference paths fail) are listed by signature in
    # environment_artifacts.json; they say nothing about jedi and are not reported. Anything else is.
    artifacts = load_artifacts()
    all_sigs = sorted({v.get('signature', '') for v in violations})
    # at most three cases per (query, failure class): one frequent failure must not push the others out of the report
    count = {}
    kept = []
    for v in violations:
        sig = v.get('signature', v['label'])
        if sig in artifacts:
            continue
        key = (v['label'], sig)
        count[key] = count.get(key, 0) + 1
        if count[key] <= 3:
            kept.append(v)
    return {'name': 'C01.script-total', 'contract': 'C01.Script.*',
            'evaluations': evaluations, 'distinct_nontrivial': len([p for p in progs if p.strip()]) + len(gen),
            'rule': 'token soups (<=2/3 tokens over a fixed alphabet), every prefix of %d snippets, small edits; all '
                    'positions in range and one step out of range; 12 query methods + result attributes (and the Names / '
                    'Signatures their documented methods return); %d grammar-generated programs (type hints in every '
                    'notation x declared expression; star-parameter forwarding x form x stars) incl. the states while '
                    'one line in the middle is typed, token-directed positions; non-trivial = non-blank program'
                    % (len(SNIPPETS), len(gen)),
            'samples': progs[:3] + progs[-2:],
            'violations': kept[:300], 'signatures_seen': all_sigs,
            'environment_artifacts_filtered': sorted(artifacts & set(all_sigs))}
