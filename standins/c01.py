"""C01 bounded stand-in: contract `raises <= {ValueError iff position out of range}` on every query method of the
real Script and on the documented attributes of the returned objects, over token soups and line prefixes."""
import itertools
import json
import multiprocessing as mp
import os
import sys
import traceback

HERE = os.path.dirname(os.path.abspath(__file__))


def signature():
    """(exception class, innermost frame inside the jedi tree under test as file:function)"""
    et, ev, tb = sys.exc_info()
    inner = None
    for fs in traceback.extract_tb(tb):
        if '/jedi/' in fs.filename and '/standins/' not in fs.filename:
            inner = '%s:%s' % (fs.filename.split('/jedi/', 1)[1], fs.name)
    return '%s@%s' % (et.__name__, inner)


def load_artifacts():
    p = os.path.join(HERE, 'environment_artifacts.json')
    if os.path.exists(p):
        return set(json.load(open(p))['signatures'])
    return set()

ALPHABET = ['x', 'def', 'class', '(', ')', ':', '.', ',', '=', '*', '\n', '    ', '"', '1', 'import', 'from',
            'lambda', '[', '@', 'x.y']
SNIPPETS = [
    'import os\nos.path.join(a, b)\n',
    'def f(a, b=1, *args, c, **kw):\n    return a.b(c)[0]\nf(1, c=2)\n',
    'class A(B):\n    @property\n    def p(self): return self._x\nA().p.q\n',
    'x = [i for i in range(3) if i]\nx[0].real\n',
    'try:\n    pass\nexcept (A, B) as e:\n    raise e from None\n',
    'with open(f) as g, h:\n    g.read(\n',
    'lambda x, *y: (x, y)\n"str".upper().\n',
    'from . import a\nfrom .b import (c,\n  d)\n',
    'async def g():\n    await h()\n    async for i in j: yield i\n',
    'x: int = 3\ndef f() -> "A": ...\nf().\n',
    'a = b = c\ndel a\nglobal q\nif a:\n  pass\nelif b: pass\nelse: pass\n',
    "f'{x!r:>{w}}'\nb'bytes'\n",
    'x = 1\r\ny = x\r\n',
    'def f(\n',
    'class\n',
    'x.\n',
    '\tif x:\n\t\ty\n',
    'print(a, b=3, *c, **d)\n',
]
ATTRS = ['name', 'type', 'module_name', 'module_path', 'line', 'column', 'description', 'full_name',
         'is_keyword']
METHODS = [('docstring', {}), ('docstring', {'raw': True}), ('get_line_code', {}), ('is_stub', {}),
           ('is_side_effect', {}), ('in_builtin_module', {}), ('get_definition_start_position', {}),
           ('get_definition_end_position', {}), ('parent', {}), ('get_type_hint', {})]


def programs(tier):
    out = []
    n = 2 if tier == 'quick' else 3
    toks = ALPHABET if tier != 'quick' else ALPHABET[:14]
    for k in range(0, n + 1):
        for combo in itertools.product(toks, repeat=k):
            if k == 3 and (hash(combo) % 7) != 0:
                continue
            out.append(' '.join(combo) if k else '')
    for s in SNIPPETS:
        lines = s.splitlines(keepends=True)
        for i in range(len(s) + 1):
            if tier == 'quick' and i % 4:
                continue
            out.append(s[:i])
    # small edits
    out += [s.replace('(', '', 1) for s in SNIPPETS] + [s.replace(':', '', 1) for s in SNIPPETS]
    seen = set()
    res = []
    for p in out:
        if p not in seen:
            seen.add(p)
            res.append(p)
    return res


def positions(code, tier):
    import parso
    lines = parso.split_lines(code, keepends=True)
    pos = []
    for li, l in enumerate(lines, 1):
        tl = len(l.rstrip('\r\n')) if l.endswith(('\n', '\r')) else len(l)
        cols = range(0, tl + 1) if tier != 'quick' else sorted({0, tl, tl // 2})
        for c in cols:
            pos.append((li, c, True))
        pos.append((li, tl + 1, False))
    pos.append((len(lines) + 1, 0, False))
    pos.append((0, 0, False))
    return pos


def check_one(code_tier):
    code, tier = code_tier
    import jedi
    viol = []
    n = 0

    def touch(objs):
        for o in list(objs)[:4]:
            for a in ATTRS:
                getattr(o, a)
            for m, kw in METHODS:
                if hasattr(o, m):
                    getattr(o, m)(**kw)
            if hasattr(o, 'complete'):
                o.complete, o.name_with_symbols, o.get_completion_prefix_length()
            if hasattr(o, 'params'):
                [(p.name, p.kind, p.to_string()) for p in o.params]
                o.index, o.bracket_start, o.to_string()
    try:
        s = jedi.Script(code)
    except Exception:
        return 1, [{'label': 'Script() raised', 'input': repr(code), 'observed': traceback.format_exc(limit=3)}]
    for q, args in (('get_names', {}), ('get_names', {'all_scopes': True, 'references': True}),
                    ('get_syntax_errors', {}), ('search', {'string': 'x'}), ('complete_search', {'string': 'x'})):
        n += 1
        try:
            r = getattr(s, q)(**args)
            if q != 'get_syntax_errors':
                touch(r)
            else:
                [(e.line, e.column, e.until_line, e.until_column, e.get_message()) for e in r]
        except RecursionError:
            pass        # C15
        except Exception:
            viol.append({'label': '%s raised' % q, 'input': repr(code), 'observed': traceback.format_exc(limit=4),
                         'signature': signature()})
    for (line, col, ok) in positions(code, tier):
        for q in ('complete', 'infer', 'goto', 'help', 'get_references', 'get_signatures', 'get_context'):
            n += 1
            try:
                r = getattr(s, q)(line, col)
                if not ok:
                    viol.append({'label': '%s accepted an out-of-range position' % q,
                                 'signature': 'out-of-range-accepted:' + q,
                                 'input': repr((code, line, col)), 'observed': 'returned normally'})
                    continue
                touch([r] if q == 'get_context' else r)
            except ValueError as e:
                is_position_error = str(e).startswith(('`line` parameter', '`column` parameter'))
                if ok and is_position_error:
                    viol.append({'label': '%s rejected an in-range position' % q, 'signature': 'in-range-rejected:' + q,
                                 'input': repr((code, line, col)), 'observed': traceback.format_exc(limit=3)})
                elif not is_position_error:
                    viol.append({'label': '%s raised an internal exception' % q, 'input': repr((code, line, col)),
                                 'observed': traceback.format_exc(limit=5), 'signature': signature()})
            except RecursionError:
                pass
            except Exception:
                viol.append({'label': '%s raised an internal exception' % q, 'input': repr((code, line, col)),
                             'observed': traceback.format_exc(limit=5), 'signature': signature()})
    return n, viol


def _init_worker():
    # one private parser-cache directory per worker: concurrent writers of one pickle cache would produce
    # EOFError/UnpicklingError that have nothing to do with the code under test
    import tempfile
    import jedi
    jedi.settings.cache_directory = tempfile.mkdtemp(prefix='w_', dir=os.environ['STANDIN_TMP'])


def run(repo, seed, tier):
    progs = programs(tier)
    if tier == 'quick':
        # a fixed slice per seed keeps the quick run short
        progs = [p for i, p in enumerate(progs) if (i + seed) % 6 == 0]
    with mp.get_context('fork').Pool(min(16, os.cpu_count() or 4), initializer=_init_worker) as pool:
        results = pool.map(check_one, [(p, tier) for p in progs], chunksize=4)
    evaluations = sum(r[0] for r in results)
    violations = [v for r in results for v in r[1]]
    # Exceptions that are artifacts of THIS sandbox (the typeshed submodule is not checked out, so builtins
    # resolve to compiled modules and stub-dependent inference paths fail) are listed by signature in
    # environment_artifacts.json; they say nothing about jedi and are not reported. Anything else is.
    artifacts = load_artifacts()
    all_sigs = sorted({v.get('signature', '') for v in violations})
    seen = set()
    uniq = []
    for v in violations:
        sig = v.get('signature', v['label'])
        if sig in artifacts:
            continue
        if sig not in seen:
            seen.add(sig)
            uniq.append(v)
    return {'name': 'C01.script-total', 'contract': 'C01.Script.*',
            'evaluations': evaluations, 'distinct_nontrivial': len([p for p in progs if p.strip()]),
            'rule': 'token soups (<=2/3 tokens over a fixed alphabet), every prefix of %d snippets, small edits; all '
                    'positions in range and one step out of range; 12 query methods + result attributes; '
                    'non-trivial = non-blank program' % len(SNIPPETS),
            'samples': progs[:3] + progs[-2:],
            'violations': [v for v in violations if v.get('signature', v['label']) not in artifacts][:300], 'signatures_seen': all_sigs,
            'environment_artifacts_filtered': sorted(artifacts & set(all_sigs))}
