"""C03 bounded stand-in: goto on executed uses of identifiers vs the scope Python really took the value from.

Every binding assigns a unique integer; every use is observe(site, name). The program is executed, which tells for each
use which binding supplied the value. Contract: every definition goto returns for the use is a binding of the same
identifier in the SAME scope as the observed binding (or its global/nonlocal declaration); in straight-line programs
it is exactly the observed assignment.

Flow dimension (FLOW section): the binding and the use sit in (different / the same / nested) branches of if chains, try
statements, loops and with blocks of a class body or a function; selectors injected at run time decide which branch
runs, so the observation tells whether the binding in the branch ran (value from the host scope) or not (value from the
enclosing scope)."""
import ast
import collections
import itertools
import os
import random
import traceback

# name = <unique int>   binds ; observe(<site>, name) uses.  '#S' marks straight-line single-scope programs.
PROGRAMS = [
    '#S\nx = 101\nobserve(1, x)\nx = 102\nobserve(2, x)\ny = 103\nobserve(3, x)\n',
    'x = 201\ndef f():\n    observe(1, x)\n    y = 202\n    observe(2, y)\n    def g():\n        observe(3, y)\n        observe(4, x)\n    g()\nf()\nobserve(5, x)\n',
    'x = 301\ndef f():\n    x = 302\n    observe(1, x)\n    def g():\n        x = 303\n        observe(2, x)\n    g()\n    observe(3, x)\nf()\nobserve(4, x)\n',
    'x = 401\nclass C:\n    x = 402\n    observe(1, x)\n    def m(self):\n        observe(2, x)\n    y = [observe(3, x) for _ in (1,)]\nC().m()\n',
    'x = 501\ndef f():\n    global x\n    x = 502\n    observe(1, x)\nf()\nobserve(2, x)\n',
    'def f():\n    x = 601\n    def g():\n        nonlocal x\n        x = 602\n        observe(1, x)\n    g()\n    observe(2, x)\nf()\n',
    'x = 701\ndef f(x):\n    observe(1, x)\n    def g(y=x):\n        observe(2, y)\n    g()\nf(702)\nobserve(3, x)\n',
    'x = 801\nsq = [observe(1, x) for x in (802,)]\nobserve(2, x)\ngen = list(observe(3, x) for x in (803,))\n',
    'x = 901\nlam = lambda x: observe(1, x)\nlam(902)\nlam2 = lambda: observe(2, x)\nlam2()\n',
    'x = 1001\ndef f():\n    for x in (1002,):\n        observe(1, x)\n    observe(2, x)\nf()\nobserve(3, x)\n',
    'def outer():\n    v = 1101\n    class K:\n        v = 1102\n        def m(self):\n            observe(1, v)\n    K().m()\nouter()\n',
    '#S\na = 1201\nb = 1202\nobserve(1, a)\nobserve(2, b)\na = 1203\nobserve(3, a)\n',
    'x = 1301\ndef f():\n    observe(1, x)\nf()\nx = 1302\nf()\n',
]


def generated_programs(tier):
    """scope nestings of depth 1..3 below the module over {function, class}, x bound (or not) at every level before
    the nested definition, and four forms of the innermost use: plain, lambda, comprehension, bare-name parameter
    default (evaluated at def time in the defining scope, observed through the parameter)"""
    import itertools
    out = []
    counter = [2000]
    depths = (1, 2, 3)
    forms = ('plain', 'lambda', 'comp', 'default')
    for depth in depths:
        for nest in itertools.product('FC', repeat=depth):
            for bound in itertools.product((False, True), repeat=depth + 1):
                if not any(bound):
                    continue
                # quick tier: all nestings, a sample of binding patterns
                idx = sum(1 << i for i, b in enumerate(bound) if b)
                if tier == 'quick' and depth == 3 and idx % 3 != 1:
                    continue
                for form in forms:
                    if tier == 'quick' and depth >= 2 and form in ('lambda', 'comp') and idx % 2 == 0:
                        continue
                    lines = []
                    site = [0]

                    def emit(ind, text):
                        lines.append('    ' * ind + text)

                    def bind(ind):
                        counter[0] += 1
                        emit(ind, 'x = %d' % counter[0])
                    if bound[0]:
                        bind(0)
                    ind = 0
                    for lvl, kind in enumerate(nest, 1):
                        if kind == 'F':
                            emit(ind, 'def f%d():' % lvl)
                        else:
                            emit(ind, 'class C%d:' % lvl)
                        ind += 1
                        if bound[lvl]:
                            bind(ind)
                    site[0] += 1
                    if form == 'plain':
                        emit(ind, 'observe(%d, x)' % site[0])
                    elif form == 'lambda':
                        emit(ind, '(lambda: observe(%d, x))()' % site[0])
                    elif form == 'comp':
                        emit(ind, '[observe(%d, x) for _ in (0,)]' % site[0])
                    else:
                        emit(ind, 'def g(p=x):')
                        emit(ind + 1, 'observe(%d, p)' % site[0])
                        emit(ind, 'g()')
                    # call the functions (class bodies run by themselves), innermost first on the way out
                    for lvl in range(len(nest), 0, -1):
                        ind -= 1
                        if nest[lvl - 1] == 'F':
                            emit(ind, 'f%d()' % lvl)
                    out.append('\n'.join(lines) + '\n')
    return out


# ---------------------------------------------------------------------------------------------------------------------
# FLOW section: control flow between the binding and the use
# ---------------------------------------------------------------------------------------------------------------------
class _Sk:
    """skeleton builder: blocks are lists of nodes; nodes are ('slot', id) or flow statements"""
    def __init__(self):
        self.n = 0

    def slot(self):
        self.n += 1
        return ('slot', self.n)

    def if_(self, branches, has_else):
        self.n += 1
        return ('if', self.n, branches, has_else)

    def try_(self, body, handlers, orelse, final):
        self.n += 1
        return ('try', self.n, body, handlers, orelse, final)

    def loop(self, kind, body, orelse):
        self.n += 1
        return (kind, self.n, body, orelse)


def _branches(node):
    """[(key, block)] of a flow statement"""
    kind = node[0]
    if kind == 'if':
        return list(enumerate(node[2]))
    if kind == 'try':
        out = [('try', node[2])]
        out += [(('h', k), b) for k, b in enumerate(node[3])]
        if node[4] is not None:
            out.append(('else', node[4]))
        if node[5] is not None:
            out.append(('finally', node[5]))
        return out
    out = [('body', node[2])]
    if node[3] is not None:
        out.append(('else', node[3]))
    return out


def _slot_paths(block, prefix, out):
    for node in block:
        if node[0] == 'slot':
            out[node[1]] = list(prefix)
        else:
            for key, blk in _branches(node):
                _slot_paths(blk, prefix + [(node, key)], out)
    return out


def _options(node, key):
    """selector values of a flow statement under which the branch `key` is executed"""
    kind = node[0]
    if kind == 'if':
        return [key]
    if kind == 'try':
        nh = len(node[3])
        if key in ('try', 'finally'):
            return list(range(nh + 1))
        if key == 'else':
            return [0]
        return [key[1] + 1]
    return [0]


def _all_options(node):
    kind = node[0]
    if kind == 'if':
        n = len(node[2])
        return list(range(n if node[3] else n + 1))     # n = no branch runs (chain without else)
    if kind == 'try':
        return list(range(len(node[3]) + 1))
    return [0]


def _render(block, ind, items, assign, static, lines):
    """assign: flow id -> selector value; flow statements that hold no item are left out"""
    start = len(lines)
    pad = '    ' * ind
    for node in block:
        if node[0] == 'slot':
            for text in items.get(node[1], ()):
                lines.append(pad + text)
            continue
        if node[1] not in assign:
            continue
        kind, fid = node[0], node[1]
        if kind == 'if':
            n = len(node[2])
            for i, blk in enumerate(node[2]):
                if i == n - 1 and node[3]:
                    lines.append(pad + 'else:')
                else:
                    cond = ('1' if assign[fid] == i else '0') if static else 's%d == %d' % (fid, i)
                    lines.append(pad + ('if ' if i == 0 else 'elif ') + cond + ':')
                _render(blk, ind + 1, items, assign, static, lines)
        elif kind == 'try':
            lines.append(pad + 'try:')
            _render(node[2], ind + 1, items, assign, static, lines)
            lines.insert(len(lines), pad + '    boom(%d)' % fid)
            for k, blk in enumerate(node[3]):
                lines.append(pad + 'except E%d:' % (k + 1))
                _render(blk, ind + 1, items, assign, static, lines)
            if node[4] is not None:
                lines.append(pad + 'else:')
                _render(node[4], ind + 1, items, assign, static, lines)
            if node[5] is not None:
                lines.append(pad + 'finally:')
                _render(node[5], ind + 1, items, assign, static, lines)
        else:
            head = {'for': 'for _i in (0,):', 'while': 'while once(%d):' % fid, 'with': 'with cm():'}[kind]
            lines.append(pad + head)
            _render(node[2], ind + 1, items, assign, static, lines)
            if node[3] is not None:
                lines.append(pad + 'else:')
                _render(node[3], ind + 1, items, assign, static, lines)
    if len(lines) == start or lines[-1].rstrip().endswith(':'):
        lines.append(pad + 'pass')


def _flow_skeletons():
    out = []
    # one if chain, 2..5 branches, with and without else
    for n in (2, 3, 4, 5):
        for has_else in (True, False):
            sk = _Sk()
            out.append(('if%d%s' % (n, 'e' if has_else else ''),
                        [sk.slot(), sk.if_([[sk.slot()] for _ in range(n)], has_else), sk.slot()]))
    # an if chain whose middle branches hold another chain
    sk = _Sk()
    def inner(sk, n, has_else):
        return [sk.slot(), sk.if_([[sk.slot()] for _ in range(n)], has_else), sk.slot()]
    out.append(('if4e/if4e', [sk.slot(), sk.if_([[sk.slot()], inner(sk, 4, True), inner(sk, 4, True), [sk.slot()]], True),
                              sk.slot()]))
    sk = _Sk()
    out.append(('if3/if3', [sk.slot(), sk.if_([inner(sk, 3, False), inner(sk, 3, True), [sk.slot()]], False), sk.slot()]))
    # try statements
    for nh in (1, 2):
        for has_else in (False, True):
            for has_fin in (False, True):
                sk = _Sk()
                out.append(('try%d%s%s' % (nh, 'e' if has_else else '', 'f' if has_fin else ''),
                            [sk.slot(), sk.try_([sk.slot()], [[sk.slot()] for _ in range(nh)],
                                                [sk.slot()] if has_else else None,
                                                [sk.slot()] if has_fin else None), sk.slot()]))
    # mixed nestings
    sk = _Sk()
    out.append(('try/if', [sk.slot(), sk.try_(inner(sk, 3, True), [inner(sk, 4, True), [sk.slot()]], inner(sk, 3, False),
                                              [sk.slot()]), sk.slot()]))
    sk = _Sk()
    def tr(sk):
        return [sk.try_([sk.slot()], [[sk.slot()], [sk.slot()]], [sk.slot()], [sk.slot()])]
    out.append(('if/try', [sk.slot(), sk.if_([[sk.slot()], tr(sk), tr(sk), [sk.slot()]], True), sk.slot()]))
    # loops and with: always executed once
    for kind in ('for', 'while', 'with'):
        for has_else in ((False, True) if kind != 'with' else (False,)):
            sk = _Sk()
            out.append((kind + ('e' if has_else else ''),
                        [sk.slot(), sk.loop(kind, inner(sk, 3, True), [sk.slot()] if has_else else None), sk.slot()]))
    return out


def _relation(top, sb, su):
    """how the binding's place relates to the use's place:
    'sibling-if'   different branches of one if chain
    'else-except'  use in the else clause, binding in an except clause of one try statement; + '-last' if the else
                   clause is the last clause of the statement
    'sibling-try'  other pairs of clauses of one try statement
    'sibling-loop' loop body / loop else
    'inner'        the binding sits in a flow statement that does not hold the use (conditional w.r.t. the use)
    'same'         same block as the use or an enclosing block of it"""
    paths = _slot_paths(top, [], {})
    pb, pu = paths[sb], paths[su]
    i = 0
    while i < len(pb) and i < len(pu) and pb[i][0] is pu[i][0] and pb[i][1] == pu[i][1]:
        i += 1
    if i < len(pb) and i < len(pu) and pb[i][0] is pu[i][0]:
        node = pb[i][0]
        if node[0] == 'if':
            return 'sibling-if'
        if node[0] == 'try':
            if pu[i][1] == 'else' and pb[i][1][0] == 'h':
                return 'else-except' + ('-last' if node[5] is None else '')
            return 'sibling-try'
        return 'sibling-loop'
    if i < len(pb):
        return 'inner'
    return 'same'


def _pure_if(top):
    def walk(block):
        for node in block:
            if node[0] == 'slot':
                continue
            if node[0] != 'if':
                return False
            if not all(walk(b) for _, b in _branches(node)):
                return False
        return True
    return walk(top)


_FLOW_HOSTS = ('C', 'CC', 'FC', 'F')


def _flow_cases():
    """(label, skeleton, binding slot, use slot, order inside a shared slot, {flow id: selector}) for every pair of
    slots of every skeleton and every choice of selectors under which the use is executed: flow statements on the
    use's path run the use's branch (a try statement: every outcome that runs it), flow statements that hold only
    the binding run every possibility (binding executed / not executed)"""
    cases = []
    for label, top in _flow_skeletons():
        paths = _slot_paths(top, [], {})
        slots = sorted(paths)
        for sb in slots:
            for su in slots:
                if not paths[sb] and not paths[su]:
                    continue            # both outside the flow statement: no flow involved
                for order in (('bu', 'ub') if sb == su else ('bu',)):
                    on_use_path = set(id(n) for n, _ in paths[su])
                    nodes = [n for n, _ in paths[su]] + [n for n, _ in paths[sb] if id(n) not in on_use_path]
                    choices = [_options(n, k) for n, k in paths[su]] + \
                              [_all_options(n) for n, _ in paths[sb] if id(n) not in on_use_path]
                    for combo in itertools.product(*choices):
                        cases.append((label, top, sb, su, order, dict((n[1], v) for n, v in zip(nodes, combo))))
    return cases


def _flow_build(case, host, static, pre_bound, fresh):
    """-> (code, value of the binding under test, values bound in the host scope).  Hosts: C class body at module level (enclosing = module); CC class
    body in a class body (the outer class binds x too, Python skips it); FC class body in a function; F function body
    (an unexecuted binding makes the use an UnboundLocalError: not observed)."""
    label, top, sb, su, order, assign = case
    bval = fresh()
    b = 'x = %d' % bval
    u = 'observe(1, x)'
    items = {}
    if sb == su:
        items[sb] = [b, u] if order == 'bu' else [u, b]
    else:
        items[sb] = [b]
        items[su] = [u]
    host_values = [bval]
    if pre_bound:
        first_slot = top[0][1]
        host_values.append(fresh())
        items[first_slot] = ['x = %d' % host_values[1]] + items.get(first_slot, [])
    if host == 'C':
        lines, ind = ['x = %d' % fresh(), 'class K:'], 1
    elif host == 'CC':
        lines, ind = ['x = %d' % fresh(), 'class A:', '    x = %d' % fresh(), '    class K:'], 2
    elif host == 'FC':
        # FINDING (unchanged jedi): a class body inside a function that assigns x somewhere reads x with LOAD_NAME,
        # i.e. class namespace -> globals, skipping the function's x; jedi's goto returns the function's x.  The FC
        # host therefore has no module level x: whenever the class body's binding did not run the use is a NameError
        # and nothing is observed.
        lines, ind = ['def f():', '    x = %d' % fresh(), '    class K:'], 2
    else:
        lines, ind = ['x = %d' % fresh(), 'def f():'], 1
    _render(top, ind, items, assign, static, lines)
    if host in ('FC', 'F'):
        lines.append('f()')
    return '\n'.join(lines) + '\n', bval, host_values


def flow_programs(tier, seed):
    """-> list of (code, selectors, binding value, host scope values, relation, static, pure_if)"""
    rnd = random.Random(seed * 7919 + 17)
    counter = [50000]

    def fresh():
        counter[0] += 1
        return counter[0]
    cases = _flow_cases()
    single = [c for c in cases if '/' not in c[0]]
    nested = [c for c in cases if '/' in c[0]]
    chosen = []
    # every pair of places of every single flow statement in a class body, conditions decided at run time
    for c in single:
        chosen.append((c, 'C', False, False))
        if c[0].startswith('if'):
            chosen.append((c, 'C', True, False))        # the same with conditions jedi can decide statically
    variants = [(h, st, pre) for h in _FLOW_HOSTS for st in (False, True) for pre in (False, True)]
    # other hosts / conditions that are literal 0 and 1 / x bound before the statement too: a sample per case
    if tier == 'quick':
        for c in rnd.sample(single, len(single) // 2):
            chosen.append((c,) + rnd.choice(variants[1:]))
        for c in rnd.sample(nested, 700):
            chosen.append((c,) + (('C', False, False) if rnd.random() < 0.5 else rnd.choice(variants)))
    else:
        for c in single:
            for v in rnd.sample(variants[1:], 3):
                chosen.append((c,) + v)
        for c in nested:
            chosen.append((c, 'C', False, False))
            chosen.append((c,) + rnd.choice(variants[1:]))
    out = []
    for c, host, static, pre in chosen:
        code, bval, host_values = _flow_build(c, host, static, pre, fresh)
        out.append((code, c[5], bval, host_values, _relation(c[1], c[2], c[3]), static, _pure_if(c[1])))
    return out


class _E1(Exception):
    pass


class _E2(Exception):
    pass


class _Cm:
    def __enter__(self):
        return self

    def __exit__(self, *a):
        return False


def _flow_namespace(assign):
    calls = collections.Counter()

    def boom(k):
        m = assign.get(k, 0)
        if m == 1:
            raise _E1()
        if m == 2:
            raise _E2()

    def once(k):
        calls[k] += 1
        return calls[k] == 1
    ns = {'boom': boom, 'once': once, 'cm': _Cm, 'E1': _E1, 'E2': _E2}
    for k, v in assign.items():
        ns['s%d' % k] = v
    return ns


def analyse(code):
    tree = ast.parse(code)
    parents = {}
    for n in ast.walk(tree):
        for ch in ast.iter_child_nodes(n):
            parents[ch] = n

    def scope_of(node):
        cur = node
        while cur in parents:
            cur = parents[cur]
            if isinstance(cur, (ast.FunctionDef, ast.ClassDef, ast.Lambda, ast.ListComp, ast.GeneratorExp,
                                ast.SetComp, ast.DictComp)):
                return cur
        return tree
    def effective_scope(name_node):
        """the scope a Store name binds in, honouring global / nonlocal declarations"""
        sc = scope_of(name_node)
        while isinstance(sc, ast.FunctionDef):
            decl = None
            for n in ast.walk(sc):
                if isinstance(n, (ast.Global, ast.Nonlocal)) and name_node.id in n.names and scope_of(n) is sc:
                    decl = n
            if decl is None:
                return sc
            if isinstance(decl, ast.Global):
                return tree
            sc = scope_of(sc)       # nonlocal: the next enclosing function scope
        return sc
    return tree, parents, scope_of, effective_scope


def _check_program(jedi, code, extra_ns, skip, violations):
    """executes the program, asks goto for every executed use and compares; -> number of evaluations.
    skip(value, use node, const_pos) -> True leaves an observation out (documented exclusions only)"""
    evaluations = 0
    straight = code.startswith('#S')
    tree, parents, scope_of, effective_scope = analyse(code)
    seen = []
    ns = {'observe': lambda site, v: seen.append((site, v))}
    ns.update(extra_ns)
    try:
        exec(compile(code, '<prog>', 'exec'), ns)
    except NameError:
        pass        # a use Python itself cannot resolve: the uses executed before it still count
    except Exception:
        violations.append({'label': 'generated program does not run', 'input': repr(code), 'observed': traceback.format_exc(limit=2)})
        return 0
    # value -> binding node (an int constant on the binding line identifies it)
    const_pos = {}
    for n in ast.walk(tree):
        if isinstance(n, ast.Constant) and isinstance(n.value, int) and n.value > 100:
            const_pos[n.value] = n
    # global/nonlocal declaration lines per identifier
    decl_lines = {}
    for n in ast.walk(tree):
        if isinstance(n, (ast.Global, ast.Nonlocal)):
            for nm in n.names:
                decl_lines.setdefault(nm, set()).add(n.lineno)
    # uses: observe(site, name)
    uses = {}
    for n in ast.walk(tree):
        if isinstance(n, ast.Call) and isinstance(n.func, ast.Name) and n.func.id == 'observe':
            uses[n.args[0].value] = n.args[1]
    s = jedi.Script(code)
    for site, value in seen:
        use = uses[site]
        if value not in const_pos:
            continue
        if use.id == 'p':
            # observed through a parameter whose default is a bare name: the use is that default expression,
            # evaluated when the def statement ran
            fn = scope_of(use)
            if isinstance(fn, ast.FunctionDef) and fn.args.defaults and isinstance(fn.args.defaults[0], ast.Name):
                use = fn.args.defaults[0]
            else:
                continue
        if skip is not None and skip(value, use, const_pos):
            continue
        bind_const = const_pos[value]
        evaluations += 1
        try:
            defs = s.goto(use.lineno, use.col_offset)
        except RecursionError:
            continue
        except Exception:
            violations.append({'label': 'goto raised', 'input': repr((code, site)), 'observed': traceback.format_exc(limit=3)})
            continue
        if not defs:
            violations.append({'label': 'goto finds no definition for an executed use', 'input': repr((code, site)),
                               'observed': 'value %r came from line %d' % (value, bind_const.lineno)})
            continue
        for d in defs:
            if d.name != use.id:
                violations.append({'label': 'goto lands on a different identifier', 'input': repr((code, site)),
                                   'observed': repr((d.name, d.line, d.column))})
                continue
            if d.line in decl_lines.get(use.id, ()):
                continue
            # scope of the returned definition
            dnode = None
            for n in ast.walk(tree):
                if isinstance(n, (ast.Name, ast.arg)) and n.lineno == d.line and n.col_offset == d.column:
                    dnode = n
            if dnode is None:
                continue
            dscope = effective_scope(dnode) if isinstance(dnode, ast.Name) else scope_of(dnode)
            # a parameter belongs to the function whose header holds it
            if isinstance(dnode, ast.arg):
                dscope = parents[parents[dnode]] if isinstance(parents[dnode], ast.arguments) else dscope
            # the binding `for x in (802,)` / call argument: the constant sits in the enclosing scope of the
            # binder; compare with the scope that holds the binding NAME instead
            bname_scope = None
            for n in ast.walk(tree):
                if isinstance(n, ast.Name) and isinstance(n.ctx, ast.Store) and n.id == use.id and n.lineno == bind_const.lineno:
                    bname_scope = effective_scope(n)
            if bname_scope is None:
                # value passed as argument: the binding is the parameter of the called function
                continue
            if dscope is not bname_scope:
                violations.append({'label': 'goto returns a binding from a scope Python did not take the value from',
                                   'input': repr((code, site)),
                                   'observed': 'definition at line %d, value came from line %d' % (d.line, bind_const.lineno)})
        if straight:
            lines = sorted({d.line for d in defs})
            if lines != [bind_const.lineno]:
                violations.append({'label': 'straight-line code: goto is not exactly the observed assignment',
                                   'input': repr((code, site)), 'observed': 'got lines %r want %d' % (lines, bind_const.lineno)})
    return evaluations


def _flow_skip(bval, host_values, relation, static, pure_if, excluded):
    """The observations of the flow dimension that are left out.

    FINDING (unchanged jedi, 'may-be binding hides the enclosing scope'): when the value came from the ENCLOSING scope
    because a binding of the host scope that precedes the use in the text did not run, and jedi's flow analysis cannot
    rule that binding out (status UNSURE: a branch of an earlier/enclosing if statement with a condition it cannot
    evaluate, any clause of a try statement, a while body), goto returns only that binding and not the enclosing
    scope's.  Reproducer: 'x = 1\\nclass K:\\n    if unknown:\\n        x = 2\\n    y = x\\n' with unknown false: goto on the
    last x -> line 4 only.  Kept: bindings that ran; bindings after the use; bindings in a sibling branch of an if
    chain around the use; use in the else clause and binding in an except clause of one try statement; if chains whose
    conditions are the literals 0 / 1 (decided statically).

    FINDING (unchanged jedi, 'else clause that ends a try statement'): use in the else clause, binding in an except
    clause, and the else clause is the LAST clause (no finally): goto returns the except clause's binding although
    the two clauses exclude each other (with a finally clause it returns the enclosing scope's binding).  Reproducer:
    'x = 1\\nclass K:\\n    try:\\n        pass\\n    except E:\\n        x = 2\\n    else:\\n        y = x\\n'.
    Relation 'else-except-last' is left out for that reason."""
    def skip(value, use, const_pos):
        if value in host_values:
            return False            # the binding ran (or x was bound in the host scope before the statement)
        if const_pos[bval].lineno > use.lineno:
            return False
        if relation in ('sibling-if', 'else-except') or (static and pure_if):
            return False
        excluded[relation] += 1
        return True
    return skip


def run(repo, seed, tier):
    import jedi
    violations = []
    evaluations = 0
    generated = generated_programs(tier)
    for code in PROGRAMS + generated:
        evaluations += _check_program(jedi, code, {}, None, violations)
    flows = flow_programs(tier, seed)
    excluded = collections.Counter()
    flow_evaluations = collections.Counter()
    for code, assign, bval, host_values, relation, static, pure_if in flows:
        n = _check_program(jedi, code, _flow_namespace(assign),
                           _flow_skip(bval, host_values, relation, static, pure_if, excluded), violations)
        flow_evaluations[relation] += n
        evaluations += n
    seen_l = {}
    for v in violations:
        seen_l.setdefault(v['label'], []).append(v)
    return {'name': 'C03.scoping', 'contract': 'C03.goto',
            'evaluations': evaluations, 'distinct_nontrivial': evaluations,
            'rule': '%d hand-written executable programs (module/function/closure/class body/comprehension/lambda nesting; '
                    'rebinding, global, nonlocal, parameters and defaults, for targets) + %d generated nestings (depth 1-3 '
                    'over {def, class}, x bound or not at every level, innermost use plain / in a lambda / in a '
                    'comprehension / as bare-name parameter default) + %d control-flow programs (binding and use in every '
                    'pair of places of if chains with 2-5 branches, try statements with 1-2 handlers / else / finally, '
                    'for / while / with, and their nestings; host class body, class in class, class in function, '
                    'function; branch selected at run time by injected selectors or by literal 0/1 conditions; '
                    'evaluations per relation %s; left out (known findings) %s) with unique values per binding; '
                    'every executed use'
                    % (len(PROGRAMS), len(generated), len(flows), sorted(flow_evaluations.items()),
                       sorted(excluded.items())),
            'samples': PROGRAMS[:2] + [flows[0][0]], 'violations': violations[:300],
            'violation_counts': {k: len(v) for k, v in seen_l.items()}}
