"""C03 bounded stand-in: goto on executed uses of identifiers vs the scope Python really took the value from.

Every binding assigns a unique integer; every use is observe(site, name). The program is executed, which tells for each
use which binding supplied the value. Contract: every definition goto returns for the use is a binding of the same
identifier in the SAME scope as the observed binding (or its global/nonlocal declaration); in straight-line programs
it is exactly the observed assignment."""
import ast
import os
import traceback

# name = <unique int>   binds ; observe(<site>, name) uses.  '#S' marks straight-line single-scope programs.
PROGRAMS = [
    '#S\nx = 101\nobserve(1, x)\nx = 102\nobserve(2, x)\ny = 103\nobserve(3, x)\n',
    'x = 201\ndef f():\n    observe(1, x)\n    y = 202\n    observe(2, y)\n    def g():\n        observe(3, y)\n        observe(4, x)\n    g()\nf()\nobserve(5, x)\n',
    'x = 301\ndef f():\n    x = 302\n    observe(1, x)\n    def g():\n        x = 303\n        observe(2, x)\n    g()\n    observe(3, x)\nf()\nobserve(4, x)\n',
    'x = 401\nclass C:\n    x = 402\n    observe(1, x)\n    def m(self):\n        observe(2, x)\n    y = [observe(3, x) for _ in (1,)]\nC().m()\n',
    'x = 501\ndef f():\n    global x\n    x = 502\n    observe(1, x)\nf()\nobserve(2, x)\n',
    'def f():\n    x = 601\n    def g():\n        nonlocal x\n        x = 602\n        observe(1, x)\n    g()\n    observe(2, x)\nf()\n',
    'x = 701\ndef f(x):\n    observe(1, x)\n    def g(y=x):\n        observe(2, y)\n    g()\nf(702)\nobserve(3, x)\n',
    'x = 801\nsq = [observe(1, x) for x in (802,)]\nobserve(2, x)\ngen = list(observe(3, x) for x in (803,))\n',
    'x = 901\nlam = lambda x: observe(1, x)\nlam(902)\nlam2 = lambda: observe(2, x)\nlam2()\n',
    'x = 1001\ndef f():\n    for x in (1002,):\n        observe(1, x)\n    observe(2, x)\nf()\nobserve(3, x)\n',
    'def outer():\n    v = 1101\n    class K:\n        v = 1102\n        def m(self):\n            observe(1, v)\n    K().m()\nouter()\n',
    '#S\na = 1201\nb = 1202\nobserve(1, a)\nobserve(2, b)\na = 1203\nobserve(3, a)\n',
    'x = 1301\ndef f():\n    observe(1, x)\nf()\nx = 1302\nf()\n',
]


def generated_programs(tier):
    """scope nestings of depth 1..3 below the module over {function, class}, x bound (or not) at every level before
    the nested definition, and four forms of the innermost use: plain, lambda, comprehension, bare-name parameter
    default (evaluated at def time in the defining scope, observed through the parameter)"""
    import itertools
    out = []
    counter = [2000]
    depths = (1, 2, 3)
    forms = ('plain', 'lambda', 'comp', 'default')
    for depth in depths:
        for nest in itertools.product('FC', repeat=depth):
            for bound in itertools.product((False, True), repeat=depth + 1):
                if not any(bound):
                    continue
                # quick tier: all nestings, a sample of binding patterns
                idx = sum(1 << i for i, b in enumerate(bound) if b)
                if tier == 'quick' and depth == 3 and idx % 3 != 1:
                    continue
                for form in forms:
                    if tier == 'quick' and depth >= 2 and form in ('lambda', 'comp') and idx % 2 == 0:
                        continue
                    lines = []
                    site = [0]

                    def emit(ind, text):
                        lines.append('    ' * ind + text)

                    def bind(ind):
                        counter[0] += 1
                        emit(ind, 'x = %d' % counter[0])
                    if bound[0]:
                        bind(0)
                    ind = 0
                    for lvl, kind in enumerate(nest, 1):
                        if kind == 'F':
                            emit(ind, 'def f%d():' % lvl)
                        else:
                            emit(ind, 'class C%d:' % lvl)
                        ind += 1
                        if bound[lvl]:
                            bind(ind)
                    site[0] += 1
                    if form == 'plain':
                        emit(ind, 'observe(%d, x)' % site[0])
                    elif form == 'lambda':
                        emit(ind, '(lambda: observe(%d, x))()' % site[0])
                    elif form == 'comp':
                        emit(ind, '[observe(%d, x) for _ in (0,)]' % site[0])
                    else:
                        emit(ind, 'def g(p=x):')
                        emit(ind + 1, 'observe(%d, p)' % site[0])
                        emit(ind, 'g()')
                    # call the functions (class bodies run by themselves), innermost first on the way out
                    for lvl in range(len(nest), 0, -1):
                        ind -= 1
                        if nest[lvl - 1] == 'F':
                            emit(ind, 'f%d()' % lvl)
                    out.append('\n'.join(lines) + '\n')
    return out


def analyse(code):
    tree = ast.parse(code)
    parents = {}
    for n in ast.walk(tree):
        for ch in ast.iter_child_nodes(n):
            parents[ch] = n

    def scope_of(node):
        cur = node
        while cur in parents:
            cur = parents[cur]
            if isinstance(cur, (ast.FunctionDef, ast.ClassDef, ast.Lambda, ast.ListComp, ast.GeneratorExp,
                                ast.SetComp, ast.DictComp)):
                return cur
        return tree
    def effective_scope(name_node):
        """the scope a Store name binds in, honouring global / nonlocal declarations"""
        sc = scope_of(name_node)
        while isinstance(sc, ast.FunctionDef):
            decl = None
            for n in ast.walk(sc):
                if isinstance(n, (ast.Global, ast.Nonlocal)) and name_node.id in n.names and scope_of(n) is sc:
                    decl = n
            if decl is None:
                return sc
            if isinstance(decl, ast.Global):
                return tree
            sc = scope_of(sc)       # nonlocal: the next enclosing function scope
        return sc
    return tree, parents, scope_of, effective_scope


def run(repo, seed, tier):
    import jedi
    violations = []
    evaluations = 0
    generated = generated_programs(tier)
    for code in PROGRAMS + generated:
        straight = code.startswith('#S')
        tree, parents, scope_of, effective_scope = analyse(code)
        seen = []
        ns = {'observe': lambda site, v: seen.append((site, v))}
        try:
            exec(compile(code, '<prog>', 'exec'), ns)
        except NameError:
            pass        # a use Python itself cannot resolve: the uses executed before it still count
        except Exception:
            violations.append({'label': 'generated program does not run', 'input': repr(code), 'observed': traceback.format_exc(limit=2)})
            continue
        # value -> binding node (an int constant on the binding line identifies it)
        const_pos = {}
        for n in ast.walk(tree):
            if isinstance(n, ast.Constant) and isinstance(n.value, int) and n.value > 100:
                const_pos[n.value] = n
        # global/nonlocal declaration lines per identifier
        decl_lines = {}
        for n in ast.walk(tree):
            if isinstance(n, (ast.Global, ast.Nonlocal)):
                for nm in n.names:
                    decl_lines.setdefault(nm, set()).add(n.lineno)
        # uses: observe(site, name)
        uses = {}
        for n in ast.walk(tree):
            if isinstance(n, ast.Call) and isinstance(n.func, ast.Name) and n.func.id == 'observe':
                uses[n.args[0].value] = n.args[1]
        s = jedi.Script(code)
        for site, value in seen:
            use = uses[site]
            if value not in const_pos:
                continue
            if use.id == 'p':
                # observed through a parameter whose default is a bare name: the use is that default expression,
                # evaluated when the def statement ran
                fn = scope_of(use)
                if isinstance(fn, ast.FunctionDef) and fn.args.defaults and isinstance(fn.args.defaults[0], ast.Name):
                    use = fn.args.defaults[0]
                else:
                    continue
            bind_const = const_pos[value]
            bscope = scope_of(bind_const)
            evaluations += 1
            try:
                defs = s.goto(use.lineno, use.col_offset)
            except RecursionError:
                continue
            except Exception:
                violations.append({'label': 'goto raised', 'input': repr((code, site)), 'observed': traceback.format_exc(limit=3)})
                continue
            if not defs:
                violations.append({'label': 'goto finds no definition for an executed use', 'input': repr((code, site)),
                                   'observed': 'value %r came from line %d' % (value, bind_const.lineno)})
                continue
            for d in defs:
                if d.name != use.id:
                    violations.append({'label': 'goto lands on a different identifier', 'input': repr((code, site)),
                                       'observed': repr((d.name, d.line, d.column))})
                    continue
                if d.line in decl_lines.get(use.id, ()):
                    continue
                # scope of the returned definition
                dnode = None
                for n in ast.walk(tree):
                    if isinstance(n, (ast.Name, ast.arg)) and n.lineno == d.line and n.col_offset == d.column:
                        dnode = n
                if dnode is None:
                    continue
                dscope = effective_scope(dnode) if isinstance(dnode, ast.Name) else scope_of(dnode)
                # a parameter belongs to the function whose header holds it
                if isinstance(dnode, ast.arg):
                    dscope = parents[parents[dnode]] if isinstance(parents[dnode], ast.arguments) else dscope
                # the binding `for x in (802,)` / call argument: the constant sits in the enclosing scope of the
                # binder; compare with the scope that holds the binding NAME instead
                bname_scope = None
                for n in ast.walk(tree):
                    if isinstance(n, ast.Name) and isinstance(n.ctx, ast.Store) and n.id == use.id and n.lineno == bind_const.lineno:
                        bname_scope = effective_scope(n)
                if bname_scope is None:
                    # value passed as argument: the binding is the parameter of the called function
                    continue
                if dscope is not bname_scope:
                    violations.append({'label': 'goto returns a binding from a scope Python did not take the value from',
                                       'input': repr((code, site)),
                                       'observed': 'definition at line %d, value came from line %d' % (d.line, bind_const.lineno)})
            if straight:
                lines = sorted({d.line for d in defs})
                if lines != [bind_const.lineno]:
                    violations.append({'label': 'straight-line code: goto is not exactly the observed assignment',
                                       'input': repr((code, site)), 'observed': 'got lines %r want %d' % (lines, bind_const.lineno)})
    seen_l = {}
    for v in violations:
        seen_l.setdefault(v['label'], []).append(v)
    return {'name': 'C03.scoping', 'contract': 'C03.goto',
            'evaluations': evaluations, 'distinct_nontrivial': evaluations,
            'rule': '%d hand-written executable programs (module/function/closure/class body/comprehension/lambda nesting; '
                    'rebinding, global, nonlocal, parameters and defaults, for targets) + %d generated nestings (depth 1-3 '
                    'over {def, class}, x bound or not at every level, innermost use plain / in a lambda / in a '
                    'comprehension / as bare-name parameter default) with unique values per binding; every executed use'
                    % (len(PROGRAMS), len(generated)),
            'samples': PROGRAMS[:2], 'violations': violations[:300],
            'violation_counts': {k: len(v) for k, v in seen_l.items()}}
