"""C04 bounded stand-in (clause f + e/d end-to-end): after `obj.` every attribute the run-time object really has that
is defined in the analysed source is offered; every completion extends the fragment, (name, complete) pairs are
unique, the list is in the documented order.

Three scenario families (all checked with the same completion algebra):
  H  exhaustive small class hierarchies, receiver = instance of the last class (the original enumeration)
  P  seeded random multi-file executable projects (modules, packages, star-import chains, aliases, classes with
     many kinds of attribute definitions); receivers = instances / modules (/ classes when typeshed is present) reached
     through several kinds of expressions; oracle = a child interpreter that runs the program and applies hasattr()
  S  cursor sweep: sampled cursor positions of every syntactic category (tokenize) in generated sources, a generated
     'syntax zoo' and corpus files of the tree under test, whole file and file cut at the cursor, fuzzy and non-fuzzy;
     oracle for the fragment = Python's own tokenizer
"""
import builtins
import io
import itertools
import json
import keyword
import multiprocessing as mp
import os
import random
import subprocess
import sys
import tokenize
import traceback
import unicodedata

CLASSES = ['A', 'B', 'C', 'D', 'E']

L_RAISED = 'complete raised'
L_MISSING = 'attribute of the run-time object defined in the source is not offered'
L_EXTEND = 'completion does not extend the fragment'
L_ALGEBRA = 'complete/prefix length inconsistent'
L_DUP = 'duplicate (name, complete) pair'
L_ORDER = 'completions are not in the documented order'
L_FUZZY = 'fuzzy completion is not a subsequence match or has a complete'
L_DUNDER_PARAM = 'a parameter named __x is completed as x: the completion does not extend the fragment'


# ------------------------------------------------------------------------------------------------ family H
def hierarchies(n):
    """all class DAGs over the first n class names where class i has 0..2 bases among earlier classes, in MRO-legal
    orders only (checked by executing)"""
    out = []
    names = CLASSES[:n]
    choices = []
    for i in range(n):
        opts = [()]
        for k in (1, 2):
            opts += list(itertools.permutations(names[:i], k))
        choices.append(opts)
    for combo in itertools.product(*choices):
        out.append(list(zip(names, combo)))
    return out


def connected(h):
    """every class is the last class or one of its ancestors"""
    bases = dict(h)
    seen, todo = set(), [h[-1][0]]
    while todo:
        c = todo.pop()
        if c not in seen:
            seen.add(c)
            todo += bases[c]
    return len(seen) == len(h)


def render(h, style):
    lines = []
    for name, bases in h:
        lines.append('class %s(%s):' % (name, ', '.join(bases)) if bases else 'class %s:' % name)
        lines.append('    cattr_%s = 1' % name.lower())
        lines.append('    def meth_%s(self): return 1' % name.lower())
        if style == 'init':
            lines.append('    def __init__(self):')
            if bases:
                lines.append('        super().__init__()')
            lines.append('        self.iattr_%s = 1' % name.lower())
        elif style == 'setup':
            lines.append('    def setup_%s(self):' % name.lower())
            lines.append('        self.sattr_%s = 1' % name.lower())
        elif style == 'closure':
            lines.append('    def conf_%s(self):' % name.lower())
            lines.append('        def cb():')
            lines.append('            self.kattr_%s = 1' % name.lower())
            lines.append('        cb()')
        lines.append('')
    last = h[-1][0]
    lines.append('obj = %s()' % last)
    if style == 'setup':
        for name, _ in h:
            lines.append('if hasattr(obj, "setup_%s"): obj.setup_%s()' % (name.lower(), name.lower()))
    if style == 'closure':
        for name, _ in h:
            lines.append('if hasattr(obj, "conf_%s"): obj.conf_%s()' % (name.lower(), name.lower()))
    return '\n'.join(lines) + '\n'


# ------------------------------------------------------------------------------------- the completion algebra
def doc_key(name, fragment):
    return (not name.startswith(fragment), name.startswith('__'), name.startswith('_'), name.lower())


def is_subsequence(fragment, name):
    it = iter(name)
    return all(ch in it for ch in fragment)


def matches(name, fragment, fuzzy, ci):
    """the match predicate of the property statement"""
    if ci:
        name, fragment = name.lower(), fragment.lower()
    return is_subsequence(fragment, name) if fuzzy else name.startswith(fragment)


def check_completions(comps, fragment, fuzzy, ci, where, kind):
    """clauses a-e of the property on one returned list; `where` is the reported input, `kind` the kind of input"""
    viol = []

    def add(label, observed):
        viol.append({'label': label, 'input': where, 'observed': observed, 'kind': kind})

    rows = comps          # (name, complete, name_with_symbols, prefix length)
    for name, complete, nws, plen in rows:
        if not matches(name, fragment, fuzzy, ci):
            # (ParamName.get_public_name strips a leading '__'; reported under its own label to keep triage simple)
            add(L_DUNDER_PARAM if fragment.startswith('_') and matches('__' + name, fragment, fuzzy, ci)
                else L_FUZZY if fuzzy else L_EXTEND, name)
        elif plen != len(fragment):
            add(L_ALGEBRA, repr((name, complete, plen)))
        elif fuzzy:
            if complete is not None:
                add(L_FUZZY, repr((name, complete, plen)))
        elif not nws.startswith(name):
            add(L_ALGEBRA, repr((name, complete, nws, plen)))
        elif ci and not (len(name) >= len(fragment) and all(a.lower() == b.lower() for a, b in zip(name, fragment))):
            # lower() changes the length ('\u0130' -> 'i\u0307'): the fragment matches, but not character by character,
            # 'the missing suffix' has no position to start at; not checked
            pass
        elif complete != nws[len(fragment):]:
            add(L_ALGEBRA, repr((name, complete, nws, plen)))
    pairs = [(r[0], r[1]) for r in rows]
    if len(set(pairs)) != len(pairs):
        add(L_DUP, repr(sorted({p for p in pairs if pairs.count(p) > 1})[:3]))
    keys = [doc_key(r[0], fragment) for r in rows]
    if keys != sorted(keys):          # names with the same key (value/Value) may come in either order
        i = next(i for i in range(len(keys) - 1) if keys[i] > keys[i + 1])
        add(L_ORDER, repr([r[0] for r in rows[max(0, i - 3):i + 4]]))
    return viol


class _Settings:
    """jedi.settings for one evaluation: case_insensitive_completion, add_bracket_after_function"""
    def __init__(self, ci, bracket):
        self.new = {'case_insensitive_completion': ci, 'add_bracket_after_function': bracket}

    def __enter__(self):
        import jedi
        self.old = {k: getattr(jedi.settings, k) for k in self.new}
        for k, v in self.new.items():
            setattr(jedi.settings, k, v)

    def __exit__(self, *a):
        import jedi
        for k, v in self.old.items():
            setattr(jedi.settings, k, v)


def jedi_complete(code, line, col, fuzzy, path=None, project=None, ci=True, bracket=False):
    """-> (rows (name, complete, name_with_symbols, prefix length) | None when jedi hit the recursion limit or raised,
    traceback | None); the rows are read while the settings are in force"""
    import jedi
    with _Settings(ci, bracket):
        try:
            comps = jedi.Script(code, path=path, project=project).complete(line, col, fuzzy=fuzzy)
            return [(c.name, c.complete, c.name_with_symbols, c.get_completion_prefix_length()) for c in comps], None
        except RecursionError:
            return None, None
        except Exception as e:
            last = traceback.extract_tb(e.__traceback__)[-1]
            fname = last.filename.replace(os.sep, '/')
            if not _WORK.get('typeshed', True) and (
                    # sandbox artefacts of an empty typeshed: `type` is a compiled class and ClassMixin.get_filters
                    # asserts for every class receiver (A., cls., signatures of A( ...); types.MethodType /
                    # types.ModuleType do not resolve (`c, = values_from_qualified_names(...)` for `obj.method.`)
                    isinstance(e, AssertionError) and last.name == 'get_filters'
                    and fname.endswith('jedi/inference/value/klass.py')
                    or isinstance(e, ValueError) and last.name == 'py__class__' and '/jedi/inference/value/' in fname
                    and 'values_from_qualified_names' in (last.line or '')):
                _WORK['artefacts'] = _WORK.get('artefacts', 0) + 1
                return None, None
            return None, ''.join(traceback.format_exception(e)[-5:])


def end_pos(code):
    lines = code.split('\n')
    return len(lines), len(lines[-1])


def check_case_h(case):
    h, style = case
    src = render(h, style)
    ns = {}
    try:
        exec(src, ns)
    except TypeError:
        return 0, []        # inconsistent MRO: not a program
    obj = ns['obj']
    defined = {n for n in dir(obj) if n.split('_')[0] in ('cattr', 'meth', 'iattr', 'sattr', 'kattr', 'setup', 'conf')}
    viol = []
    n_eval = 0
    for fragment, fuzzy in (('', False), ('me', False), ('Ca', False), ('tr', True)):
        code = src + 'obj.' + fragment
        n_eval += 1
        comps, exc = jedi_complete(code, *end_pos(code), fuzzy)
        if exc:
            viol.append({'label': L_RAISED, 'input': repr(code[-80:]), 'observed': exc, 'kind': 'H'})
        if comps is None:
            continue
        names = [c[0] for c in comps]
        want = {n for n in defined if matches(n, fragment, fuzzy, True)}
        if want - set(names):
            viol.append({'label': L_MISSING,
                         'input': repr({'classes': h, 'style': style, 'fragment': fragment}),
                         'observed': 'missing %r' % sorted(want - set(names)), 'kind': 'H'})
        viol += check_completions(comps, fragment, fuzzy, True, repr(code[-60:]), 'H')
    return n_eval, viol


# ------------------------------------------------------------------------------------------------ family P
KEYWORDISH = ['not', 'for', 'is', 'in', 'or', 'and', 'if', 'else', 'def', 'del', 'class', 'pass', 'import', 'lambda',
              'try', 'none', 'true', 'false', 'with', 'as', 'from', 'return', 'yield', 'while', 'elif', 'raise', 'assert',
              'global', 'await', 'async', 'except', 'finally', 'break', 'continue', 'nonlocal']
PLAIN = ['val', 'value', 'valid', 'vx', 'x', 'xa', 'name', 'node', 'ab', 'abba', 'b', 'item', 'items', 'aa', 'ünit',
         'İx', 'straße', 'data', 'dat']
TAILS = ['_x', 'ed', '_val', 'mat', 'ify', 'k', '2', 'a', '_', 'x_y']


class Names:
    """seeded identifier factory; the pool is the set of all identifiers the generated sources define"""
    def __init__(self, rnd):
        self.rnd = rnd
        self.pool = set()
        self.reserved = set()

    def _ok(self, n):
        return (n.isidentifier() and not keyword.iskeyword(n) and not hasattr(builtins, n)
                and unicodedata.normalize('NFKC', n) == n and n not in ('self', 'this', 'cls', 'match', 'case', 'type')
                and not n.startswith('zq'))

    def _draw(self):
        rnd = self.rnd
        while True:
            if rnd.random() < 0.45:
                stem = rnd.choice(KEYWORDISH) + rnd.choice(TAILS)
            else:
                stem = rnd.choice(PLAIN) + (rnd.choice(TAILS) if rnd.random() < 0.5 else '')
            stem = rnd.choice([stem, stem, stem.capitalize(), stem.upper(), stem.title()])
            r = rnd.random()
            n = stem if r < 0.62 else '_' + stem if r < 0.82 else '__' + stem if r < 0.9 else '__%s__' % stem
            if self._ok(n):
                return n

    def twin(self, n):
        """a different identifier with the same lower-case form, or None"""
        for t in self.rnd.sample([n.upper(), n.capitalize(), n.lower(), n.swapcase(), n.title()], 5):
            if t != n and t.lower() == n.lower() and self._ok(t):
                return t
        return None

    def any(self, scope=()):
        """an identifier for a class-level / instance-level definition: new, a re-used one (overriding), or the
        case twin of a name already in the scope"""
        rnd = self.rnd
        r = rnd.random()
        n = None
        if scope and r < 0.25:
            n = self.twin(rnd.choice(sorted(scope)))
        elif r < 0.4:
            cands = sorted(self.pool - self.reserved)
            if cands:
                n = rnd.choice(cands)
        if n is None or n in self.reserved:
            n = self._draw()
            while n in self.reserved:
                n = self._draw()
        self.pool.add(n)
        return n

    def uniq(self, twin_of=None, public=False):
        """an identifier never handed out before (module-level names, methods the program calls)"""
        n = None
        if twin_of:
            n = self.twin(twin_of)
        while n is None or n in self.pool or (public and n.startswith('_')):
            n = self._draw()
        self.pool.add(n)
        self.reserved.add(n)
        return n


class Mod:
    def __init__(self, dotted, relpath, pkg):
        self.dotted, self.relpath, self.pkg = dotted, relpath, pkg
        self.lines = []
        self.own = []          # own module-level public+private names in definition order: (name, kind, info)
        self.ns = {}           # simple name -> (kind, info) for everything bound in the namespace
        self.all = None        # __all__ or None
        self.self_points = []  # (line index, indent, selfname, class name)

    def bind(self, name, kind, info, own=True):
        self.ns[name] = (kind, info)
        if own:
            self.own.append((name, kind, info))

    def exprs(self, kind):
        return sorted(n for n, (k, _) in self.ns.items() if k == kind)

    def star_exports(self):
        if self.all is not None:
            return {n: v for n, v in self.ns.items() if n in self.all}
        return {n: v for n, v in self.ns.items() if not n.startswith('_')}


def c3(name, bases):
    """the C3 linearisation of a class with the given base infos, None when there is none"""
    seqs = [list(b['mro']) for b in bases] + [[b['name'] for b in bases]]
    out = [name]
    while True:
        seqs = [q for q in seqs if q]
        if not seqs:
            return out
        for q in seqs:
            head = q[0]
            if not any(head in r[1:] for r in seqs):
                break
        else:
            return None
        out.append(head)
        for q in seqs:
            if q[0] == head:
                del q[0]


def gen_class(rnd, g, mod, cname, meta_ok):
    """append a class definition to mod.lines; bases are class expressions available in the module"""
    avail = []
    infos = {}
    for n, (k, info) in sorted(mod.ns.items()):
        if k == 'class':
            avail.append(n)
            infos[n] = info
        elif k == 'module':
            for c in info['classes']:
                avail.append('%s.%s' % (n, c))
                infos[avail[-1]] = info['mod'].ns[c][1]
    bases, mro = [], [cname]
    for _ in range(6):          # a base list Python accepts (C3 linearisation exists, one metaclass)
        cand = rnd.sample(avail, min(len(avail), rnd.choice([0, 1, 1, 1, 2, 2, 3])))
        lin = c3(cname, [infos[b] for b in cand])
        if lin is not None and len({infos[b]['meta'] for b in cand} - {None}) <= 1:
            bases, mro = cand, lin
            break
    meta = ({infos[b]['meta'] for b in bases} - {None} or {None}).pop()
    # identifiers __x are mangled inside a class body: only unmangled expressions may be used there
    inside = [a for a in avail if not any(p.startswith('__') and not p.endswith('__') for p in a.split('.'))]
    head = ', '.join(bases)
    if not bases and rnd.random() < (0.5 if meta_ok else 0.15):
        mname = g.uniq()
        mod.lines += ['class %s(type):' % mname, '    %s = 1' % g.any(), '    def %s(cls): return 1' % g.any(), '']
        mod.bind(mname, 'metaclass', None)
        head = 'metaclass=' + mname
        meta = mname
    out = mod.lines
    out.append('class %s(%s):' % (cname, head) if head else 'class %s:' % cname)
    scope = set()

    def nm():
        n = g.any(scope)
        scope.add(n)
        return n

    selfname = rnd.choice(['self', 'self', 'self', 'this'])
    calls = []
    kinds = rnd.sample(['cattr', 'cattr', 'ann', 'tuple', 'meth', 'meth', 'static', 'clsm', 'prop', 'nested', 'cond',
                        'init', 'init', 'setup', 'closure', 'loop', 'try', 'chain'], rnd.randint(2, 7))
    for kind in kinds:
        if kind == 'cattr':
            out.append('    %s = 1' % nm())
        elif kind == 'ann':
            out.append('    %s: int = 2' % nm())
            if rnd.random() < 0.3:
                out.append('    %s: int' % g.any())       # a bare annotation defines nothing at run time
        elif kind == 'tuple':
            out.append('    %s, (%s, %s) = 1, (2, 3)' % (nm(), nm(), nm()))
        elif kind == 'chain':
            out.append('    %s = %s = 4' % (nm(), nm()))
        elif kind == 'meth':
            out.append('    def %s(%s):' % (nm(), selfname))
            mod.self_points.append((len(out), '        ', selfname, cname))
            out.append('        return 1')
        elif kind == 'static':
            out += ['    @staticmethod', '    def %s(): return 1' % nm()]
        elif kind == 'clsm':
            out += ['    @classmethod', '    def %s(cls): return 1' % nm()]
        elif kind == 'prop':
            # never re-used: assigning self.<p> would fail for a property without setter
            p = g.uniq(twin_of=rnd.choice(sorted(scope)) if scope and rnd.random() < 0.3 else None)
            scope.add(p)
            out += ['    @property', '    def %s(%s): return 1' % (p, selfname)]
            if rnd.random() < 0.4:
                out += ['    @%s.setter' % p, '    def %s(%s, v): pass' % (p, selfname)]
        elif kind == 'nested':
            out += ['    class %s:' % nm(), '        %s = 1' % g.any()]
        elif kind == 'cond':
            out += ['    if 1:', '        %s = 1' % nm(), '    else:', '        %s = 2' % g.any()]
        elif kind == 'loop':
            out += ['    for %s in (1, 2):' % nm(), '        %s = 3' % nm()]
        elif kind == 'try':
            out += ['    try:', '        %s = 1' % nm(), '    except Exception:', '        %s = 2' % g.any(),
                    '    finally:', '        %s = 3' % nm()]
        elif kind == 'init' and '__init__' not in scope:
            scope.add('__init__')
            out.append('    def __init__(%s):' % selfname)
            style = rnd.choice(['super', 'super', 'explicit', 'none'])
            if bases and style == 'super':
                out.append('        super().__init__()')
            elif bases and style == 'explicit' and bases[0] in inside:
                out.append('        %s.__init__(%s)' % (bases[0], selfname))
            for form in rnd.sample(['plain', 'plain', 'ann', 'tuple', 'for', 'cond', 'child', 'closure', 'walrus',
                                    'try', 'with'], rnd.randint(1, 4)):
                s = selfname
                if form == 'plain':
                    out.append('        %s.%s = 1' % (s, nm()))
                elif form == 'ann':
                    out.append('        %s.%s: int = 1' % (s, nm()))
                elif form == 'tuple':
                    out.append('        %s.%s, %s.%s = 1, 2' % (s, nm(), s, nm()))
                elif form == 'for':
                    out += ['        for %s.%s in (1, 2):' % (s, nm()), '            pass']
                elif form == 'cond':
                    out += ['        if 1:', '            %s.%s = 1' % (s, nm()), '        else:',
                            '            %s.%s = 2' % (s, g.any())]
                elif form == 'try':
                    out += ['        try:', '            %s.%s = 1' % (s, nm()), '        finally:',
                            '            %s.%s = 2' % (s, nm())]
                elif form == 'walrus':
                    out.append('        %s.%s = (%s := 5)' % (s, nm(), 'zq_tmp'))
                elif form == 'with':
                    out += ['        with zq_ctx() as %s.%s:' % (s, nm()), '            pass']
                elif form == 'child' and inside:
                    out.append('        %s.%s = %s()' % (s, nm(), rnd.choice(inside)))
                elif form == 'closure':
                    out += ['        def zq_cb():', '            %s.%s = 1' % (s, nm()), '        zq_cb()']
            if out[-1].startswith('    def __init__'):
                out.append('        pass')
        elif kind == 'setup':
            m = g.uniq()
            calls.append(m)
            out += ['    def %s(%s, zq_arg=0):' % (m, selfname), '        %s.%s = 1' % (selfname, nm()),
                    '        %s.%s = %s.%s = 2' % (selfname, nm(), selfname, nm())]
        elif kind == 'closure':
            m = g.uniq()
            calls.append(m)
            out += ['    def %s(%s):' % (m, selfname), '        def zq_inner(zq_r):',
                    '            %s.%s = zq_r' % (selfname, nm()),
                    '            class zq_K:', '                def zq_m(zq_s): %s.%s = 1' % (selfname, nm()),
                    '            zq_K().zq_m()', '        zq_inner(1)']
    if out[-1].startswith('class '):
        out.append('    pass')
    out.append('')
    return {'calls': calls, 'name': cname, 'mro': mro, 'meta': meta}


CTX = ['class zq_ctx:', '    def __enter__(self): return 1', '    def __exit__(self, *a): return False', '']


def gen_module(rnd, g, mod, earlier, is_main, typeshed):
    out = mod.lines
    out += CTX
    # ---- imports
    k = min(len(earlier), rnd.randint(1, 3) if is_main else rnd.randint(0, 2))
    for e in rnd.sample(earlier, k):
        forms = ['import', 'import_as', 'star', 'star', 'from']
        if e.pkg:
            forms += ['from_pkg', 'from_pkg_as']
            if mod.pkg == e.pkg and mod.dotted != e.pkg:
                forms += ['rel_mod', 'rel_star', 'rel_from'] * 2
        if e.relpath.endswith('__init__.py'):
            forms = ['import', 'import_as', 'star', 'from']
        if mod.relpath.endswith('__init__.py') and e.pkg == mod.dotted:
            forms = ['rel_mod', 'rel_star', 'rel_from', 'star', 'from']
        form = rnd.choice(forms)
        last = e.dotted.split('.')[-1]
        minfo = {'mod': e, 'classes': [n for n, kd, _ in e.own if kd == 'class'],
                 'insts': [n for n, kd, _ in e.own if kd == 'inst']}
        own_names = [n for n, _, _ in e.own]
        pick = rnd.sample(own_names, min(len(own_names), rnd.randint(1, 3)))
        if form == 'import':
            out.append('import ' + e.dotted)
            mod.bind(e.dotted, 'module', minfo, own=False)          # a sub-module is reached as pk.sub
            for pk in earlier:
                if '.' in e.dotted and pk.dotted == e.pkg:          # ... and binds the package itself
                    mod.bind(pk.dotted, 'module', {'mod': pk, 'classes': [n for n, kd, _ in pk.own if kd == 'class'],
                                                   'insts': [n for n, kd, _ in pk.own if kd == 'inst']}, own=False)
        elif form == 'import_as':
            al = g.uniq()
            out.append('import %s as %s' % (e.dotted, al))
            mod.bind(al, 'module', minfo)
        elif form in ('star', 'rel_star'):
            out.append('from %s import *' % (e.dotted if form == 'star' else '.' + last))
            for n, v in sorted(e.star_exports().items()):
                mod.bind(n, v[0], v[1], own=False)
        elif form in ('from', 'rel_from') and pick:
            parts = []
            for n in pick:
                if rnd.random() < 0.35:
                    al = g.uniq()
                    parts.append('%s as %s' % (n, al))
                    mod.bind(al, e.ns[n][0], e.ns[n][1])
                else:
                    parts.append(n)
                    mod.bind(n, e.ns[n][0], e.ns[n][1], own=False)
            src = e.dotted if form == 'from' else '.' + last
            out.append('from %s import %s' % (src, ', '.join(parts)) if rnd.random() < 0.7 else
                       'from %s import (%s)' % (src, ', '.join(parts)))
        elif form in ('from_pkg', 'from_pkg_as', 'rel_mod'):
            src = e.pkg if form != 'rel_mod' else '.'
            if form == 'from_pkg_as':
                al = g.uniq()
                out.append('from %s import %s as %s' % (src, last, al))
                mod.bind(al, 'module', minfo)
            else:
                out.append('from %s import %s' % (src, last))
                mod.bind(last, 'module', minfo, own=False)
    out.append('')
    # ---- definitions
    plan = ['class'] * rnd.randint(1, 5 if is_main else 3) + ['func'] * rnd.randint(0, 2) + ['var'] * rnd.randint(1, 4)
    rnd.shuffle(plan)
    classes = []
    for what in plan:
        own_public = [n for n, _, _ in mod.own if not n.startswith('_')]
        tw = rnd.choice(own_public) if own_public and rnd.random() < 0.3 else None
        if what == 'class':
            cname = g.uniq(twin_of=tw, public=rnd.random() < 0.8)
            info = gen_class(rnd, g, mod, cname, typeshed)
            mod.bind(cname, 'class', info)
            classes.append(cname)
        elif what == 'func':
            f = g.uniq(twin_of=tw)
            p1, p2 = g.any(), g.any()
            while p2 == p1:
                p2 = g.any()
            out += ['def %s(%s=1, *, %s=2):' % (f, p1, p2), '    %s = 3' % g.any(), '    return 1', '']
            mod.bind(f, 'func', None)
        else:
            form = rnd.choice(['plain', 'plain', 'ann', 'tuple', 'chain', 'cond', 'try', 'for', 'global', 'walrus',
                               'with', 'del', 'aug'])
            v = g.uniq(twin_of=tw)
            mod.bind(v, 'var', None)
            if form == 'plain':
                out.append('%s = 1' % v)
            elif form == 'ann':
                out.append('%s: int = 1' % v)
            elif form == 'tuple':
                w = g.uniq()
                mod.bind(w, 'var', None)
                out.append('%s, [%s] = 1, [2]' % (v, w))
            elif form == 'chain':
                w = g.uniq()
                mod.bind(w, 'var', None)
                out.append('%s = %s = 1' % (v, w))
            elif form == 'cond':
                out += ['if 1:', '    %s = 1' % v, 'else:', '    %s = 2' % g.uniq()]
            elif form == 'try':
                out += ['try:', '    %s = 1' % v, 'except Exception:', '    %s = 2' % g.uniq()]
            elif form == 'for':
                out += ['for %s in (1, 2):' % v, '    pass']
            elif form == 'global':
                out += ['def zq_set():', '    global %s' % v, '    %s = 1' % v, 'zq_set()']
            elif form == 'walrus':
                out.append('zq_w = (%s := 1)' % v)
            elif form == 'with':
                out += ['with zq_ctx() as %s:' % v, '    pass']
            elif form == 'aug':
                out += ['%s = 1' % v, '%s += 1' % v]
            elif form == 'del':
                w = g.uniq()
                out += ['%s = 1' % v, '%s = 2' % w, 'del %s' % w]
        out.append('')
    # ---- instances
    cls_exprs = mod.exprs('class')
    for m_name, (kd, info) in sorted(mod.ns.items()):
        if kd == 'module':
            cls_exprs += ['%s.%s' % (m_name, c) for c in info['classes']]
    for ce in rnd.sample(cls_exprs, min(len(cls_exprs), rnd.randint(1, 3))):
        v = g.uniq()
        out.append('%s = %s()' % (v, ce))
        mod.bind(v, 'inst', {'cls': ce})
    if cls_exprs and rnd.random() < 0.6:
        f = g.uniq()
        out += ['def %s():' % f, '    return %s()' % rnd.choice(cls_exprs), '']
        mod.bind(f, 'factory', None)
    if not is_main and rnd.random() < 0.25:
        pub = [n for n, _, _ in mod.own if not n.startswith('__')]
        mod.all = sorted(rnd.sample(pub, max(1, len(pub) * 2 // 3)))
        out.append('__all__ = %r' % mod.all)
    return classes


def gen_project(rnd, typeshed):
    """-> dict(files, main_rel, pool, receivers, self_points)"""
    g = Names(rnd)
    mods = []
    layout = rnd.choice(['flat', 'flat', 'pkg', 'mixed', 'single'])
    plan = []
    if layout in ('flat', 'mixed'):
        for i in range(rnd.randint(1, 3)):
            n = 'zqm%d_%s' % (i, rnd.choice(['val', 'not', 'for', 'Imp', 'x']))
            plan.append((n, n + '.py', None))
    if layout in ('pkg', 'mixed'):
        pk = 'zqpk_' + rnd.choice(['val', 'is', 'x'])
        subs = ['zqs%d_%s' % (i, rnd.choice(['val', 'in', 'x'])) for i in range(rnd.randint(1, 3))]
        for s in subs:
            plan.append(('%s.%s' % (pk, s), '%s/%s.py' % (pk, s), pk))
        plan.append((pk, pk + '/__init__.py', pk))
    setups = []
    for dotted, rel, pkg in plan:
        m = Mod(dotted, rel, pkg)
        for c in gen_module(rnd, g, m, list(mods), False, typeshed):
            setups += m.ns[c][1]['calls']
        mods.append(m)
    main = Mod('zq_main', 'zq_main.py', None)
    for c in gen_module(rnd, g, main, list(mods), True, typeshed):
        setups += main.ns[c][1]['calls']
    # call the setup / closure methods on every instance reachable by a simple name in main
    insts = main.exprs('inst')
    main.lines += ['zq_setups = %r' % sorted(setups),
                   'for zq_o in [%s]:' % ', '.join(insts),
                   '    for zq_n in zq_setups:',
                   '        if hasattr(zq_o, zq_n): getattr(zq_o, zq_n)()', '']
    receivers = []      # (expr, wanted kind)
    for n in insts:
        receivers.append(n)
    for n in main.exprs('factory'):
        receivers.append(n + '()')
    for n in main.exprs('class'):
        receivers.append(n + '()')
        if typeshed:
            receivers.append(n)
    for n, (k, info) in sorted(main.ns.items()):
        if k == 'module':
            receivers.append(n)
            for i in info['insts']:
                receivers.append('%s.%s' % (n, i))
            for c in info['classes']:
                receivers.append('%s.%s()' % (n, c))
    wrapped = []
    for r in receivers:
        w = rnd.random()
        wrapped.append(r if w < 0.7 else '(%s)' % r if w < 0.85 else '[%s][0]' % r if w < 0.93 else '(%s, 1)[0]' % r)
    files = {m.relpath: '\n'.join(m.lines) + '\n' for m in mods + [main]}
    # sub-modules are attributes of their package once imported: their names belong to the pool as well
    pool = sorted(g.pool | {m.dotted.split('.')[-1] for m in mods})
    return {'files': files, 'main_rel': main.relpath, 'pool': pool, 'receivers': wrapped,
            'self_points': main.self_points, 'layout': layout}


ORACLE = r'''
import sys, json, runpy, inspect
proj, main, pool, exprs, classes = json.loads(sys.stdin.read())
sys.path.insert(0, proj)
sys.dont_write_bytecode = True
try:
    ns = runpy.run_path(main, run_name='zq_main')
except TypeError as e:
    print(json.dumps({'not_a_program': repr(e)}))
    sys.exit(0)
def has(o, n):
    try:
        getattr(o, n)
        return True
    except AttributeError:
        return n in dir(o)
out = {}
for e in exprs + [c + '()' for c in classes]:
    o = eval(e, ns)
    kind = 'module' if inspect.ismodule(o) else 'class' if inspect.isclass(o) else 'instance'
    out[e] = [kind, sorted(n for n in pool if has(o, n))]
print(json.dumps({'ok': out}))
'''


def run_oracle(proj_dir, main_path, pool, exprs, classes):
    p = subprocess.run([sys.executable, '-S', '-c', ORACLE], input=json.dumps([proj_dir, main_path, pool, exprs, classes]),
                       capture_output=True, text=True, timeout=120,
                       env={k: v for k, v in os.environ.items() if k not in ('PYTHONPATH', 'JEDI_REPO')})
    if p.returncode != 0:
        raise RuntimeError('oracle process failed on %s: %s' % (proj_dir, p.stderr[-1500:]))
    return json.loads(p.stdout.strip().splitlines()[-1])


def case_variants(rnd, s):
    return rnd.choice([s, s, s.lower(), s.upper(), s.swapcase()])


def fragments_for(rnd, expected, n_prefix):
    """[(fragment, fuzzy)] derived from the names the run-time object has"""
    out = [('', False)]
    if rnd.random() < 0.25:
        out.append(('', True))
    names = sorted(expected)
    for n in rnd.sample(names, min(len(names), n_prefix)):
        pre = case_variants(rnd, n[:rnd.randint(1, len(n))])
        out.append((pre, rnd.random() < 0.25))
    if names:
        n = rnd.choice(names)
        k = min(len(n), rnd.randint(2, 4))
        idx = sorted(rnd.sample(range(len(n)), k))
        sub = ''.join(n[i] for i in idx)
        out.append((case_variants(rnd, sub), True))
        # near misses: a character doubled / the order reversed; whatever is returned must still match
        j = rnd.randrange(len(sub))
        out.append((sub[:j] + sub[j] + sub[j:], True))
        if rnd.random() < 0.5:
            out.append((sub[::-1], True))
    seen, res = set(), []
    for f in out:
        if f not in seen and (f[0] == '' or f[0].isidentifier()):     # what a user can type as an identifier
            seen.add(f)
            res.append(f)
    return res


def defined_at(files, names):
    """where the sources bind the names (a hint for the reader of a violation)"""
    import re
    out = []
    for n in names:
        for rel in sorted(files):
            hits = [(i + 1, ln.strip()) for i, ln in enumerate(files[rel].split('\n'))
                    if re.search(r'(?<!\w)%s(?!\w)' % re.escape(n), ln)]
            out += ['%s:%d: %s' % (rel, i, ln) for i, ln in hits[:2]]
    return out[:6]


def check_case_p(case):
    import jedi
    idx, seed, tier, typeshed = case
    rnd = random.Random('C04-P-%d-%d' % (seed, idx))
    proj = gen_project(rnd, typeshed)
    d = os.path.join(_WORK['dir'], 'p%d' % idx)
    for rel, src in proj['files'].items():
        os.makedirs(os.path.dirname(os.path.join(d, rel)), exist_ok=True)
        with open(os.path.join(d, rel), 'w', encoding='utf-8') as f:
            f.write(src)
    main_path = os.path.join(d, proj['main_rel'])
    main_src = proj['files'][proj['main_rel']]
    self_classes = sorted({sp[3] for sp in proj['self_points']})
    res = run_oracle(d, main_path, proj['pool'], proj['receivers'], self_classes)
    if 'not_a_program' in res:
        if os.environ.get('C04_DEBUG'):
            print('not a program', idx, res['not_a_program'], file=sys.stderr)
        return 0, [], 1
    oracle = res['ok']
    project = jedi.Project(d)
    viol = []
    n_eval = 0
    probes = []       # (code, line, col, receiver label, expected names)
    n_prefix = 2 if tier == 'quick' else 4
    receivers = proj['receivers']
    if tier == 'quick' and len(receivers) > 6:      # all (<= 3) module receivers, instances for the rest
        mods = [r for r in receivers if oracle[r][0] == 'module'][:3]
        rest = [r for r in receivers if r not in mods]
        receivers = mods + rnd.sample(rest, min(len(rest), 6 - len(mods)))
    for expr in receivers:
        kind, expected = oracle[expr]
        for frag, fuzzy in fragments_for(rnd, expected, n_prefix):
            ctx = rnd.choice(['eof', 'eof', 'mid', 'func', 'call', 'assign'])
            stmt = expr + '.' + frag
            if ctx == 'eof':
                code = main_src + stmt
                line, col = end_pos(code)
            elif ctx == 'mid':
                code = main_src + stmt
                line, col = end_pos(code)
                code += '\nzq_after = 0\n'
            elif ctx == 'func':
                code = main_src + 'def zq_probe():\n    ' + stmt
                line, col = end_pos(code)
                code += '\n    return 0\n'
            elif ctx == 'call':
                code = main_src + 'zq_r = id(' + stmt
                line, col = end_pos(code)
                code += ')\n'
            else:
                code = main_src + 'zq_r = [0, ' + stmt
                line, col = end_pos(code)
                code += ', 1]\n'
            probes.append((code, line, col, {'receiver': expr, 'kind': kind, 'ctx': ctx}, expected, frag, fuzzy))
    lines = main_src.split('\n')
    points = proj['self_points']
    if tier == 'quick' and len(points) > 2:
        points = rnd.sample(points, 2)
    for at, indent, selfname, cname in points:
        kind, expected = oracle[cname + '()']
        for frag, fuzzy in fragments_for(rnd, expected, 1)[:4]:
            new = lines[:at] + [indent + selfname + '.' + frag] + lines[at:]
            probes.append(('\n'.join(new), at + 1, len(new[at]),
                           {'receiver': selfname + ' in a method of ' + cname, 'kind': 'instance', 'ctx': 'method'},
                           expected, frag, fuzzy))
    for code, line, col, info, expected, frag, fuzzy in probes:
        ci = rnd.random() >= 0.15
        bracket = rnd.random() < 0.1
        n_eval += 1
        where = repr(dict(info, fragment=frag, fuzzy=fuzzy, case_insensitive=ci, bracket=bracket,
                          case='C04-P-%d-%d' % (seed, idx), layout=proj['layout']))
        comps, exc = jedi_complete(code, line, col, fuzzy, path=main_path, project=project, ci=ci, bracket=bracket)
        if exc:
            viol.append({'label': L_RAISED, 'input': where, 'observed': exc, 'kind': 'P:' + info['kind']})
        if comps is None:
            continue
        names = {c[0] for c in comps}
        want = {n for n in expected if matches(n, frag, fuzzy, ci)}
        if want - names:
            missing = sorted(want - names)
            viol.append({'label': L_MISSING, 'input': where,
                         'observed': 'missing %r; defined at %s' % (missing, defined_at(proj['files'], missing[:3])),
                         'kind': 'P:%s:%s' % (info['kind'], info['ctx'] == 'method')})
        viol += check_completions(comps, frag, fuzzy, ci, where, 'P:algebra')
    return n_eval, viol, 0


# ------------------------------------------------------------------------------------------------ family S
def classify_positions(src):
    """[(line, col, fragment, category)] for the cursor positions whose identifier fragment Python's tokenizer
    determines: inside / at the end of NAME tokens (keywords included), after operators, after white space.
    Positions in or at the end of strings, numbers and comments and positions after '[' are not enumerated."""
    toks = list(tokenize.generate_tokens(io.StringIO(src).readline))
    out = []
    skip_types = {tokenize.STRING, tokenize.NUMBER, tokenize.COMMENT}
    depth_fstring = 0
    stmt_first = None
    paren = []           # for every open bracket: True when it is a call parenthesis
    prev = None
    for i, t in enumerate(toks):
        tt = t.type
        name_fs = tokenize.tok_name[tt]
        if name_fs == 'FSTRING_START':
            depth_fstring += 1
        if name_fs == 'FSTRING_END':
            depth_fstring -= 1
            prev = t
            continue
        if depth_fstring or tt in (tokenize.ENDMARKER, tokenize.INDENT, tokenize.DEDENT):
            if tt in (tokenize.INDENT,):
                out.append((t.end[0], t.end[1], '', 'indent'))
            prev = t if tt != tokenize.DEDENT else prev
            continue
        if tt in (tokenize.NEWLINE, tokenize.NL):
            stmt_first = None if tt == tokenize.NEWLINE else stmt_first
            prev = t
            continue
        if stmt_first is None and tt not in skip_types:
            stmt_first = t.string
        where = 'import:' if stmt_first in ('import', 'from') else 'call:' if paren and paren[-1] else ''
        if t.start[0] != t.end[0]:
            prev = t
            continue
        (l, c0), (_, c1) = t.start, t.end
        # white space in front of the token
        if prev is not None and prev.end[0] == l and prev.end[1] < c0 and prev.type not in skip_types \
                and prev.string != '[':
            out.append((l, c0, '', where + 'space after ' + ('kw' if keyword.iskeyword(prev.string) else
                                                             'name' if prev.type == tokenize.NAME else
                                                             prev.string if prev.string in ',=:' else 'operator')))
        if tt == tokenize.NAME:
            kw = 'kw' if keyword.iskeyword(t.string) else 'name'
            for c in range(c0 + 1, c1 + 1):
                out.append((l, c, t.string[:c - c0], where + kw + (' end' if c == c1 else ' inside')))
        elif tt == tokenize.OP:
            if t.string in '([{':
                paren.append(t.string == '(' and prev is not None and
                             (prev.type == tokenize.NAME and not keyword.iskeyword(prev.string) or prev.string in ')]'))
            elif t.string in ')]}' and paren:
                paren.pop()
            if t.string != '[':
                where2 = 'call:' if paren and paren[-1] else where if where == 'import:' else ''
                out.append((l, c1, '', where2 + 'after ' + (t.string if t.string in '.(,=:' else 'operator')))
        prev = t
    return out


ZOO_STMTS = [
    'import {m}, {m2} as {n}',
    'from {m} import {a}, {b} as {n}',
    'from {m}.{m2} import ({a}, {b})',
    'from . import {m}',
    'from .{m} import {a} as {n}',
    '{n} = not {a}',
    '{n} = {a} if {b} else {c}',
    '{n} = {a} is not {b} and {c} in {d} or not {a}',
    'for {n} in {a}:\n    pass\nelse:\n    pass',
    'while {a}:\n    break',
    'if {a}:\n    pass\nelif {b}:\n    pass\nelse:\n    pass',
    'try:\n    pass\nexcept {E} as {n}:\n    raise\nelse:\n    pass\nfinally:\n    pass',
    'with {f}() as {n}, {f}({a}):\n    pass',
    'del {d}',
    'assert {a}, {b}',
    'def {n}({p}, {q}=1, *{r}, {s}=2, **{t}):\n    global {a}\n    return {p}',
    'async def {n}({p}):\n    await {f}({p})\n    async with {a} as {q}:\n        pass\n    async for {r} in {b}:\n'
    '        continue',
    '{n} = lambda {p}, {q}=1: {p} or {q}',
    '{n} = [{p} for {p} in {a} if {p}]',
    '{n} = {{{p}: {q} for {p}, {q} in {a}}}',
    '{f}({a}, {kw}={b})',
    '{f}({a}, {kw}={b}, {kw2}={o}.{at})',
    '{f}(\n    {a},\n    {kw}={b},\n)',
    '{K}({kw}={a}).{at}',
    '{o}.{at}',
    '{o}.{me}({o}.{at}, *{a}, **{b})',
    '@{f}\n@{o}.{me}({a})\nclass {n}({K}, metaclass={M}):\n    {p}: {K} = {a}\n    def {q}(self, {r}):\n'
    '        return self.{p}',
    'print({a}, end={b})',
    'def {n}():\n    {p} = yield {a}\n    yield from {b}\n    def {q}():\n        nonlocal {p}\n        return {p}',
    '{n} = ({a}, {b})',
    '{n} = {a}[{b}:{c}]',
    'raise {E}({a}) from {b}',
    '{n}: {K} = {K}()',
    '{n} += {a} ** -{b}',
    'if ({n} := {a}) is None: pass',
    'x = {a}; {n} = {b}',
    'return_ = {o} .{at}',
    '{n} = {o}.{at}.{at2}',
    '{n} = f"{{{a}}} and {{{o}.{at}!r}}"',
    'pass',
]


def gen_zoo(rnd):
    g = Names(rnd)
    V = [g.uniq() for _ in range(6)]
    for i in range(2):
        t = g.twin(V[i])
        if t and t not in g.pool:
            g.pool.add(t)
            V.append(t)
    at = [g.any() for _ in range(4)]
    me = g.any()
    kws = [g.any() for _ in range(3)]
    f, K, M, E, o = (g.uniq(public=True) for _ in range(5))
    lines = ['%s = 1' % v for v in V]
    lines += ['def %s(%s=1, %s=2, *zq_a, %s=3, **zq_k):' % (f, kws[0], kws[1], kws[2]), '    return %s' % kws[0], '',
              'class %s(type): pass' % M, 'class %s(Exception): pass' % E, '',
              'class %s:' % K,
              '    %s = 1' % at[0], '    %s = 2' % at[1],
              '    def __init__(self, %s=1, %s=2):' % (kws[0], kws[1]),
              '        self.%s = self' % at[2], '        self.%s = 3' % at[3],
              '    def %s(self, *a, **k): return self' % me, '', '%s = %s()' % (o, K), '']
    body = []
    for tmpl in rnd.sample(ZOO_STMTS, rnd.randint(10, 18)):
        d = dict(m='zqmod', m2='zqsub', f=f, K=K, M=M, E=E, o=o, me=me, at=rnd.choice(at), at2=rnd.choice(at),
                 kw=kws[0], kw2=rnd.choice(kws[1:]))
        for key in 'abcd':
            d[key] = rnd.choice(V)
        for key in 'npqrst':
            d[key] = g.any()
        body.append(tmpl.format(**d))
    half = len(body) // 2
    lines += body[:half]
    lines += ['def zq_fn(%s):' % V[0]] + ['    ' + ln for s in body[half:] for ln in s.split('\n')] + ['    return 1']
    return '\n'.join(lines) + '\n'


def check_case_s(case):
    import jedi
    kind, ident, src, path, seed, tier = case
    rnd = random.Random('C04-S-%d-%s' % (seed, ident))
    try:
        positions = classify_positions(src)
    except (tokenize.TokenError, SyntaxError, IndentationError) as e:
        if kind == 'corpus':
            return 0, [], 1
        raise RuntimeError('generated source does not tokenize: %r\n%s' % (e, src))
    by_cat = {}
    for p in positions:
        by_cat.setdefault(p[3], []).append(p)
    per_cat = {'quick': 1, 'thorough': 2}[tier]
    chosen = []
    for cat in sorted(by_cat):
        ps = by_cat[cat]
        chosen += rnd.sample(ps, min(len(ps), per_cat))
    lines = src.split('\n')
    project = None
    if kind == 'corpus':
        project = _WORK.get('corpus_project')
        if project is None:
            project = _WORK['corpus_project'] = jedi.Project(_WORK['repo'])
    viol = []
    n_eval = 0
    for line, col, frag, cat in chosen:
        combos = [(m, f) for m in ('full', 'cut') for f in (False, True)]
        if tier == 'quick':
            combos = rnd.sample(combos, 2)
        for mode, fuzzy in combos:
            code = src if mode == 'full' else '\n'.join(lines[:line - 1] + [lines[line - 1][:col]])
            ci = rnd.random() >= 0.15
            bracket = kind != 'corpus' and rnd.random() < 0.1
            n_eval += 1
            shown = lines[line - 1][:col][-40:] + '|' + (lines[line - 1][col:][:15] if mode == 'full' else '<EOF>')
            where = repr({'source': '%s %s (seed %d)' % (kind, ident, seed), 'line': line, 'col': col, 'at': shown,
                          'category': cat, 'mode': mode, 'fuzzy': fuzzy, 'case_insensitive': ci, 'bracket': bracket})
            comps, exc = jedi_complete(code, line, col, fuzzy, path=path, project=project, ci=ci, bracket=bracket)
            if exc:
                if kind == 'corpus' and not _WORK['typeshed']:
                    # without typeshed the inference of stdlib-using corpus files raises: sandbox artefact
                    _WORK['artefacts'] = _WORK.get('artefacts', 0) + 1
                    continue
                viol.append({'label': L_RAISED, 'input': where, 'observed': exc, 'kind': 'S:' + kind})
            if comps is None:
                continue
            viol += check_completions(comps, frag, fuzzy, ci, where, 'S:%s:%s' % (kind, cat.split(':')[-1]))
    return n_eval, viol, 0


# ------------------------------------------------------------------------------------------------ driver
_WORK = {}


def _init_worker(repo, typeshed):
    import tempfile
    import jedi
    _WORK['dir'] = tempfile.mkdtemp(prefix='w_', dir=os.environ['STANDIN_TMP'])
    _WORK['repo'] = repo
    _WORK['typeshed'] = typeshed
    jedi.settings.cache_directory = os.path.join(_WORK['dir'], 'cache')


def _dispatch(job):
    fam, case = job
    before = _WORK.get('artefacts', 0)
    if fam == 'H':
        res = check_case_h(case) + (0,)
    elif fam == 'P':
        res = check_case_p(case)
    else:
        res = check_case_s(case)
    return (fam,) + res + (_WORK.get('artefacts', 0) - before,)


def corpus_files(repo):
    out = []
    for base, dirs, files in os.walk(os.path.join(repo, 'jedi')):
        dirs[:] = sorted(d for d in dirs if d not in ('third_party', '__pycache__'))
        for f in sorted(files):
            if f.endswith('.py'):
                out.append(os.path.join(base, f))
    return out


def run(repo, seed, tier):
    quick = tier == 'quick'
    typeshed = os.path.isdir(os.path.join(repo, 'jedi', 'third_party', 'typeshed', 'stdlib'))
    jobs = []
    # H
    for n in (2, 3, 4, 5):
        hs = hierarchies(n)
        # a hierarchy in which some class is not an ancestor of the receiver's class repeats a smaller hierarchy:
        # the connected ones are enumerated exhaustively, the others only sampled in the thorough tier
        conn = [h for h in hs if connected(h)]
        for h in conn:
            for style in (('init', 'setup', 'closure') if n < 5 or not quick else ('init',)):
                jobs.append(('H', (h, style)))
        if not quick:
            rest = [h for h in hs if not connected(h)]
            rnd = random.Random(1000 + seed + n)  # seeded random samples (a stride is biased on product-ordered lists)
            for h in rnd.sample(rest, len(rest) // 2):
                jobs.append(('H', (h, 'init')))
    h_samples = [render(j[1][0], j[1][1]) for j in jobs[:1]]
    # P
    n_p = 100 if quick else 800
    for i in range(n_p):
        jobs.append(('P', (i, seed, tier, typeshed)))
    # S
    n_gen, n_zoo, n_corpus = (16, 30, 6) if quick else (120, 240, 30)
    rnd = random.Random('C04-S-%d' % seed)
    for i in range(n_gen):
        proj = gen_project(random.Random('C04-SG-%d-%d' % (seed, i)), typeshed)
        rel = rnd.choice(sorted(proj['files']))
        jobs.append(('S', ('generated', '%d:%s' % (i, rel), proj['files'][rel], None, seed, tier)))
    zoo_sample = None
    for i in range(n_zoo):
        src = gen_zoo(random.Random('C04-SZ-%d-%d' % (seed, i)))
        zoo_sample = zoo_sample or src
        jobs.append(('S', ('zoo', str(i), src, None, seed, tier)))
    files = corpus_files(repo)
    for path in rnd.sample(files, min(len(files), n_corpus)):
        with open(path, encoding='utf-8') as f:
            src = f.read()
        jobs.append(('S', ('corpus', os.path.relpath(path, repo), src, path, seed, tier)))
    random.Random('C04-shuffle-%d' % seed).shuffle(jobs)       # balance the load of the workers
    with mp.get_context('fork').Pool(min(16, os.cpu_count() or 4), initializer=_init_worker,
                                     initargs=(repo, typeshed)) as pool:
        results = pool.map(_dispatch, jobs, chunksize=2)
    evaluations = sum(r[1] for r in results)
    per_family = {}
    discarded = 0
    artefacts = 0
    for fam, n, v, disc, art in results:
        per_family[fam] = per_family.get(fam, 0) + n
        discarded += disc
        artefacts += art
    all_viol = [v for r in results for v in r[2]]
    counts = {}
    per_kind = {}
    violations = []
    for v in all_viol:
        counts[v['label']] = counts.get(v['label'], 0) + 1
        k = (v['label'], v.get('kind'))
        per_kind[k] = per_kind.get(k, 0) + 1
        if per_kind[k] <= 3 and len(violations) < 60:
            violations.append({key: val for key, val in v.items() if key != 'kind'})
    return {'name': 'C04.attribute-completeness', 'contract': 'C04.complete',
            'evaluations': evaluations, 'distinct_nontrivial': evaluations,
            'rule': 'H: all class hierarchies over <= 5 classes, each with 0..2 bases among the earlier ones (all orders; only '
                    'those Python accepts) in which every class is an ancestor of the last one (thorough: plus half of the '
                    'others), each class defining a class attribute, a method and an instance attribute '
                    'assigned in __init__ / in a setup method / in a closure of a method; receiver = instance of the last '
                    'class; fragments "", "me", "Ca", fuzzy "tr"; oracle = dir() of the executed object. '
                    'P: %d seeded random executable projects (1-7 files: flat modules, a package with sub-modules, '
                    'import / import as / from-import (as) / star imports incl. chains, relative imports, __all__; classes '
                    'with up to 3 bases, class attributes defined by plain, annotated, tuple, chained, conditional, loop, '
                    'try assignments, methods, static/class methods, properties, nested classes, self attributes in '
                    '__init__ (plain, annotated, tuple, for, with, try, closure), in setup methods and nested closures; '
                    'identifiers with keyword prefixes, case twins, _private, __mangled, __dunder__, non-ASCII); '
                    'receivers = instances, factory calls, modules, attributes of modules%s, wrapped in (), [..][0], '
                    'self inside a method; cursor at EOF, mid-file, in a function, in a call, in a list; fragments = "", '
                    'case-varied prefixes and subsequences of real attribute names, near-miss subsequences; fuzzy and '
                    'non-fuzzy; case_insensitive_completion and add_bracket_after_function sampled; oracle = hasattr() in '
                    'a child interpreter that ran the program; project k is gen_project(random.Random("C04-P-<seed>-<k>")). '
                    'S: cursor sweep over %d generated modules, %d syntax-zoo modules and %d corpus files of the tree: a '
                    'seeded sample of every category of cursor position (inside/at end of names and keywords, after each '
                    'operator, after white space, in imports, in call parentheses), whole file and file cut at the cursor, '
                    'fuzzy and non-fuzzy; oracle for the fragment = tokenize. Every returned list is checked for: match '
                    'predicate, prefix length, complete == suffix of name_with_symbols (None when fuzzy), unique '
                    '(name, complete), documented order. evaluations per family: %r; generated programs Python rejects '
                    '(MRO / metaclass conflict): %d; evaluations not checked because of the empty typeshed: %d'
                    % (n_p, ', classes' if typeshed else ' (class receivers and exceptions in corpus files are skipped: '
                       'the typeshed of this tree is empty, ClassMixin.get_filters asserts)', n_gen, n_zoo, n_corpus,
                       per_family, discarded, artefacts),
            'samples': h_samples + [zoo_sample], 'violations': violations,
            'violation_counts': counts}
