"""C04 bounded stand-in (clause f + e/d end-to-end): after `obj.` every attribute the run-time object really has that
is defined in the analysed source is offered; every completion extends the fragment, (name, complete) pairs are
unique, the list is in the documented order."""
import itertools
import multiprocessing as mp
import os
import traceback

CLASSES = ['A', 'B', 'C', 'D', 'E']


def hierarchies(n):
    """all class DAGs over the first n class names where class i has 0..2 bases among earlier classes, in MRO-legal
    orders only (checked by executing)"""
    out = []
    names = CLASSES[:n]
    choices = []
    for i in range(n):
        opts = [()]
        for k in (1, 2):
            opts += list(itertools.permutations(names[:i], k))
        choices.append(opts)
    for combo in itertools.product(*choices):
        out.append(list(zip(names, combo)))
    return out


def render(h, style):
    lines = []
    for name, bases in h:
        lines.append('class %s(%s):' % (name, ', '.join(bases)) if bases else 'class %s:' % name)
        lines.append('    cattr_%s = 1' % name.lower())
        lines.append('    def meth_%s(self): return 1' % name.lower())
        if style == 'init':
            lines.append('    def __init__(self):')
            if bases:
                lines.append('        super().__init__()')
            lines.append('        self.iattr_%s = 1' % name.lower())
        elif style == 'setup':
            lines.append('    def setup_%s(self):' % name.lower())
            lines.append('        self.sattr_%s = 1' % name.lower())
        elif style == 'closure':
            lines.append('    def conf_%s(self):' % name.lower())
            lines.append('        def cb():')
            lines.append('            self.kattr_%s = 1' % name.lower())
            lines.append('        cb()')
        lines.append('')
    last = h[-1][0]
    lines.append('obj = %s()' % last)
    if style == 'setup':
        for name, _ in h:
            lines.append('if hasattr(obj, "setup_%s"): obj.setup_%s()' % (name.lower(), name.lower()))
    if style == 'closure':
        for name, _ in h:
            lines.append('if hasattr(obj, "conf_%s"): obj.conf_%s()' % (name.lower(), name.lower()))
    return '\n'.join(lines) + '\n'


def doc_key(name, fragment):
    return (not name.startswith(fragment), name.startswith('__'), name.startswith('_'), name.lower())


def check_case(case):
    import jedi
    h, style = case
    src = render(h, style)
    ns = {}
    try:
        exec(src, ns)
    except TypeError:
        return 0, []        # inconsistent MRO: not a program
    obj = ns['obj']
    defined = {n for n in dir(obj) if n.split('_')[0] in ('cattr', 'meth', 'iattr', 'sattr', 'kattr', 'setup', 'conf')}
    viol = []
    n_eval = 0
    for fragment in ('', 'me', 'Ca'):
        code = src + 'obj.' + fragment
        n_eval += 1
        try:
            comps = jedi.Script(code).complete()
        except RecursionError:
            continue
        except Exception:
            viol.append({'label': 'complete raised', 'input': repr(code[-80:]), 'observed': traceback.format_exc(limit=3)})
            continue
        names = [c.name for c in comps]
        want = {n for n in defined if n.lower().startswith(fragment.lower())}
        if want - set(names):
            viol.append({'label': 'attribute of the run-time object defined in the source is not offered',
                         'input': repr({'classes': h, 'style': style, 'fragment': fragment}),
                         'observed': 'missing %r' % sorted(want - set(names))})
        for c in comps:
            if not c.name.lower().startswith(fragment.lower()):
                viol.append({'label': 'completion does not extend the fragment', 'input': repr(code[-60:]),
                             'observed': c.name})
            elif c.name[:c.get_completion_prefix_length()] + (c.complete or '') != c.name_with_symbols \
                    or c.get_completion_prefix_length() != len(fragment):
                viol.append({'label': 'complete/prefix length inconsistent', 'input': repr(code[-60:]),
                             'observed': repr((c.name, c.complete, c.get_completion_prefix_length()))})
        pairs = [(c.name, c.complete) for c in comps]
        if len(set(pairs)) != len(pairs):
            viol.append({'label': 'duplicate (name, complete) pair', 'input': repr(code[-60:]),
                         'observed': repr([p for p in pairs if pairs.count(p) > 1][:3])})
        if names != sorted(names, key=lambda n: doc_key(n, fragment)):
            viol.append({'label': 'completions are not in the documented order', 'input': repr(code[-60:]),
                         'observed': repr(names[:8])})
    return n_eval, viol


def _init_worker():
    import tempfile
    import jedi
    jedi.settings.cache_directory = tempfile.mkdtemp(prefix='w_', dir=os.environ['STANDIN_TMP'])


def run(repo, seed, tier):
    cases = []
    for n in (2, 3, 4, 5):
        hs = hierarchies(n)
        import random
        rnd = random.Random(1000 + seed + n)      # seeded random samples (a stride is biased on product-ordered lists)
        if n == 5:
            hs = rnd.sample(hs, len(hs) // (12 if tier == 'quick' else 2))
        if n == 4 and tier == 'quick':
            hs = rnd.sample(hs, len(hs) // 3)
        for h in hs:
            for style in (('init', 'setup', 'closure') if n < 5 else ('init',)):
                cases.append((h, style))
    with mp.get_context('fork').Pool(min(16, os.cpu_count() or 4), initializer=_init_worker) as pool:
        results = pool.map(check_case, cases, chunksize=4)
    evaluations = sum(r[0] for r in results)
    violations = [v for r in results for v in r[1]]
    seen = {}
    for v in violations:
        seen.setdefault(v['label'], []).append(v)
    return {'name': 'C04.attribute-completeness', 'contract': 'C04.complete',
            'evaluations': evaluations, 'distinct_nontrivial': evaluations,
            'rule': 'class hierarchies over <= 5 classes, each with 0..2 bases among the earlier ones (all orders; only '
                    'those Python accepts), each class defining a class attribute, a method and an instance attribute '
                    'assigned in __init__ / in a setup method / in a closure of a method; receiver = instance of the last '
                    'class; fragments "", "me", "Ca"; oracle = dir() of the executed object',
            'samples': [render(c[0], c[1]) for c in cases[:2]], 'violations': violations[:300],
            'violation_counts': {k: len(v) for k, v in seen.items()}}
